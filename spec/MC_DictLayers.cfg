SPECIFICATION MSpec
CONSTANTS
  SysPos <- Sys
  MaxUser = 14
  MaxDicts = 2
  MaxRegs = 2
INVARIANTS PosStraight SystemPosUntouched AtMostMax Emit
CHECK_DEADLOCK FALSE
