----------------------------- MODULE Trace_Lattice -----------------------------
(* Trace validation for C02: whole analyses recorded with hooks H2/H3/H4.        *)
(*  world{conn, lex}     source-of-truth matrix text and lexicon CSV parameters  *)
(*  run{mode,...}  lat_reset{n}  pos_begin{p}  lat_ins{b,e,lid,rid,cost,wid,total,pe,pi} *)
(*  lat_eos{res,total}  path{stage="best",nodes}  result{res, morphemes}         *)
EXTENDS Lattice, TraceIO

VARIABLES l,
          lex,      \* lex[d+1][w+1] = <<lid, rid, cost>> of word w of dictionary d (cost 100000 = computed at load time)
          path,     \* the best path as logged (adopted: ties are free), checked to be optimal
          info      \* [mode, plain]: analysis mode, and whether no path-rewrite plugin is configured

tvars == <<lvars, l, lex, path, info>>

Ev == Rec[l]

TInit == /\ l = 1 /\ lex = <<>> /\ path = <<>> /\ info = [mode |-> 2, plain |-> FALSE]
         /\ conn = <<>> /\ size = 0 /\ ends = <<>> /\ eos = NoEos /\ pos = 0

Matrix(rows) == [r \in 0..(Len(rows) - 1) |-> [c \in 0..(Len(rows[r + 1]) - 1) |-> rows[r + 1][c + 1]]]

TrWorld == /\ l <= NRec /\ Ev.ev = "world"
           /\ conn' = Matrix(Ev.conn) /\ lex' = Ev.lex
           /\ size' = 0 /\ ends' = <<>> /\ eos' = NoEos /\ pos' = 0 /\ path' = <<>>
           /\ l' = l + 1 /\ UNCHANGED info

TrRun == /\ l <= NRec /\ Ev.ev = "run"
         /\ info' = [mode |-> Ev.mode, plain |-> (Ev.meta.n_path_rewrite = 0)]
         /\ size' = 0 /\ ends' = <<>> /\ eos' = NoEos /\ pos' = 0 /\ path' = <<>>
         /\ l' = l + 1 /\ UNCHANGED <<conn, lex>>

TrReset == /\ l <= NRec /\ Ev.ev = "lat_reset"
           /\ ResetL(Ev.n)
           /\ l' = l + 1 /\ UNCHANGED <<lex, path, info>>

TrPos == /\ l <= NRec /\ Ev.ev = "pos_begin"
         /\ size > 0 /\ ~eos.set /\ pos <= Ev.p /\ Ev.p < size - 1
         /\ pos' = Ev.p
         /\ l' = l + 1 /\ UNCHANGED <<conn, ends, size, eos, lex, path, info>>

\* word ids are logged as (dic, word): dictionary number (15 = out of vocabulary) and word number
IsDictWord(e) == e.dic < 15

\* "recomputed from the dictionary's word parameters": a dictionary node must carry the
\* parameters declared for its word in the lexicon source
ParamsOK(e) ==
  IsDictWord(e) =>
     /\ e.dic + 1 <= Len(lex) /\ e.word + 1 <= Len(lex[e.dic + 1])
     /\ LET row == lex[e.dic + 1][e.word + 1]
        IN /\ e.lid = row[1] /\ e.rid = row[2]
           /\ (row[3] # 100000 => e.cost = row[3])

TrIns == /\ l <= NRec /\ Ev.ev = "lat_ins"
         /\ Ev.b = pos
         /\ ParamsOK(Ev)
         /\ Insert(Ev.e, Ev.lid, Ev.rid, Ev.cost, <<Ev.dic, Ev.word>>)
         /\ LET nd == ends'[Ev.e + 1][Len(ends'[Ev.e + 1])]
            IN /\ nd.total = Ev.total                                  \* the recurrence, every insert
               /\ nd.total # INF => /\ Ev.pe = Ev.b                     \* back pointer: A minimiser (ties free)
                                    /\ (Ev.pi + 1) \in Minimisers(ends[pos + 1], Ev.lid, Ev.cost)
         /\ l' = l + 1 /\ UNCHANGED <<lex, path, info>>

\* the position loop has no "finished" event: the remaining Advance steps and ConnectEos
\* are one trace step
TrEos == /\ l <= NRec /\ Ev.ev = "lat_eos"
         /\ size > 0 /\ ~eos.set
         /\ eos' = [total |-> ConnectCost(ends[size], 0, 0), set |-> TRUE]
         /\ pos' = size - 1 /\ UNCHANGED <<conn, ends, size>>
         /\ IF Ev.res = "ok" THEN eos'.total = Ev.total /\ eos'.total # INF
                             ELSE eos'.total = INF
         /\ l' = l + 1 /\ UNCHANGED <<lex, path, info>>

\* the chosen segmentation before path rewriting: a tiling of 0..n by inserted nodes whose
\* cumulative costs are the recomputed sums and whose total (with the EOS connection) is the
\* lattice minimum.  Identity of the path is not compared.
InLattice(nd) == \E i \in 1..Len(ends[nd.e + 1]) :
                   LET x == ends[nd.e + 1][i] IN
                   x.b = nd.b /\ x.lid = nd.lid /\ x.rid = nd.rid /\ x.cost = nd.cost /\ x.wid = <<nd.dic, nd.word>>

BestPathOK(P) ==
  LET n == Len(P) IN
  /\ n > 0 /\ P[1].b = 0 /\ P[n].e = size - 1
  /\ \A k \in 1..(n - 1) : P[k].e = P[k+1].b
  /\ \A k \in 1..n : InLattice(P[k]) /\ P[k].total = CumCost(P, k)
  /\ eos.set /\ CumCost(P, n) + conn[P[n].rid][0] = eos.total

TrPath == /\ l <= NRec /\ Ev.ev = "path"
          /\ IF Ev.stage = "best" THEN BestPathOK(Ev.nodes) /\ path' = Ev.nodes
                                  ELSE UNCHANGED path
          /\ l' = l + 1 /\ UNCHANGED <<lvars, lex, info>>

\* "The cumulative cost reported for each morpheme in mode C equals that sum"
TrResult == /\ l <= NRec /\ Ev.ev = "result"
            \* "For every input and every dictionary, the segmentation chosen ... is a minimum-cost path": an analysis abandoned by a
            \* panic (an arithmetic overflow in a total, an index outside a row) chooses none; the recorded inputs are short and every
            \* recorded configuration has a fallback OOV provider, so an error value is not expected either way and is left to C03
            /\ Ev.res # "panic"
            /\ (Ev.res = "ok" /\ info.mode = 2 /\ info.plain /\ Len(path) > 0) =>
                  /\ Len(Ev.morphemes) = Len(path)
                  /\ \A k \in 1..Len(path) : Ev.morphemes[k].total = CumCost(path, k)
                  /\ Ev.internal_cost = CumCost(path, Len(path)) - CumCost(path, 1)
            /\ l' = l + 1 /\ UNCHANGED <<lvars, lex, path, info>>

\* events of other subsystems are skipped by the projection in the check script
TNext == TrWorld \/ TrRun \/ TrReset \/ TrPos \/ TrIns \/ TrEos \/ TrPath \/ TrResult
TSpec == TInit /\ [][TNext]_tvars

\* brute-force optimality on every state of every small recorded lattice
NodeCount == IF size = 0 THEN 0 ELSE LET RECURSIVE Sum(_) Sum(p) == IF p > size THEN 0 ELSE Len(ends[p]) + Sum(p + 1) IN Sum(1)
SmallViterbi == (size > 0 /\ NodeCount <= 14) => (ViterbiInv /\ EosOptimal)
=============================================================================
