-------------------------------- MODULE DictRecord --------------------------------
(***************************************************************************)
(* Word records: what a lexicon row DECLARES (Expected), what the compiler   *)
(* stores (Stored: forms equal to the headword are elided, references by id), *)
(* how the reader parses a stored record under a field subset (Parse: light  *)
(* fields are always taken when reached, heavy fields only when requested,   *)
(* early exit when the request is exhausted), the dictionary-form consult,    *)
(* and the public accessors (empty form => headword).                        *)
(*                                                                         *)
(* C05: accessor values after a full load = declared data, for every row.    *)
(* C11: for every subset s (closed as the tokenizer closes it) and every     *)
(*      requested field f in s: accessor(f) under s = accessor(f) under ALL. *)
(***************************************************************************)
EXTENDS Naturals, Integers, Sequences, FiniteSets, TLC

CONSTANTS HasSyn        \* whether the dictionary was written with the synonym section

VARIABLES rows, compiled, store
rvars == <<rows, compiled, store>>

Fields == {"SURFACE", "HWL", "POS", "NORM", "DICFORM", "READING", "SPLIT_A", "SPLIT_B", "WSTRUCT", "SYN"}
Order  == <<"SURFACE", "HWL", "POS", "NORM", "DICFORM", "READING", "SPLIT_A", "SPLIT_B", "WSTRUCT", "SYN">>
Light  == {"HWL", "POS", "DICFORM"}

\* a row: [key, head, pos, norm, reading, dic (-1 = "*", else row index 0-based), a, b, ws, syn]
\* strings are abstract values; "" is never a declared form.

Expected(rs, w) ==
  LET r == rs[w + 1] IN
  [surface |-> r.head, hwl |-> r.key.bytes, pos |-> r.pos, norm |-> r.norm,
   dform |-> IF r.dic = -1 \/ r.dic = w THEN r.head ELSE rs[r.dic + 1].head,
   reading |-> r.reading, a |-> r.a, b |-> r.b, ws |-> r.ws,
   syn |-> IF HasSyn THEN r.syn ELSE <<>>]

Empty == [s |-> <<"", 0>>, bytes |-> 0]

\* write_word_info
StoredOf(r) ==
  [SURFACE |-> r.head, HWL |-> r.key.bytes, POS |-> r.pos,
   NORM |-> IF r.norm = r.head THEN Empty ELSE r.norm,
   DICFORM |-> r.dic,
   READING |-> IF r.reading = r.head THEN Empty ELSE r.reading,
   SPLIT_A |-> r.a, SPLIT_B |-> r.b, WSTRUCT |-> r.ws, SYN |-> r.syn]

Default == [SURFACE |-> Empty, HWL |-> 0, POS |-> 0, NORM |-> Empty, DICFORM |-> 0, READING |-> Empty,
            SPLIT_A |-> <<>>, SPLIT_B |-> <<>>, WSTRUCT |-> <<>>, SYN |-> <<>>]

\* WordInfoParser::parse
RECURSIVE ParseFrom(_, _, _, _)
ParseFrom(st, i, flds, info) ==
  IF i > Len(Order) \/ flds = {} THEN info
  ELSE LET f == Order[i] IN
       IF f \in Light THEN ParseFrom(st, i + 1, flds \ {f}, [info EXCEPT ![f] = st[f]])
       ELSE IF f \in flds THEN ParseFrom(st, i + 1, flds \ {f}, [info EXCEPT ![f] = st[f]])
       ELSE ParseFrom(st, i + 1, flds, info)

\* WordInfos::get_word_info: drop SYN when the section is absent; consult the dictionary form
Query(w, subset) ==
  LET flds == IF HasSyn THEN subset ELSE subset \ {"SYN"}
      info == ParseFrom(store[w + 1], 1, flds, Default)
      d    == info.DICFORM
  IN [info |-> info,
      dformstr |-> IF d >= 0 /\ d # w THEN ParseFrom(store[d + 1], 1, {"SURFACE"}, Default).SURFACE ELSE Empty]

\* public accessors
Acc(q) ==
  LET i == q.info IN
  [surface |-> i.SURFACE, hwl |-> i.HWL, pos |-> i.POS,
   norm |-> IF i.NORM = Empty THEN i.SURFACE ELSE i.NORM,
   dform |-> IF q.dformstr = Empty THEN i.SURFACE ELSE q.dformstr,
   reading |-> IF i.READING = Empty THEN i.SURFACE ELSE i.READING,
   a |-> i.SPLIT_A, b |-> i.SPLIT_B, ws |-> i.WSTRUCT, syn |-> i.SYN]

AccessorOf == [SURFACE |-> "surface", HWL |-> "hwl", POS |-> "pos", NORM |-> "norm", DICFORM |-> "dform",
               READING |-> "reading", SPLIT_A |-> "a", SPLIT_B |-> "b", WSTRUCT |-> "ws", SYN |-> "syn"]

\* InfoSubset::normalize: forms need the surface, splits need the key length
Close(s) == s \cup (IF s \cap {"READING", "NORM", "DICFORM"} # {} THEN {"SURFACE"} ELSE {})
              \cup (IF s \cap {"SPLIT_A", "SPLIT_B"} # {} THEN {"HWL"} ELSE {})

-----------------------------------------------------------------------------
Init == rows = <<>> /\ compiled = FALSE /\ store = <<>>

AddRow(r) == /\ ~compiled /\ rows' = Append(rows, r) /\ UNCHANGED <<compiled, store>>

Compile == /\ ~compiled /\ Len(rows) > 0
           /\ \A i \in 1..Len(rows) : rows[i].dic < Len(rows)
           /\ compiled' = TRUE
           /\ store' = [i \in 1..Len(rows) |-> StoredOf(rows[i])]
           /\ UNCHANGED rows

All == Fields

RoundTrip == compiled => \A w \in 0..(Len(rows) - 1) : Acc(Query(w, All)) = Expected(rows, w)

SubsetStable == compiled =>
  \A w \in 0..(Len(rows) - 1) :
     LET full == Acc(Query(w, All)) IN
     \A s \in SUBSET Fields :
        LET part == Acc(Query(w, Close(s))) IN
        \A f \in s : part[AccessorOf[f]] = full[AccessorOf[f]]
=============================================================================
