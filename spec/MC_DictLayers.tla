------------------------------ MODULE MC_DictLayers ------------------------------
(* Bounded instance: plugin registrations over {new POS, a system POS, a POS that a *)
(* user dictionary also declares}, up to MaxDicts user dictionaries of 1..2 words    *)
(* whose POS come from {system POS, U1, U2} (overlapping between dictionaries), with *)
(* references to own and system words.                                               *)
EXTENDS DictLayers, Json

CONSTANTS MaxDicts, MaxRegs

Sys == <<"N", "V">>
PluginPos == {"X", "N", "U1"}
WordPos == {"N", "U1", "U2"}
RefChoices == { <<>>, <<[own |-> TRUE, w |-> 0], [own |-> FALSE, w |-> 1]>> }
WordLists == { <<[pos |-> p, refs |-> r]>> : p \in WordPos, r \in RefChoices }
             \cup { <<[pos |-> p, refs |-> <<>>], [pos |-> q, refs |-> r]>> : p \in WordPos, q \in WordPos, r \in RefChoices }

VARIABLES regs
mvars == <<lvars, regs>>

MInit == Init /\ regs = <<>>
MReg == Len(regs) < MaxRegs /\ \E p \in PluginPos : RegisterPos(p) /\ regs' = Append(regs, p)
MDone == PluginsDone /\ UNCHANGED regs
MMerge == Len(stack) < MaxDicts /\ \E ws \in WordLists : MergeUser(ws) /\ UNCHANGED regs
MFreeze == Freeze /\ UNCHANGED regs
MNext == MReg \/ MDone \/ MMerge \/ MFreeze
MSpec == MInit /\ [][MNext]_mvars

Emit == phase = "frozen" =>
  PrintT(<<"REPLAY", ToJson([regs |-> regs,
      dicts |-> [d \in 1..Len(stack) |-> [words |-> stack[d].words,
                    expect |-> [w \in 1..Len(stack[d].words) |->
                        [dic |-> d, pos |-> stack[d].words[w].pos,
                         refs |-> [k \in 1..Len(stack[d].words[w].refs) |-> ReportedRef(d, stack[d].words[w].refs[k])]]]]]])>>)
=============================================================================
