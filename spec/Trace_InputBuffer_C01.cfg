SPECIFICATION TSpec
CONSTANTS
  MaxLen = 49149
  ReallyMaxLen = 65535
  Check = "C01"
INVARIANTS TypeOK MapOK
POSTCONDITION Report
CHECK_DEADLOCK FALSE
