---------------------------- MODULE Trace_DictRecord ----------------------------
(* Trace validation for C05: really compiled + loaded dictionaries read back       *)
(* through the public reader are compared with what the source rows declare.       *)
(*  rows{rows}                    declared rows (strings as code point sequences,  *)
(*                                references as [k="id",w] or [k="inline",s,p,r])  *)
(*  winfo{w, view}                accessor view of word w after a full load        *)
(*  conn{nl,nr,cells,read}        matrix text cells and the costs read back        *)
(*  bytes{equal, unaligned_equal} determinism / alignment observations             *)
EXTENDS Naturals, Integers, Sequences, FiniteSets, TLC, TraceIO, Utf8

VARIABLES l, rows
tvars == <<l, rows>>
Ev == Rec[l]

TInit == l = 1 /\ rows = <<>>

\* inline reference: first row with the same key, part of speech and reading
ResolveRef(rs, ref) ==
  IF ref.k = "id" THEN ref.w
  ELSE LET c == { i \in 1..Len(rs) : rs[i].key = ref.s /\ rs[i].pos = ref.p /\ rs[i].reading = ref.r }
       IN IF c = {} THEN -1 ELSE (CHOOSE i \in c : \A j \in c : i <= j) - 1

Refs(rs, seq) == [i \in 1..Len(seq) |-> ResolveRef(rs, seq[i])]

ExpectedView(rs, w) ==
  LET r == rs[w + 1] IN
  [surface |-> r.head, hwl |-> ByteLen(r.key), pos |-> r.pos, norm |-> r.norm,
   dform |-> IF r.dic = -1 \/ r.dic = w THEN r.head ELSE rs[r.dic + 1].head,
   reading |-> r.reading, a |-> Refs(rs, r.a), b |-> Refs(rs, r.b), ws |-> Refs(rs, r.ws), syn |-> r.syn,
   lid |-> r.lid, rid |-> r.rid, cost |-> r.cost]

TrRows == /\ l <= NRec /\ Ev.ev = "rows"
          /\ rows' = Ev.rows
          /\ l' = l + 1

TrInfo == /\ l <= NRec /\ Ev.ev = "winfo"
          /\ Ev.w < Len(rows)
          /\ Ev.view = ExpectedView(rows, Ev.w)            \* C05
          /\ l' = l + 1 /\ UNCHANGED rows

\* the cost of every id pair equals the matrix text (later lines override earlier ones, unlisted pairs are 0)
CellValue(cells, lft, rgt) ==
  LET idx == { i \in 1..Len(cells) : cells[i][1] = lft /\ cells[i][2] = rgt }
  IN IF idx = {} THEN 0 ELSE cells[CHOOSE i \in idx : \A j \in idx : j <= i][3]

TrConn == /\ l <= NRec /\ Ev.ev = "conn"
          /\ Len(Ev.read) = Ev.nl
          /\ \A lft \in 0..(Ev.nl - 1) : /\ Len(Ev.read[lft + 1]) = Ev.nr
                                         /\ \A rgt \in 0..(Ev.nr - 1) : Ev.read[lft + 1][rgt + 1] = CellValue(Ev.cells, lft, rgt)
          /\ l' = l + 1 /\ UNCHANGED rows

TrBytes == /\ l <= NRec /\ Ev.ev = "bytes"
           /\ Ev.equal = TRUE /\ Ev.unaligned_equal = TRUE
           /\ l' = l + 1 /\ UNCHANGED rows

TNext == TrRows \/ TrInfo \/ TrConn \/ TrBytes
TSpec == TInit /\ [][TNext]_tvars
=============================================================================
