------------------------------- MODULE MC_Lattice -------------------------------
(* Bounded instance of Lattice: every insertion sequence the driver loop can     *)
(* produce for texts of <= MaxN characters with <= MaxNodes candidates whose ids *)
(* and costs come from small sets, under the matrix MConn.                       *)
EXTENDS Lattice, Json

CONSTANTS MaxN, MaxNodes, Ids, Costs, WhichConn

VARIABLES log          \* inserted nodes in insertion order (for replay)
mvars == <<lvars, log>>

\* asymmetric matrices, so that a transposed lookup changes totals; one with the i16
\* extremes and the "inhibited" value 32767
Conn1 == [r \in 0..1 |-> [l \in 0..1 |-> IF r = 0 /\ l = 0 THEN 0 ELSE IF r = 0 THEN 3 ELSE IF l = 0 THEN -2 ELSE 1]]
Conn2 == [r \in 0..1 |-> [l \in 0..1 |-> IF r = 0 /\ l = 0 THEN 5 ELSE IF r = 0 THEN 32767 ELSE IF l = 0 THEN -32768 ELSE 0]]
Conn3 == [r \in 0..2 |-> [l \in 0..1 |-> IF r = 2 THEN -7 + l ELSE IF r = l THEN 0 ELSE 10 * (r + 1) - l]]   \* 3x2
MConn == CASE WhichConn = 1 -> Conn1 [] WhichConn = 2 -> Conn2 [] OTHER -> Conn3

CostSetQ == {-1, 2}
CostSetT == {-32768, -1, 0, 2, 32767}

MInit == /\ conn = MConn /\ size = 0 /\ ends = <<>> /\ eos = NoEos /\ pos = 0 /\ log = <<>>

MReset == /\ size = 0 /\ \E n \in 1..MaxN : ResetL(n)
          /\ log' = <<>>

MInsert == /\ Len(log) < MaxNodes
           /\ \E e \in 1..MaxN, lid \in Ids, rid \in Ids \cup (DOMAIN MConn), cost \in Costs :
                /\ Insert(e, lid, rid, cost, <<0, 0>>)
                /\ log' = Append(log, ends'[e + 1][Len(ends'[e + 1])])

MAdvance == Advance /\ UNCHANGED log
MEos == ConnectEos /\ UNCHANGED log

MNext == MReset \/ MInsert \/ MAdvance \/ MEos
MSpec == MInit /\ [][MNext]_mvars

ConnRows == LET nl == Cardinality(DOMAIN MConn) nr == Cardinality(DOMAIN MConn[0])
            IN [i \in 1..nl |-> [j \in 1..nr |-> MConn[i - 1][j - 1]]]

Emit == eos.set =>
   PrintT(<<"REPLAY", ToJson([conn |-> ConnRows, n |-> size - 1, nodes |-> log, eos |-> eos.total])>>)
=============================================================================
