------------------------------ MODULE MC_PathRewrite ------------------------------
(* C14 on the model: the two index loops (join_numeric rewrite_gen with the real     *)
(* transcribed numeral parser, join_katakana_oov rewrite_gen) applied to every path   *)
(* of up to MaxLen one-character tokens over token kinds chosen for the loops' case   *)
(* analysis; the result must be a merge of the input and the loops must terminate.    *)
EXTENDS PathRewrite, Json

CONSTANTS MaxLen, MinLength, Normalize

NUM == "NUM"  KPOS == "KPOS"
\* token kinds: [c code point, cats, pos, oov]
Kinds == <<
  [c |-> 49,    cats |-> {"NUMERIC"}, pos |-> NUM, oov |-> FALSE],                  \* 1
  [c |-> 48,    cats |-> {"NUMERIC"}, pos |-> NUM, oov |-> FALSE],                  \* 0
  [c |-> 21313, cats |-> {"KANJI", "KANJINUMERIC"}, pos |-> NUM, oov |-> FALSE],    \* 十
  [c |-> 19975, cats |-> {"KANJI", "KANJINUMERIC"}, pos |-> NUM, oov |-> FALSE],    \* 万
  [c |-> 44,    cats |-> {"SYMBOL"}, pos |-> "SYM", oov |-> FALSE],                 \* ,
  [c |-> 46,    cats |-> {"SYMBOL"}, pos |-> "SYM", oov |-> FALSE],                 \* .
  [c |-> 12450, cats |-> {"KATAKANA"}, pos |-> "OOV", oov |-> TRUE],                \* ア  out of vocabulary
  [c |-> 12459, cats |-> {"KATAKANA"}, pos |-> "N", oov |-> FALSE],                 \* カ  dictionary word (short)
  [c |-> 12449, cats |-> {"KATAKANA", "NOOOVBOW"}, pos |-> "OOV", oov |-> TRUE],    \* ァ  may not start a word
  [c |-> 12399, cats |-> {"HIRAGANA"}, pos |-> "P", oov |-> FALSE],                 \* は
  [c |-> 20108, cats |-> {"KANJI", "KANJINUMERIC"}, pos |-> "N", oov |-> FALSE] >>  \* 二 tagged as a noun, not a numeral

NodeAt(k, i) == [b |-> i - 1, e |-> i, bb |-> 3 * (i - 1), eb |-> 3 * i, surface |-> <<Kinds[k].c>>, norm |-> <<Kinds[k].c>>,
                 pos |-> Kinds[k].pos, cats |-> Kinds[k].cats, first |-> Kinds[k].cats, oov |-> Kinds[k].oov, id |-> <<k, i>>]

\* ---- concat_nodes / concat_oov_nodes (path indices 1-based, range i..j inclusive)
Splice(path, i, j, node) == SubSeq(path, 1, i - 1) \o <<node>> \o SubSeq(path, j + 1, Len(path))
RECURSIVE Inter(_, _, _)
Inter(path, i, j) == IF i = j THEN path[i].cats ELSE path[j].cats \cap Inter(path, i, j - 1)
ConcatNodes(path, i, j, normOpt) ==
  Splice(path, i, j, [b |-> path[i].b, e |-> path[j].e, bb |-> path[i].bb, eb |-> path[j].eb,
                      surface |-> ConcatField(path, i, j, "surface"),
                      norm |-> IF normOpt.some THEN normOpt.v ELSE ConcatField(path, i, j, "norm"),
                      pos |-> path[i].pos, cats |-> Inter(path, i, j), first |-> path[i].first, oov |-> FALSE, id |-> <<0, 0>>])
ConcatOov(path, i, j, pos) ==
  Splice(path, i, j, [b |-> path[i].b, e |-> path[j].e, bb |-> path[i].bb, eb |-> path[j].eb,
                      surface |-> ConcatField(path, i, j, "surface"), norm |-> ConcatField(path, i, j, "surface"),
                      pos |-> pos, cats |-> Inter(path, i, j), first |-> path[i].first, oov |-> TRUE, id |-> <<0, 0>>])

\* ---- JoinNumericPlugin::concat (0-based begin, exclusive end as in the code)
NumConcat(path, begin, end, parser) ==
  IF path[begin + 1].pos # NUM THEN path
  ELSE IF Normalize
       THEN LET nf == P!Normalized(parser) IN
            IF end - begin > 1 \/ nf # path[begin + 1].norm THEN ConcatNodes(path, begin + 1, end, [some |-> TRUE, v |-> nf]) ELSE path
       ELSE IF end - begin > 1 THEN ConcatNodes(path, begin + 1, end, [some |-> FALSE]) ELSE path

IsNumericNode(n) == (n.cats \cap {"NUMERIC", "KANJINUMERIC"}) # {}

\* feed the characters of a normalised form to the parser until one is refused
RECURSIVE Feed(_, _, _)
Feed(p, s, k) == IF k > Len(s) THEN [ok |-> TRUE, p |-> p]
                 ELSE LET a == P!ParserAppend(p, s[k]) IN IF a.ok THEN Feed(a.p, s, k + 1) ELSE a

\* the body of the while loop of rewrite_gen, one iteration; st = [path, i, begin, cad, pad, parser]
NumStep(st) ==
  LET i == st.i + 1
      node == st.path[i + 1]
      s == node.norm
  IN IF IsNumericNode(node) \/ (st.cad /\ s = <<44>>) \/ (st.pad /\ s = <<46>>)
     THEN LET fresh == st.begin < 0
              p0 == IF fresh THEN P!NewParser ELSE st.parser
              b0 == IF fresh THEN i ELSE st.begin
              f == Feed(p0, s, 1)
          IN IF f.ok THEN [st EXCEPT !.i = i, !.begin = b0, !.parser = f.p]
             ELSE IF f.p.err = "COMMA" THEN [st EXCEPT !.i = b0 - 1, !.begin = -1, !.parser = f.p, !.cad = FALSE]
             ELSE IF f.p.err = "POINT" THEN [st EXCEPT !.i = b0 - 1, !.begin = -1, !.parser = f.p, !.pad = FALSE]
             ELSE [st EXCEPT !.i = i, !.begin = -1, !.parser = f.p]
     ELSE LET c == IF Len(s) = 1 /\ s[1] < 128 THEN s[1] ELSE 0
              afterJoin ==
                IF st.begin >= 0
                THEN LET d == P!ParserDone(st.parser) IN
                     IF d.ok THEN [path |-> NumConcat(st.path, st.begin, i, d.p), i |-> st.begin + 1, parser |-> d.p]
                     ELSE LET ss == st.path[i].norm IN       \* path[i - 1] in 0-based terms
                          IF (d.p.err = "COMMA" /\ ss = <<44>>) \/ (d.p.err = "POINT" /\ ss = <<46>>)
                          THEN [path |-> NumConcat(st.path, st.begin, i - 1, d.p), i |-> st.begin + 2, parser |-> d.p]
                          ELSE [path |-> st.path, i |-> i, parser |-> d.p]
                ELSE [path |-> st.path, i |-> i, parser |-> st.parser]
          IN [path |-> afterJoin.path, i |-> afterJoin.i, begin |-> -1, parser |-> afterJoin.parser,
              cad |-> IF ~st.cad /\ c # 44 THEN TRUE ELSE st.cad,
              pad |-> IF ~st.pad /\ c # 46 THEN TRUE ELSE st.pad]

RECURSIVE NumLoop(_, _)
NumLoop(st, fuel) ==
  IF fuel = 0 THEN [path |-> st.path, diverged |-> TRUE]
  ELSE IF st.i < Len(st.path) - 1 THEN NumLoop(NumStep(st), fuel - 1)
  ELSE \* process the last part
       IF st.begin >= 0
       THEN LET n == Len(st.path) d == P!ParserDone(st.parser) IN
            IF d.ok THEN [path |-> NumConcat(st.path, st.begin, n, d.p), diverged |-> FALSE]
            ELSE LET ss == st.path[n].norm IN
                 IF (d.p.err = "COMMA" /\ ss = <<44>>) \/ (d.p.err = "POINT" /\ ss = <<46>>)
                 THEN [path |-> NumConcat(st.path, st.begin, n - 1, d.p), diverged |-> FALSE]
                 ELSE [path |-> st.path, diverged |-> FALSE]
       ELSE [path |-> st.path, diverged |-> FALSE]
JoinNumeric(path) == NumLoop([path |-> path, i |-> -1, begin |-> -1, cad |-> TRUE, pad |-> TRUE, parser |-> P!NewParser], 200)

\* ---- JoinKatakanaOovPlugin::rewrite_gen
IsKata(n) == "KATAKANA" \in n.cats
CanBowNode(n) == "NOOOVBOW" \notin n.first
Shorter(n) == (n.e - n.b) < MinLength
RECURSIVE BackTo(_, _)
BackTo(path, b) == IF b < 0 THEN 0 ELSE IF ~IsKata(path[b + 1]) THEN b + 1 ELSE BackTo(path, b - 1)
RECURSIVE FwdTo(_, _)
FwdTo(path, e) == IF e >= Len(path) THEN e ELSE IF ~IsKata(path[e + 1]) THEN e ELSE FwdTo(path, e + 1)
RECURSIVE SkipNoBow(_, _, _)
SkipNoBow(path, b, e) == IF b # e /\ ~CanBowNode(path[b + 1]) THEN SkipNoBow(path, b + 1, e) ELSE b
RECURSIVE KataLoop(_, _, _)
KataLoop(path, i, fuel) ==
  IF fuel = 0 THEN [path |-> path, diverged |-> TRUE]
  ELSE IF i >= Len(path) THEN [path |-> path, diverged |-> FALSE]
  ELSE LET node == path[i + 1] IN
       IF ~(node.oov \/ Shorter(node)) \/ ~IsKata(node) THEN KataLoop(path, i + 1, fuel - 1)
       ELSE LET begin == SkipNoBow(path, BackTo(path, i - 1), FwdTo(path, i + 1))
                end == FwdTo(path, i + 1)
            IN IF end - begin > 1 THEN KataLoop(ConcatOov(path, begin + 1, end, KPOS), begin + 2, fuel - 1)
               ELSE KataLoop(path, i + 1, fuel - 1)
JoinKatakana(path) == KataLoop(path, 0, 200)

-----------------------------------------------------------------------------
VARIABLES input, afterNum, afterKat, div
MInit == input = <<>> /\ afterNum = <<>> /\ afterKat = <<>> /\ div = FALSE
MGrow == /\ Len(input) < MaxLen
         /\ \E k \in 1..Len(Kinds) :
              LET p == Append(input, NodeAt(k, Len(input) + 1))
                  a == JoinNumeric(p)
                  b == JoinKatakana(a.path)
              IN input' = p /\ afterNum' = a.path /\ afterKat' = b.path /\ div' = (a.diverged \/ b.diverged)
MSpec == MInit /\ [][MGrow]_<<input, afterNum, afterKat, div>>

Strip(p) == [i \in 1..Len(p) |-> [b |-> p[i].b, e |-> p[i].e, bb |-> p[i].bb, eb |-> p[i].eb, surface |-> p[i].surface, norm |-> p[i].norm, pos |-> p[i].pos, id |-> p[i].id]]
NumRule == [kind |-> "numeric", pos |-> NUM, normalize |-> Normalize]
KatRule == [kind |-> "katakana", pos |-> KPOS, normalize |-> FALSE]
View(p) == [i \in 1..Len(p) |-> [b |-> p[i].b, e |-> p[i].e, norm |-> p[i].norm, pos |-> p[i].pos]]
Emit == Len(input) > 0 => PrintT(<<"REPLAY", ToJson([kinds |-> [i \in 1..Len(input) |-> input[i].id[1]], minlen |-> MinLength, normalize |-> Normalize,
                                                     num |-> View(afterNum), kat |-> View(afterKat)])>>)
Terminates == ~div
NumericIsMerge == IsMerge(Strip(input), Strip(afterNum), NumRule)
KatakanaIsMerge == IsMerge(Strip(afterNum), Strip(afterKat), KatRule)
=============================================================================
