----------------------------- MODULE Trace_Normalize -----------------------------
(* Trace validation for C07 (`vh c07-record`).                                     *)
(*  table{exempt, table[[key,value]]}      a rewrite definition was loaded         *)
(*  uni{tab[[cp, lower, nfkc_of_lower, quick]]}  trusted-library values for the   *)
(*        characters of the next text;  norm{text, out}  DefaultInputText run      *)
(*  prolonged{marks, repl, text, out}      yomigana{n, kinds, text, out}           *)
EXTENDS Normalize, TraceIO

VARIABLES l
Ev == Rec[l]

tvars == <<nvars, l>>
TInit == l = 1 /\ keys = {} /\ vals = <<>> /\ exempt = {} /\ uni = <<>>

TrTable == /\ l <= NRec /\ Ev.ev = "table"
           /\ vals' = Ev.table
           /\ keys' = { Ev.table[i][1] : i \in 1..Len(Ev.table) }
           /\ exempt' = SeqToSet(Ev.exempt)
           /\ uni' = <<>> /\ l' = l + 1

\* the library values for the characters of the next text are installed
TrUni == /\ l <= NRec /\ Ev.ev = "uni"
         /\ uni' = Ev.tab
         /\ l' = l + 1 /\ UNCHANGED <<keys, vals, exempt>>

TrNorm == /\ l <= NRec /\ Ev.ev = "norm"
          /\ ~HasField(Ev, "err")
          /\ Ev.out = Norm(Ev.text)                                  \* C07
          /\ Slow(Ev.text) = Norm(Ev.text)                           \* both code paths, whichever ran
          /\ (~NeedSlow(Ev.text) => Fast(Ev.text) = Norm(Ev.text))
          /\ l' = l + 1 /\ UNCHANGED nvars

TrProlonged == /\ l <= NRec /\ Ev.ev = "prolonged"
               /\ ~HasField(Ev, "err")
               /\ Ev.out = Prolonged(Ev.text, SeqToSet(Ev.marks), Ev.repl)
               /\ l' = l + 1 /\ UNCHANGED nvars

TrYomigana == /\ l <= NRec /\ Ev.ev = "yomigana"
              /\ ~HasField(Ev, "err")
              /\ Ev.out = Yomigana(Ev.text, Ev.kinds, Ev.n)
              /\ l' = l + 1 /\ UNCHANGED nvars

TNext == TrTable \/ TrUni \/ TrNorm \/ TrProlonged \/ TrYomigana
TSpec == TInit /\ [][TNext]_tvars
=============================================================================
