SPECIFICATION TSpec
INVARIANTS AssignedInRange
POSTCONDITION Report
CHECK_DEADLOCK FALSE
