------------------------------- MODULE Trace_Numeral -------------------------------
(* Trace validation for C15 (`vh c15-record`).                                        *)
(*  parse{s, steps[{c, ok, p}], accepted, err, norm}  the real numeral parser on s,    *)
(*        with its state after every character (hook H5)                               *)
(*  join{s, left, right, tokens[{s, norm, num}]}      analysis of left+s+right with a  *)
(*        numeral dictionary and the join_numeric plugin (normalisation on)            *)
EXTENDS Numeral, TraceIO
P == INSTANCE NumericParser

CONSTANT Strict      \* TRUE: also require the transcribed parser to step exactly like the real one (informative pass)
VARIABLES l
Ev == Rec[l]
TInit == l = 1

Filter(t, keep) == [k \in 1..Cardinality(keep) |-> t[CHOOSE i \in keep : Cardinality({ j \in keep : j < i }) = k - 1]]
NoCommasOf(t) == Filter(t, { i \in 1..Len(t) : t[i] # Comma })
NoDangling(t) == Filter(t, { i \in 1..Len(t) : t[i] = Point => (i > 1 /\ i < Len(t) /\ IsDigit(t[i-1]) /\ IsDigit(t[i+1])) })
Lenient(t) == NoDangling(NoCommasOf(t))

\* the transcribed parser steps through the same states as the real one (binds the model-checked parser to the code)
RECURSIVE StepsAgree(_, _, _)
StepsAgree(steps, i, p) ==
  IF i > Len(steps) THEN TRUE
  ELSE LET a == P!ParserAppend(p, steps[i].c) IN
       /\ a.ok = steps[i].ok
       /\ a.p = steps[i].p
       /\ StepsAgree(steps, i + 1, a.p)

AllNumeral(t) == Len(t) > 0 /\ \A i \in 1..Len(t) : IsNumeralChar(t[i])
\* the only value a joined numeral may take: the additive reading with stray separators ignored
RightValue(t, norm) == LET u == Lenient(t) IN ~AddValue(u).bad /\ norm = AddDecimal(u)

TrParse == /\ l <= NRec /\ Ev.ev = "parse"
           /\ ~HasField(Ev, "panic")
           /\ Strict => /\ StepsAgree(Ev.steps, 1, P!NewParser)
                        /\ LET r == P!Parse(Ev.s) IN r.accepted = Ev.accepted /\ r.err = Ev.err /\ (Ev.accepted => r.norm = Ev.norm)
           /\ (AllNumeral(Ev.s) /\ WellFormed(Ev.s)) => (Ev.accepted /\ Ev.norm = Decimal(Ev.s))        \* C15, first sentence
           /\ (AllNumeral(Ev.s) /\ Ev.accepted) => RightValue(Ev.s, Ev.norm)                              \* never a wrong value
           /\ l' = l + 1

TrJoin == /\ l <= NRec /\ Ev.ev = "join"
          /\ ~HasField(Ev, "err")
          \* a well-formed numeral between non-numeral neighbours is one token carrying its decimal rendering
          /\ (AllNumeral(Ev.s) /\ WellFormed(Ev.s)) =>
                \E i \in 1..Len(Ev.tokens) : Ev.tokens[i].s = Ev.s /\ Ev.tokens[i].norm = Decimal(Ev.s)
          \* whatever was joined carries the right value
          /\ \A i \in 1..Len(Ev.tokens) :
                (Ev.tokens[i].num /\ AllNumeral(Ev.tokens[i].s) /\ Len(Ev.tokens[i].s) >= 2) => RightValue(Ev.tokens[i].s, Ev.tokens[i].norm)
          /\ l' = l + 1

TNext == TrParse \/ TrJoin
TSpec == TInit /\ [][TNext]_l
=============================================================================
