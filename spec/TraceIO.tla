-------------------------------- MODULE TraceIO --------------------------------
(* Shared plumbing of all trace specifications: the recorded execution is an    *)
(* NDJSON file named by the environment variable TRACE; one JSON object per     *)
(* event.  JSON arrays become 1-based TLA+ sequences, objects become records.   *)
EXTENDS Naturals, Sequences, TLC, Json, IOUtils

Rec == ndJsonDeserialize(IOEnv.TRACE)      \* ("Trace" clashes with TLCExt)
NRec == Len(Rec)

\* POSTCONDITION body: one initial state + one state per consumed event
\* (trace specifications here are deterministic, so diameter - 1 = events matched).
Report == LET d == TLCGet("stats").diameter
          IN PrintT(<<"TRACE_RESULT", d - 1, NRec>>)

SeqToSet(s) == { s[i] : i \in 1..Len(s) }
HasField(r, f) == f \in DOMAIN r
=============================================================================
