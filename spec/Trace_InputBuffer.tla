--------------------------- MODULE Trace_InputBuffer ---------------------------
(* Trace validation of the input buffer inside whole tokenizations (hooks H1 +   *)
(* the morphemes read through the public accessors).  Serves                    *)
(*   C08: MapOK in every state + code-point offsets of every morpheme,          *)
(*   C01: morpheme byte ranges partition the original, surfaces = original text *)
(* selected by the constant Check.                                              *)
(* Events: run{text}  start_build{res}  commit{ops,res,mod,m2o}  rollback       *)
(*         result{res, morphemes[{begin,end,begin_c,end_c,surface}]}            *)
EXTENDS InputBuffer, TraceIO

CONSTANT Check          \* "C08" or "C01"
VARIABLES l, pending    \* next event; text handed to the tokenizer by the driver

tvars == <<ibvars, l, pending>>

TInit == /\ l = 1 /\ pending = <<>>
         /\ st = "clean" /\ orig = <<>> /\ mod = <<>> /\ m2o = <<>> /\ tags = <<>>

Ev == Rec[l]

TrRun == /\ l <= NRec /\ Ev.ev = "run"
         /\ pending' = Ev.text
         /\ st' = "clean" /\ orig' = <<>> /\ mod' = <<>> /\ m2o' = <<>> /\ tags' = <<>>
         /\ l' = l + 1

TrStart == /\ l <= NRec /\ Ev.ev = "start_build"
           /\ StartBuild(pending)
           /\ (Ev.res = "ok") <=> (st' = "rw")
           /\ Ev.len = ByteLen(pending)
           /\ l' = l + 1 /\ UNCHANGED pending

OpsOf(e) == [i \in 1..Len(e.ops) |-> [s |-> e.ops[i].s, e |-> e.ops[i].e, w |-> e.ops[i].w]]

\* one committed edit batch of an input-text plugin.  The edits must be well formed
\* (C01: "plugins emit edits sorted, non-overlapping and on char boundaries"), and the
\* rewritten text and offset map the code produced must be the ones the specification
\* computes from the logged edits.
TrCommit == /\ l <= NRec /\ Ev.ev = "commit"
            /\ Commit(OpsOf(Ev))
            /\ IF Ev.res = "ok"
               THEN /\ st' = "rw"
                    /\ (Len(Ev.ops) > 0) => /\ mod' = Ev.mod
                                            /\ MapAtBoundaries(mod', m2o') = Ev.m2o
                                            /\ Ev.m2o_len = ByteLen(mod') + 1
               ELSE st' = "toolong"
            /\ l' = l + 1 /\ UNCHANGED pending

TrRollback == /\ l <= NRec /\ Ev.ev = "rollback"
              /\ l' = l + 1 /\ UNCHANGED <<ibvars, pending>>

-----------------------------------------------------------------------------
\* C01
Partition(ms) ==
  LET n == Len(ms) IN
  /\ (n = 0) <=> (Len(mod) = 0)
  /\ n > 0 => ms[1].begin = 0 /\ ms[n].end = ByteLen(orig)
  /\ \A i \in 1..(n - 1) : ms[i].end = ms[i+1].begin
  /\ \A i \in 1..n : /\ ms[i].begin <= ms[i].end
                     /\ IsBoundary(orig, ms[i].begin) /\ IsBoundary(orig, ms[i].end)
                     /\ ms[i].surface = SubByBytes(orig, ms[i].begin, ms[i].end)

\* C08 (code-point half)
CharOffsets(ms) ==
  \A i \in 1..Len(ms) : /\ IsBoundary(orig, ms[i].begin) /\ IsBoundary(orig, ms[i].end)
                        /\ ms[i].begin_c = CodePointsBefore(orig, ms[i].begin)
                        /\ ms[i].end_c = CodePointsBefore(orig, ms[i].end)

TrResult == /\ l <= NRec /\ Ev.ev = "result"
            /\ CASE Ev.res = "ok" -> IF Check = "C01" THEN Partition(Ev.morphemes)
                                                     ELSE CharOffsets(Ev.morphemes)
                 [] Ev.res = "panic" -> ~HasField(Ev, "where")   \* a panic while reading morphemes is not acceptable here
                 [] OTHER -> TRUE                                 \* rejected inputs: outside C01/C08 (C03's business)
            /\ l' = l + 1 /\ UNCHANGED <<ibvars, pending>>

TNext == TrRun \/ TrStart \/ TrCommit \/ TrRollback \/ TrResult
TSpec == TInit /\ [][TNext]_tvars
=============================================================================
