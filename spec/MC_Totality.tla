--------------------------------- MODULE MC_Totality ---------------------------------
(* The limit arithmetic at the REAL constants.  A text is made of nA one-byte characters *)
(* that are kept, nS three-byte characters that normalise to one byte (full-width        *)
(* letters) and nE three-byte characters that normalise to 33 bytes (U+FDFA).  TLC        *)
(* enumerates the compositions whose original or rewritten length sits on either limit,   *)
(* one below and one above, with the order of the blocks varied by the replayer.          *)
EXTENDS Totality, Json

OrigLen(a, s, e) == a + 3 * s + 3 * e
FinalLen(a, s, e) == a + s + 33 * e

NE == {0, 1, 700, 1500, 1985, 1986, 1987, 2500}
NS == {0, 1, 5000, 15000, 16383}
Targets == {49148, 49149, 49150}
FinalTargets == {65534, 65535, 65536}

\* compositions hitting a target original length, or a target rewritten length
Cases == { <<a, s, e>> \in (0..70000) \X NS \X NE :
             \/ OrigLen(a, s, e) \in Targets
             \/ (FinalLen(a, s, e) \in FinalTargets /\ OrigLen(a, s, e) <= 49149) }

CaseSeq == LET RECURSIVE G(_, _) G(r, acc) == IF r = {} THEN acc ELSE LET x == CHOOSE x \in r : TRUE IN G(r \ {x}, Append(acc, x)) IN G(Cases, <<>>)

VARIABLES k
MInit == Init /\ k = 0
MCase == /\ phase = "idle" \/ phase = "analysed"
         /\ k < Len(CaseSeq)
         /\ LET c == CaseSeq[k + 1] n == OrigLen(c[1], c[2], c[3]) f == FinalLen(c[1], c[2], c[3]) IN
            \E res \in Expected(n, f, TRUE) : Analyse(n, f, TRUE, res)
         /\ k' = k + 1
MSpec == MInit /\ [][MCase]_<<vars, k>>

Emit == k > 0 => PrintT(<<"REPLAY", ToJson([a |-> CaseSeq[k][1], s |-> CaseSeq[k][2], e |-> CaseSeq[k][3], nbytes |-> nbytes, final |-> final, expect |-> outcome])>>)
=============================================================================
