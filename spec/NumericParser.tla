-------------------------------- MODULE NumericParser --------------------------------
(***************************************************************************)
(* Transcription of the numeral parser of the join_numeric plugin            *)
(* (numeric_parser/mod.rs, string_number.rs): a state machine over three      *)
(* string-encoded accumulators.  Characters are code points.                  *)
(*                                                                         *)
(* A StringNumber is [sig, scale, point, allzero]: decimal digits, a power of  *)
(* ten still to be applied, the position of the decimal point in sig (-1 =    *)
(* none), and whether only zeros were appended.                                *)
(***************************************************************************)
EXTENDS Integers, Sequences, TLC

Comma == 44
Point == 46
KanjiDigits == <<12295, 19968, 20108, 19977, 22235, 20116, 20845, 19971, 20843, 20061>>   \* 〇一二三四五六七八九
\* value of a character: 0..9 digit, negative = unit exponent, 99 = not a numeral character
NumOf(c) ==
  IF 48 <= c /\ c <= 57 THEN c - 48
  ELSE IF \E i \in 1..10 : KanjiDigits[i] = c THEN (CHOOSE i \in 1..10 : KanjiDigits[i] = c) - 1
  ELSE CASE c = 21313 -> -1 [] c = 30334 -> -2 [] c = 21315 -> -3 [] c = 19975 -> -4 [] c = 20740 -> -8 [] c = 20806 -> -12 [] OTHER -> 99
IsSmallUnit(n) == -3 <= n /\ n < 0
IsLargeUnit(n) == n < -3

Zeros(n) == [i \in 1..n |-> 0]
NewNum == [sig |-> <<>>, scale |-> 0, point |-> -1, allzero |-> TRUE]
IsZero(x) == Len(x.sig) = 0

NormalizeScale(x) ==
  IF x.point >= 0
  THEN LET ns == Len(x.sig) - x.point IN
       IF ns > x.scale THEN [x EXCEPT !.point = x.point + x.scale, !.scale = 0]
       ELSE [x EXCEPT !.scale = x.scale - ns, !.point = -1]
  ELSE x

IntLength(x) == LET y == NormalizeScale(x) IN IF y.point >= 0 THEN y.point ELSE Len(y.sig) + y.scale

\* self.add(number): [ok, self, number]  (number.int_length() normalises number in place)
Add(self, number) ==
  IF IsZero(number) THEN [ok |-> TRUE, self |-> self, number |-> number]
  ELSE IF IsZero(self)
       THEN [ok |-> TRUE, self |-> [self EXCEPT !.sig = self.sig \o number.sig, !.scale = number.scale, !.point = number.point], number |-> number]
       ELSE LET s1 == NormalizeScale(self)
                n1 == NormalizeScale(number)
                len == IntLength(number)
            IN IF s1.scale >= len
               THEN LET filled == s1.sig \o Zeros(s1.scale - len)
                    IN [ok |-> TRUE,
                        self |-> [s1 EXCEPT !.sig = filled \o n1.sig, !.scale = n1.scale,
                                            !.point = IF n1.point >= 0 THEN Len(filled) + n1.point ELSE s1.point],
                        number |-> n1]
               ELSE [ok |-> FALSE, self |-> s1, number |-> n1]

ShiftScale(x, i) == LET y == IF IsZero(x) THEN [x EXCEPT !.sig = <<1>>] ELSE x IN [y EXCEPT !.scale = y.scale + i]
AppendDigit(x, d) == [x EXCEPT !.sig = Append(x.sig, d), !.allzero = x.allzero /\ d = 0]
SetPoint(x) == IF x.scale = 0 /\ x.point < 0 THEN [ok |-> TRUE, x |-> [x EXCEPT !.point = Len(x.sig)]] ELSE [ok |-> FALSE, x |-> x]

\* rendering: digits as code points
DigitsToText(ds) == [i \in 1..Len(ds) |-> 48 + ds[i]]
RECURSIVE StripZeros(_)
StripZeros(t) == IF Len(t) > 0 /\ t[Len(t)] = 48 THEN StripZeros(SubSeq(t, 1, Len(t) - 1)) ELSE t
ToText(x) ==
  IF IsZero(x) THEN <<48>>
  ELSE LET y == NormalizeScale(x) IN
       IF y.scale > 0 THEN DigitsToText(y.sig \o Zeros(y.scale))
       ELSE IF y.point >= 0
            THEN LET whole == DigitsToText(SubSeq(y.sig, 1, y.point))
                     frac  == DigitsToText(SubSeq(y.sig, y.point + 1, Len(y.sig)))
                     s0 == (IF y.point = 0 THEN <<48>> ELSE whole) \o <<Point>> \o frac
                     s1 == StripZeros(s0)
                 IN IF s1[Len(s1)] = Point THEN SubSeq(s1, 1, Len(s1) - 1) ELSE s1
            ELSE DigitsToText(y.sig)

-----------------------------------------------------------------------------
NewParser == [dl |-> 0, first |-> TRUE, comma |-> FALSE, hang |-> FALSE, err |-> "NONE",
              total |-> NewNum, sub |-> NewNum, tmp |-> NewNum]

CheckComma(p) ==
  IF p.first THEN FALSE
  ELSE IF ~p.comma THEN p.dl <= 3 /\ ~IsZero(p.tmp) /\ ~p.tmp.allzero
  ELSE p.dl = 3

Fail(p, e) == [ok |-> FALSE, p |-> [p EXCEPT !.err = e]]
FailKeep(p) == [ok |-> FALSE, p |-> p]
Ok(p) == [ok |-> TRUE, p |-> p]

\* NumericParser::append
ParserAppend(p0, c) ==
  IF c = Point
  THEN LET p == [p0 EXCEPT !.hang = TRUE] IN
       IF p.first THEN Fail(p, "POINT")
       ELSE IF p.comma /\ ~CheckComma(p) THEN Fail(p, "COMMA")
       ELSE LET sp == SetPoint(p.tmp) IN
            IF ~sp.ok THEN Fail(p, "POINT") ELSE Ok([p EXCEPT !.tmp = sp.x, !.comma = FALSE])
  ELSE IF c = Comma
  THEN IF ~CheckComma(p0) THEN Fail(p0, "COMMA") ELSE Ok([p0 EXCEPT !.comma = TRUE, !.dl = 0])
  ELSE LET n == NumOf(c) IN
       IF n = 99 THEN FailKeep(p0)
       ELSE IF IsSmallUnit(n)
       THEN LET t1 == ShiftScale(p0.tmp, 0 - n)
                a == Add(p0.sub, t1)
            IN IF ~a.ok THEN FailKeep([p0 EXCEPT !.tmp = a.number, !.sub = a.self])
               ELSE Ok([p0 EXCEPT !.sub = a.self, !.tmp = NewNum, !.first = TRUE, !.dl = 0, !.comma = FALSE])
       ELSE IF IsLargeUnit(n)
       THEN LET a == Add(p0.sub, p0.tmp) IN
            IF ~a.ok \/ IsZero(a.self) THEN FailKeep([p0 EXCEPT !.sub = a.self, !.tmp = a.number])
            ELSE LET s2 == ShiftScale(a.self, 0 - n)
                     b == Add(p0.total, s2)
                 IN IF ~b.ok THEN FailKeep([p0 EXCEPT !.total = b.self, !.sub = b.number, !.tmp = a.number])
                    ELSE Ok([p0 EXCEPT !.total = b.self, !.sub = NewNum, !.tmp = NewNum, !.first = TRUE, !.dl = 0, !.comma = FALSE])
       ELSE Ok([p0 EXCEPT !.tmp = AppendDigit(p0.tmp, n), !.first = FALSE, !.dl = p0.dl + 1, !.hang = FALSE])

\* NumericParser::done
ParserDone(p0) ==
  LET a == Add(p0.sub, p0.tmp)
      b == IF a.ok THEN Add(p0.total, a.self) ELSE [ok |-> FALSE, self |-> p0.total, number |-> a.self]
      p1 == [p0 EXCEPT !.total = b.self, !.sub = b.number, !.tmp = a.number]
  IN IF ~(a.ok /\ b.ok) THEN [ok |-> FALSE, p |-> p1]            \* the groups do not add up: no separator error is reported (fix of C15)
     ELSE IF p1.hang THEN Fail(p1, "POINT")
     ELSE IF p1.comma /\ p1.dl # 3 THEN Fail(p1, "COMMA")
     ELSE [ok |-> a.ok /\ b.ok, p |-> p1]

Normalized(p) == ToText(p.total)

\* parse a whole string: [accepted, norm]
RECURSIVE ParseFrom(_, _, _)
ParseFrom(s, i, p) ==
  IF i > Len(s) THEN LET d == ParserDone(p) IN [accepted |-> d.ok, norm |-> IF d.ok THEN Normalized(d.p) ELSE <<>>, err |-> d.p.err]
  ELSE LET a == ParserAppend(p, s[i]) IN
       IF a.ok THEN ParseFrom(s, i + 1, a.p) ELSE [accepted |-> FALSE, norm |-> <<>>, err |-> a.p.err]
Parse(s) == ParseFrom(s, 1, NewParser)
=============================================================================
