--------------------------------- MODULE APA_Concurrent ---------------------------------
(* Inductive invariant of the sound design of Concurrent (a tokenizer per thread), discharged by Apalache for        *)
(* ANY number of dictionary reads per analysis and any number of analyses per thread (MaxReads, MaxRuns are           *)
(* unconstrained integers), over a fixed set of threads:                                                             *)
(*   apalache-mc check --cinit=ConstInit --init=IndInit --inv=IndInv --length=1 APA_Concurrent.tla   (induction step) *)
(*   apalache-mc check --cinit=ConstInit --inv=IndInv --length=0 APA_Concurrent.tla                  (base case)      *)
(* IndInv implies EveryResultSequential and DictImmutable.                                                            *)
EXTENDS Concurrent, Apalache

ConstInit == /\ Threads = {"t1", "t2", "t3", "t4"} /\ Texts = {"x", "y"}
             /\ MaxReads \in Nat /\ MaxRuns \in Nat
             /\ Variant = "sound"

TypeOK == /\ phase \in {"loading", "frozen"} /\ dict \in Nat /\ frozenAt \in Int
          /\ pc \in [Threads -> {"idle", "analysing"}]
          /\ cur \in [Threads -> Texts \cup {"none"}]
          /\ DOMAIN reads = Threads /\ DOMAIN scratch = Threads /\ DOMAIN busy = Threads /\ DOMAIN runs = Threads
          /\ tokOf = [t \in Threads |-> t]

IndInv == /\ TypeOK
          /\ phase = "loading" => (done = {} /\ \A t \in Threads : pc[t] = "idle")
          /\ phase = "frozen" => dict = frozenAt
          /\ \A t \in Threads : pc[t] = "analysing" =>
                 /\ scratch[t] = cur[t]
                 /\ \A i \in DOMAIN reads[t] : reads[t][i] = frozenAt
          /\ \A d \in done : Sequential(d)

\* an arbitrary state satisfying the invariant (Apalache: Gen for the unbounded parts)
IndInit == /\ phase \in {"loading", "frozen"}
           /\ dict \in Nat /\ frozenAt \in Int
           /\ pc \in [Threads -> {"idle", "analysing"}]
           /\ cur \in [Threads -> Texts \cup {"none"}]
           /\ reads = Gen(4) /\ scratch \in [Threads -> Texts \cup {"none"}]
           /\ tokOf = [t \in Threads |-> t]
           /\ done = Gen(4) /\ runs = Gen(4) /\ busy \in [Threads -> BOOLEAN]
           /\ IndInv

Safety == EveryResultSequential /\ DictImmutable
\* non-vacuity of IndInit: a frozen state with a finished analysis and a running one exists (this 'invariant' must be VIOLATED)
NoInterestingState == ~(phase = "frozen" /\ done # {} /\ \E t \in Threads : pc[t] = "analysing" /\ Len(reads[t]) > 1)
=============================================================================
