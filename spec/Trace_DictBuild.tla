----------------------------- MODULE Trace_DictBuild -----------------------------
(* Trace validation for C06 (`vh c06-run`): compile{res, fail_at}, readback{...},  *)
(* probe{res} per offered input; `case` events carry the input and reset the state. *)
EXTENDS DictBuild, TraceIO

VARIABLES l
tvars == <<bvars, l>>
Ev == Rec[l]

TInit == Init /\ l = 1

TrCase == /\ l <= NRec /\ Ev.ev = "case" /\ Reset /\ l' = l + 1
TrCompile == /\ l <= NRec /\ Ev.ev = "compile" /\ Compile(Ev.res, Ev.fail_at) /\ l' = l + 1
TrRead == /\ l <= NRec /\ Ev.ev = "readback" /\ Ev.res = "ok" /\ ReadBack(Ev.rb) /\ l' = l + 1
TrProbe == /\ l <= NRec /\ Ev.ev = "probe" /\ Probe(Ev.res) /\ l' = l + 1

TNext == TrCase \/ TrCompile \/ TrRead \/ TrProbe
TSpec == TInit /\ [][TNext]_tvars
=============================================================================
