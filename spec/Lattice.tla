--------------------------------- MODULE Lattice ---------------------------------
(***************************************************************************)
(* The Viterbi lattice (sudachi/src/analysis/lattice.rs) and its driver    *)
(* loop (LatticeBuilder::build_lattice in stateful_tokenizer.rs).           *)
(*                                                                         *)
(* ends[p+1]  the nodes ENDING at character boundary p, in insertion order  *)
(*            (row 0 holds BOS).  A node is a record                        *)
(*            [b, e, lid, rid, cost, total].                                *)
(* eos        NoEos | [total]      result of connect_eos                    *)
(* conn[r][l] connection cost between a left node with right id r and a     *)
(*            right node with left id l  (cost(left.right_id, right.left_id))*)
(*                                                                         *)
(* C02: the total stored in every node / in EOS is the minimum over ALL     *)
(* paths from BOS (ViterbiInv, EosOptimal); ties are free.                  *)
(***************************************************************************)
EXTENDS Integers, Sequences, FiniteSets, TLC

CONSTANTS INF        \* i32::MAX: "not connected"

VARIABLES conn,                    \* the loaded dictionary's matrix [0..NumL-1 -> [0..NumR-1 -> Int]]; never written here
          ends, size, eos, pos     \* pos: position whose candidates are being inserted

lvars == <<conn, ends, size, eos, pos>>

NoEos == [total |-> INF, set |-> FALSE]
Bos   == [b |-> 0, e |-> 0, lid |-> 0, rid |-> 0, cost |-> 0, wid |-> <<-1, -1>>, total |-> 0]

Min(S) == CHOOSE x \in S : \A y \in S : x <= y

\* connect_node: minimum over the connected left neighbours; INF when there is none
Connected(row) == { i \in 1..Len(row) : row[i].total # INF }
ConnectCost(row, lid, cost) ==
  IF Connected(row) = {} THEN INF
  ELSE Min({ row[i].total + conn[row[i].rid][lid] + cost : i \in Connected(row) })
Minimisers(row, lid, cost) ==
  { i \in Connected(row) : row[i].total + conn[row[i].rid][lid] + cost = ConnectCost(row, lid, cost) }

ResetL(n) == /\ ends' = [p \in 1..(n + 1) |-> IF p = 1 THEN <<Bos>> ELSE <<>>]
             /\ size' = n + 1
             /\ eos' = NoEos
             /\ pos' = 0
             /\ UNCHANGED conn

\* Lattice::insert for a candidate starting at the current position
Insert(e, lid, rid, cost, wid) ==
  /\ size > 0 /\ ~eos.set
  /\ pos < e /\ e <= size - 1
  /\ Len(ends[pos + 1]) > 0                     \* build_lattice skips positions nothing ends at
  /\ LET node == [b |-> pos, e |-> e, lid |-> lid, rid |-> rid, cost |-> cost, wid |-> wid,
                  total |-> ConnectCost(ends[pos + 1], lid, cost)]
     IN ends' = [ends EXCEPT ![e + 1] = Append(@, node)]
  /\ UNCHANGED <<conn, size, eos, pos>>

Advance == /\ size > 0 /\ ~eos.set /\ pos < size - 1
           /\ pos' = pos + 1
           /\ UNCHANGED <<conn, ends, size, eos>>

\* connect_eos: EOS has left id 0 and cost 0; INF = EosBosDisconnect
ConnectEos == /\ size > 0 /\ ~eos.set /\ pos = size - 1
              /\ eos' = [total |-> ConnectCost(ends[size], 0, 0), set |-> TRUE]
              /\ UNCHANGED <<conn, ends, size, pos>>

-----------------------------------------------------------------------------
(* Independent oracle: brute-force minimum over all BOS->node paths.        *)
RECURSIVE BestTo(_, _)
BestTo(p, i) ==          \* node i of row p+1
  LET nd == ends[p + 1][i] IN
  IF p = 0 THEN 0
  ELSE LET row == ends[nd.b + 1]
           cands == { BestTo(nd.b, j) + conn[row[j].rid][nd.lid] + nd.cost :
                        j \in { j \in 1..Len(row) : BestTo(nd.b, j) # INF } }
       IN IF cands = {} THEN INF ELSE Min(cands)

ViterbiInv == size > 0 =>
  \A p \in 0..(size - 1) : \A i \in 1..Len(ends[p + 1]) : ends[p + 1][i].total = BestTo(p, i)

EosOptimal == eos.set =>
  LET row == ends[size]
      cands == { BestTo(size - 1, j) + conn[row[j].rid][0] : j \in { j \in 1..Len(row) : BestTo(size - 1, j) # INF } }
  IN eos.total = IF cands = {} THEN INF ELSE Min(cands)

\* cumulative cost of a path (sequence of nodes with lid/rid/cost) recomputed from scratch
RECURSIVE CumCost(_, _)
CumCost(path, k) == IF k = 0 THEN 0
                    ELSE CumCost(path, k - 1) + path[k].cost
                         + conn[IF k = 1 THEN 0 ELSE path[k-1].rid][path[k].lid]
=============================================================================
