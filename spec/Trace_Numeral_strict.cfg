SPECIFICATION TSpec
CONSTANTS
  Strict = TRUE
POSTCONDITION Report
CHECK_DEADLOCK FALSE
