-------------------------------- MODULE DictIndex --------------------------------
(***************************************************************************)
(* Dictionary index (build/index.rs, lexicon/trie.rs, word_id_table.rs,     *)
(* lexicon/mod.rs lookup, lexicon_set.rs lookup).                           *)
(*                                                                         *)
(* layers[d+1]   source rows of dictionary d (0 = system, >0 user), each     *)
(*               [key |-> byte sequence, lid |-> left id]; the word number   *)
(*               of a row is its position (0-based) in its layer.            *)
(* Build         per layer: group the ids of INDEXED rows (lid >= 0) by key   *)
(*               in first-occurrence order, write one record                  *)
(*               <<count, id_1 .. id_count>> per key into the id table,       *)
(*               store the record offset as the trie value of the key.        *)
(* Lookup        common-prefix traversal: for every end such that             *)
(*               text[off..end) is a key, read the record at its offset.      *)
(*                                                                         *)
(* C04: the entries reported are exactly the indexed rows whose key is a    *)
(* prefix of the text at that byte offset, each exactly once, with the      *)
(* right end / word number / dictionary number.                             *)
(***************************************************************************)
EXTENDS Naturals, Integers, Sequences, FiniteSets, TLC

VARIABLES layers, built, table, trie
dvars == <<layers, built, table, trie>>

-----------------------------------------------------------------------------
\* meaning
IsPrefixAt(k, t, off) == /\ off + Len(k) <= Len(t)
                         /\ \A i \in 1..Len(k) : t[off + i] = k[i]

Matches(ls, t, off) ==
  UNION { { [dic |-> d - 1, word |-> w - 1, end |-> off + Len(ls[d][w].key)] :
              w \in { w \in 1..Len(ls[d]) : /\ ls[d][w].lid >= 0
                                             /\ Len(ls[d][w].key) > 0
                                             /\ IsPrefixAt(ls[d][w].key, t, off) } }
          : d \in 1..Len(ls) }

ExactMatches(ls, q) == { m \in Matches(ls, q, 0) : m.end = Len(q) }

-----------------------------------------------------------------------------
\* builder, transcribed
RECURSIVE GroupKeys(_, _, _)          \* distinct keys of indexed rows, first-occurrence order
GroupKeys(rows, i, acc) ==
  IF i > Len(rows) THEN acc
  ELSE IF rows[i].lid >= 0 /\ ~\E j \in 1..Len(acc) : acc[j] = rows[i].key
       THEN GroupKeys(rows, i + 1, Append(acc, rows[i].key))
       ELSE GroupKeys(rows, i + 1, acc)

IdsOf(rows, k) == LET RECURSIVE Go(_, _)
                      Go(i, acc) == IF i > Len(rows) THEN acc
                                    ELSE IF rows[i].lid >= 0 /\ rows[i].key = k THEN Go(i + 1, Append(acc, i - 1))
                                    ELSE Go(i + 1, acc)
                  IN Go(1, <<>>)

\* table as a sequence of cells: each record is <<count>> \o ids; offsets are cell offsets
\* scaled as in the byte table (1 + 4 * count bytes per record)
RECURSIVE BuildTable(_, _, _, _, _)
BuildTable(rows, keys, i, off, acc) ==
  IF i > Len(keys) THEN acc
  ELSE LET ids == IdsOf(rows, keys[i])
       IN BuildTable(rows, keys, i + 1, off + 1 + 4 * Len(ids),
                     [recs |-> acc.recs @@ (off :> ids), tr |-> acc.tr @@ (keys[i] :> off)])

BuildLayer(rows) == BuildTable(rows, GroupKeys(rows, 1, <<>>), 1, 0, [recs |-> <<>>, tr |-> <<>>])

\* lookup, transcribed: ends in increasing order; dictionaries last to first
LookupLayer(d, t, off) ==
  LET ends == { e \in (off + 1)..Len(t) : SubSeq(t, off + 1, e) \in DOMAIN trie[d] }
      RECURSIVE Walk(_, _)
      Walk(e, acc) == IF e > Len(t) THEN acc
                      ELSE IF e \in ends
                           THEN LET ids == table[d][trie[d][SubSeq(t, off + 1, e)]]
                                IN Walk(e + 1, acc \o [j \in 1..Len(ids) |-> [dic |-> d - 1, word |-> ids[j], end |-> e]])
                           ELSE Walk(e + 1, acc)
  IN Walk(off + 1, <<>>)

RECURSIVE LookupFrom(_, _, _)
LookupFrom(d, t, off) == IF d = 0 THEN <<>> ELSE LookupLayer(d, t, off) \o LookupFrom(d - 1, t, off)
Lookup(t, off) == LookupFrom(Len(layers), t, off)

-----------------------------------------------------------------------------
Init == layers = << <<>> >> /\ built = FALSE /\ table = <<>> /\ trie = <<>>

AddRow(key, lid) == /\ ~built
                    /\ layers' = [layers EXCEPT ![Len(layers)] = Append(@, [key |-> key, lid |-> lid])]
                    /\ UNCHANGED <<built, table, trie>>

NewLayer == /\ ~built /\ Len(layers[Len(layers)]) > 0
            /\ layers' = Append(layers, <<>>)
            /\ UNCHANGED <<built, table, trie>>

Build == /\ ~built
         /\ built' = TRUE
         /\ table' = [d \in 1..Len(layers) |-> BuildLayer(layers[d]).recs]
         /\ trie'  = [d \in 1..Len(layers) |-> BuildLayer(layers[d]).tr]
         /\ UNCHANGED layers

SeqSet(s) == { s[i] : i \in 1..Len(s) }

\* C04 for one text: at every byte offset the reported bag equals the meaning
LookupOK(t) == \A off \in 0..Len(t) :
                 LET r == Lookup(t, off)
                 IN /\ SeqSet(r) = Matches(layers, t, off)
                    /\ Len(r) = Cardinality(Matches(layers, t, off))      \* each exactly once
=============================================================================
