SPECIFICATION TSpec
CONSTANTS
  INF = 2147483647
INVARIANTS SmallViterbi
POSTCONDITION Report
CHECK_DEADLOCK FALSE
