SPECIFICATION MSpec
CONSTANTS
  MaxLen = 4
INVARIANTS NoTerminatorAnalysed MachineIsRun BlankLineEmpty Emit
CHECK_DEADLOCK FALSE
