---------------------------- MODULE Trace_DictLayers ----------------------------
(* Trace validation for C12 (`vh c12-record`): layers{regs,dicts,k} loaded{res,too_many} word{d,w,obs} *)
EXTENDS DictLayers, TraceIO

VARIABLES l, decl, ok
tvars == <<lvars, l, decl, ok>>
Ev == Rec[l]

TSys == <<"N", "V">>

TInit == Init /\ l = 1 /\ decl = <<>> /\ ok = FALSE

\* replay the load sequence of the specification for the declared configuration
RECURSIVE RegAll(_, _, _)
RegAll(g, regs, i) == IF i > Len(regs) THEN g
                      ELSE RegAll(IF InSeq(g, regs[i]) THEN g ELSE Append(g, regs[i]), regs, i + 1)
RECURSIVE MergeAll(_, _, _, _)
MergeAll(g, st, ds, i) ==
  IF i > Len(ds) \/ Len(st) >= MaxUser THEN [g |-> g, st |-> st]
  ELSE LET own == OwnPos(ds[i], 1, <<>>)
       IN MergeAll(g \o own, Append(st, [own |-> own, off |-> Len(g), words |-> ds[i]]), ds, i + 1)

TrLayers == /\ l <= NRec /\ Ev.ev = "layers"
            /\ LET g1 == RegAll(SysPos, Ev.regs, 1)
                   m  == MergeAll(g1, <<>>, Ev.dicts, 1)
               IN gpos' = m.g /\ stack' = m.st
            /\ phase' = "frozen" /\ refused' = (Ev.k > MaxUser)
            /\ decl' = Ev /\ ok' = FALSE
            /\ l' = l + 1

TrLoaded == /\ l <= NRec /\ Ev.ev = "loaded"
            /\ IF refused THEN Ev.res = "err" /\ Ev.too_many = TRUE     \* the 15th user dictionary is refused with an error
                          ELSE Ev.res = "ok"
            /\ ok' = (Ev.res = "ok")
            /\ l' = l + 1 /\ UNCHANGED <<lvars, decl>>

TrWord == /\ l <= NRec /\ Ev.ev = "word" /\ ok
          /\ ~HasField(Ev, "err")
          /\ Ev.obs.n = 1 /\ Ev.obs.oov = FALSE
          /\ Ev.obs.dic = Ev.d /\ Ev.obs.word = Ev.w                       \* layer number, word number
          /\ IF Ev.d = 0
             THEN Ev.obs.pos = SysPos[Ev.w + 1] /\ Ev.obs.lexpos = SysPos[Ev.w + 1] /\ Ev.obs.refs = <<>>   \* system words unaffected
             ELSE LET wd == stack[Ev.d].words[Ev.w + 1] IN
                  /\ Ev.obs.pos = wd.pos /\ Ev.obs.lexpos = wd.pos           \* exactly the declared POS
                  /\ ReportedPos(Ev.d, Ev.w + 1) = wd.pos
                  /\ Ev.obs.refs = [k \in 1..Len(wd.refs) |-> ReportedRef(Ev.d, wd.refs[k])]
          /\ l' = l + 1 /\ UNCHANGED <<lvars, decl, ok>>

TNext == TrLayers \/ TrLoaded \/ TrWord
TSpec == TInit /\ [][TNext]_tvars
=============================================================================
