---------------------------- MODULE Trace_PluginLoad ----------------------------
(* Trace validation for C20 (`vh c20-run`): case{cfg} load{res} edit{cells,values_ok} probe{res} *)
EXTENDS PluginLoad, TraceIO

VARIABLES l, pending
tvars == <<pvars, l, pending>>
Ev == Rec[l]

TInit == Init /\ l = 1 /\ pending = NoCfg

TrCase == /\ l <= NRec /\ Ev.ev = "case"
          /\ pending' = Ev.cfg
          /\ cfg' = NoCfg /\ outcome' = "none" /\ changed' = {} /\ probed' = FALSE
          /\ l' = l + 1

TrLoad == /\ l <= NRec /\ Ev.ev = "load"
          /\ Load(pending, Ev.res)
          /\ l' = l + 1 /\ UNCHANGED pending

TrEdit == /\ l <= NRec /\ Ev.ev = "edit"
          /\ ~HasField(Ev, "panic")
          /\ Edit({ <<Ev.cells[i][1], Ev.cells[i][2]>> : i \in 1..Len(Ev.cells) })
          /\ Ev.values_ok = TRUE
          /\ l' = l + 1 /\ UNCHANGED pending

TrProbe == /\ l <= NRec /\ Ev.ev = "probe"
           /\ Probe(Ev.res)
           /\ l' = l + 1 /\ UNCHANGED pending

TNext == TrCase \/ TrLoad \/ TrEdit \/ TrProbe
TSpec == TInit /\ [][TNext]_tvars
=============================================================================
