SPECIFICATION TSpec
CONSTANTS
  MaxCp = 1114111
  Classes = {1}
  DEFAULT = 0
  MaxLines = 100000
INVARIANTS CompiledAgrees
POSTCONDITION Report
CHECK_DEADLOCK FALSE
