------------------------------- MODULE InputBuffer -------------------------------
(***************************************************************************)
(* The input buffer (sudachi/src/input_text/buffer/{mod,edit}.rs).          *)
(*                                                                         *)
(* orig  original text; mod  rewritten text the analysis runs on;          *)
(* m2o   for every BYTE position of mod (0..ByteLen(mod), sequence index    *)
(*       b+1) the byte position of orig it maps to.  Only entries on        *)
(*       character boundaries are meaningful.                              *)
(* tags  model-only identity tags: tags[i] = k when the i-th character of   *)
(*       mod is the never-replaced k-th character of orig, 0 otherwise.     *)
(*                                                                         *)
(* Actions: StartBuild (identity map), Commit(ops) = one batch of ordered,  *)
(* non-overlapping replacements = resolve_edits + add_replace.              *)
(*                                                                         *)
(* C08 (map half): MapOK.  C01 relies on MapOK + tiling of mod.             *)
(***************************************************************************)
EXTENDS Utf8, FiniteSets, TLC

CONSTANTS MaxLen,       \* limit on ByteLen(orig) accepted by StartBuild        (49149 in the code)
          ReallyMaxLen  \* limit on the rewritten length checked by Commit       (65535 in the code)

VARIABLES orig, mod, m2o, tags, st   \* st \in {"clean", "rw", "toolong"}

ibvars == <<orig, mod, m2o, tags, st>>

-----------------------------------------------------------------------------
\* an edit: replace bytes [s, e) of mod by the characters w
WellFormedEdits(t, ops) ==
  /\ \A i \in 1..Len(ops) : /\ ops[i].s <= ops[i].e
                            /\ IsBoundary(t, ops[i].s) /\ IsBoundary(t, ops[i].e)
  /\ \A i \in 1..(Len(ops) - 1) : ops[i].e <= ops[i+1].s

\* resolve_edits / add_replace, transcribed.  smap has ByteLen(src)+1 entries.
RECURSIVE Resolve(_, _, _, _, _, _, _)
Resolve(src, smap, stags, ops, i, start, acc) ==
  IF i > Len(ops)
  THEN [t  |-> acc.t \o SubByBytes(src, start, ByteLen(src)),
        m  |-> acc.m \o SubSeq(smap, start + 1, Len(smap)),
        g  |-> acc.g \o SubSeq(stags, CharIndexAt(src, start), Len(stags))]
  ELSE LET op == ops[i]
           wl == ByteLen(op.w)
           t1 == acc.t \o SubByBytes(src, start, op.s)
           m1 == acc.m \o SubSeq(smap, start + 1, op.s)
           g1 == acc.g \o SubSeq(stags, CharIndexAt(src, start), CharIndexAt(src, op.s) - 1)
           next == IF wl = 0
                   THEN [t |-> t1, m |-> m1, g |-> g1]      \* deletion: nothing is emitted
                   ELSE [t |-> t1 \o op.w,
                         \* first byte -> start of the replaced span, the others -> its end
                         m |-> m1 \o <<smap[op.s + 1]>> \o Rep(smap[op.e + 1], wl - 1),
                         g |-> g1 \o Rep(0, Len(op.w))]
       IN Resolve(src, smap, stags, ops, i + 1, op.e, next)

FixFirst(m) == IF Len(m) > 0 THEN [m EXCEPT ![1] = 0] ELSE m

Resolved(src, smap, stags, ops) ==
  LET r == Resolve(src, smap, stags, ops, 1, 0, [t |-> <<>>, m |-> <<>>, g |-> <<>>])
  IN [t |-> r.t, m |-> FixFirst(r.m), g |-> r.g]

\* length of the rewritten text after the whole batch (the limit is checked on the final length)
RECURSIVE LenAfter(_, _, _)
LenAfter(t, ops, k) == IF k = 0 THEN ByteLen(t)
                       ELSE LenAfter(t, ops, k - 1) + ByteLen(ops[k].w) - (ops[k].e - ops[k].s)
FinalLen(t, ops) == LenAfter(t, ops, Len(ops))

-----------------------------------------------------------------------------
Identity(n) == [i \in 1..(n + 1) |-> i - 1]

StartBuild(text) ==
  /\ st = "clean"
  /\ orig' = text
  /\ IF ByteLen(text) > MaxLen
     THEN /\ st' = "toolong" /\ mod' = <<>> /\ m2o' = <<>> /\ tags' = <<>>
     ELSE /\ st' = "rw" /\ mod' = text /\ m2o' = Identity(ByteLen(text))
          /\ tags' = [i \in 1..Len(text) |-> i]

Commit(ops) ==
  /\ st = "rw"
  /\ WellFormedEdits(mod, ops)
  /\ IF Len(ops) = 0 THEN UNCHANGED ibvars
     ELSE IF FinalLen(mod, ops) > ReallyMaxLen
     THEN /\ st' = "toolong" /\ UNCHANGED <<orig, mod, m2o, tags>>
     ELSE LET r == Resolved(mod, m2o, tags, ops)
          IN /\ mod' = r.t /\ m2o' = r.m /\ tags' = r.g
             /\ UNCHANGED <<orig, st>>

-----------------------------------------------------------------------------
\* m2o restricted to the character boundaries of mod (what a user can ask for)
MapAtBoundaries(t, m) == LET o == Off(t) IN [i \in 1..Len(o) |-> m[o[i] + 1]]

TypeOK == /\ st \in {"clean", "rw", "toolong"}
          /\ st = "rw" => Len(m2o) = ByteLen(mod) + 1 /\ Len(tags) = Len(mod)

(* C08: "the map from positions of the rewritten text to positions of the original is
   non-decreasing, sends start to start and end to end, sends character boundaries to
   character boundaries, and maps each unreplaced character to itself" - for rewrites
   that leave the text non-empty.  (The very first position is anchored to the start even
   when a deletion precedes the first surviving character, so for the first character
   "itself" means: the span assigned to it contains it.) *)
MapOK ==
  (st = "rw" /\ Len(mod) > 0) =>
    LET o  == Off(mod)
        oo == Off(orig)
        mb == MapAtBoundaries(mod, m2o)
    IN /\ mb[1] = 0
       /\ mb[Len(mb)] = ByteLen(orig)
       /\ \A i \in 1..(Len(mb) - 1) : mb[i] <= mb[i+1]
       /\ \A i \in 1..Len(mb) : IsBoundary(orig, mb[i])
       /\ \A i \in 1..Len(mod) : tags[i] # 0 =>
             /\ mod[i] = orig[tags[i]]
             /\ IF i = 1 THEN mb[1] <= oo[tags[i]] /\ oo[tags[i] + 1] <= mb[2]
                         ELSE mb[i] = oo[tags[i]]

\* original code-point index of every boundary of mod (what begin_c/end_c report)
OrigCharAtBoundaries == LET mb == MapAtBoundaries(mod, m2o)
                        IN [i \in 1..Len(mb) |-> CodePointsBefore(orig, mb[i])]
=============================================================================
