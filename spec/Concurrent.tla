---------------------------------- MODULE Concurrent ----------------------------------
(***************************************************************************)
(* C18: one loaded dictionary shared by concurrent tokenizers.                        *)
(*                                                                         *)
(* The dictionary is a value `dict` that is written only while it is being loaded      *)
(* (connection cost edits, user cost fill, POS registration, lexicon append: the        *)
(* `dict_write` mutation points of from_cfg_storage) and is FROZEN afterwards.  An      *)
(* analysis is not atomic: it reads the dictionary many times (Read steps) between its  *)
(* Begin and its End, interleaved with the steps of every other thread.  Its result is  *)
(* a function of the text, the mode and the dictionary versions it read; it equals the  *)
(* single-threaded result exactly when every read saw the frozen dictionary.            *)
(*                                                                         *)
(* All per-analysis mutable state (input buffer, lattice, path) belongs to a TOKENIZER. *)
(* A tokenizer is owned by one thread (Rust: &mut; Python Tokenizer: the exclusive      *)
(* PyCell borrow, a second thread gets an error; pre-tokenizer: one tokenizer per       *)
(* thread, created on first use).  `Variant` selects deliberately broken designs        *)
(* used to show that the invariants are not vacuous.                                    *)
(***************************************************************************)
EXTENDS Integers, Sequences, FiniteSets, TLC

CONSTANTS
    \* @type: Set(Str);
    Threads,
    \* @type: Set(Str);
    Texts,
    \* @type: Int;
    MaxReads,
    \* @type: Int;
    MaxRuns,
    \* @type: Str;
    Variant                \* sound: "sound" (a tokenizer per thread), "guarded_shared" (one tokenizer, exclusive borrow or lock for the whole call)
                           \* broken: "write_after_freeze", "shared_tokenizer" (no guard), "split_lock" (analysis and result collection are two critical sections)

\* (the @type comments are for Apalache, which discharges the inductive invariant of spec/APA_Concurrent.tla; TLC ignores them)
VARIABLES
    \* @type: Str;
    phase,           \* "loading" | "frozen"
    \* @type: Int;
    dict,            \* version number of the dictionary content
    \* @type: Int;
    frozenAt,        \* the version that was frozen
    \* @type: Str -> Str;
    pc,              \* thread -> "idle" | "analysing"
    \* @type: Str -> Str;
    cur,             \* thread -> text being analysed
    \* @type: Str -> Seq(Int);
    reads,           \* thread -> versions read so far by the running analysis
    \* @type: Str -> Str;
    scratch,         \* tokenizer -> text its mutable state currently belongs to
    \* @type: Str -> Str;
    tokOf,           \* thread -> tokenizer it uses
    \* @type: Set({thread: Str, text: Str, reads: Seq(Int), mine: Bool});
    done,            \* set of finished analyses [thread, text, reads, scratch_ok]
    \* @type: Str -> Int;
    runs,            \* thread -> analyses finished
    \* @type: Str -> Bool;
    busy             \* tokenizer -> borrowed / locked
vars == <<phase, dict, frozenAt, pc, cur, reads, scratch, tokOf, done, runs, busy>>

Shared == Variant \in {"shared_tokenizer", "guarded_shared", "split_lock"}
Guarded == Variant \in {"guarded_shared", "split_lock"}
Tokenizers == IF Shared THEN {"shared"} ELSE Threads

Init == /\ phase = "loading" /\ dict = 0 /\ frozenAt = -1
        /\ pc = [t \in Threads |-> "idle"] /\ cur = [t \in Threads |-> "none"] /\ reads = [t \in Threads |-> <<>>]
        /\ scratch = [k \in Tokenizers |-> "none"]
        /\ tokOf = [t \in Threads |-> IF Shared THEN "shared" ELSE t]
        /\ done = {} /\ runs = [t \in Threads |-> 0] /\ busy = [k \in Tokenizers |-> FALSE]

\* a mutation point of the loader
LoadWrite == /\ phase = "loading"
             /\ dict' = dict + 1
             /\ UNCHANGED <<phase, frozenAt, pc, cur, reads, scratch, tokOf, done, runs, busy>>

\* from_cfg_storage returns: the dictionary is published (Arc) and never written again
Freeze == /\ phase = "loading"
          /\ phase' = "frozen" /\ frozenAt' = dict
          /\ UNCHANGED <<dict, pc, cur, reads, scratch, tokOf, done, runs, busy>>

\* the broken design: some write path is still reachable after publication (a cache inside the dictionary, a lazy fill)
LateWrite == /\ Variant = "write_after_freeze" /\ phase = "frozen"
             /\ dict' = dict + 1
             /\ UNCHANGED <<phase, frozenAt, pc, cur, reads, scratch, tokOf, done, runs, busy>>

Begin(t, x) == /\ phase = "frozen" /\ pc[t] = "idle" /\ runs[t] < MaxRuns
               /\ Guarded => ~busy[tokOf[t]]                             \* PyCell exclusive borrow / mutex
               /\ busy' = [busy EXCEPT ![tokOf[t]] = Guarded]
               /\ pc' = [pc EXCEPT ![t] = "analysing"] /\ cur' = [cur EXCEPT ![t] = x] /\ reads' = [reads EXCEPT ![t] = <<>>]
               /\ scratch' = [scratch EXCEPT ![tokOf[t]] = x]            \* reset + push_str: the tokenizer's state now belongs to x
               /\ UNCHANGED <<phase, dict, frozenAt, tokOf, done, runs>>

Read(t) == /\ pc[t] = "analysing" /\ Len(reads[t]) < MaxReads
           /\ reads' = [reads EXCEPT ![t] = Append(@, dict)]
           /\ UNCHANGED <<phase, dict, frozenAt, pc, cur, scratch, tokOf, done, runs, busy>>

\* a second thread that finds the tokenizer borrowed gets an error ("Already borrowed"), never somebody else's result
Refused(t) == /\ Variant = "guarded_shared" /\ phase = "frozen" /\ pc[t] = "idle" /\ busy[tokOf[t]] /\ runs[t] < MaxRuns
              /\ runs' = [runs EXCEPT ![t] = @ + 1]
              /\ UNCHANGED <<phase, dict, frozenAt, pc, cur, reads, scratch, tokOf, done, busy>>

\* the broken two-critical-section design: the lock is dropped after the analysis and taken again to collect the result
Unlock(t) == /\ Variant = "split_lock" /\ pc[t] = "analysing" /\ Len(reads[t]) > 0
             /\ pc' = [pc EXCEPT ![t] = "analysed"] /\ busy' = [busy EXCEPT ![tokOf[t]] = FALSE]
             /\ UNCHANGED <<phase, dict, frozenAt, cur, reads, scratch, tokOf, done, runs>>

End(t) == /\ IF Variant = "split_lock" THEN pc[t] = "analysed" /\ ~busy[tokOf[t]] ELSE pc[t] = "analysing" /\ Len(reads[t]) > 0
          /\ busy' = [busy EXCEPT ![tokOf[t]] = FALSE]
          /\ done' = done \cup {[thread |-> t, text |-> cur[t], reads |-> reads[t], mine |-> scratch[tokOf[t]] = cur[t]]}
          /\ pc' = [pc EXCEPT ![t] = "idle"] /\ runs' = [runs EXCEPT ![t] = @ + 1]
          /\ UNCHANGED <<phase, dict, frozenAt, cur, reads, scratch, tokOf>>

Next == LoadWrite \/ Freeze \/ LateWrite \/ (\E t \in Threads : (\E x \in Texts : Begin(t, x)) \/ Read(t) \/ Refused(t) \/ Unlock(t) \/ End(t))
Spec == Init /\ [][Next]_vars

\* ---------------------------------------------------------------- properties
\* the result of an analysis is the single-threaded result: every read saw the frozen dictionary, and the tokenizer's
\* state was still the one of its own text when it finished
\* @type: ({thread: Str, text: Str, reads: Seq(Int), mine: Bool}) => Bool;
Sequential(d) == (\A i \in DOMAIN d.reads : d.reads[i] = frozenAt) /\ d.mine
EveryResultSequential == \A d \in done : Sequential(d)
\* the dictionary is never modified after loading
DictImmutable == phase = "frozen" => dict = frozenAt
=============================================================================
