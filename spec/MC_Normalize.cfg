SPECIFICATION MSpec
CONSTANTS
  MaxLen = 3
INVARIANTS IsNorm PathsAgree Emit
CHECK_DEADLOCK FALSE
