---------------------------------- MODULE PathRewrite ----------------------------------
(***************************************************************************)
(* Path-rewrite plugins (plugin/path_rewrite/join_numeric, join_katakana_oov, *)
(* analysis/node.rs concat_nodes / concat_oov_nodes).                        *)
(*                                                                         *)
(* A path is a sequence of nodes [b, e, bb, eb, surface, norm, pos, cats,     *)
(* oov, id]: character and byte range in the rewritten text, dictionary-side  *)
(* surface, normalised form, part of speech, class set of the range           *)
(* (intersection over its characters), whether it is out of vocabulary, and   *)
(* an identity (word id) for "unchanged".                                     *)
(*                                                                         *)
(* C14: the path after the plugins is a MERGE of the path before them: tokens *)
(* are only joined with neighbours, a joined token covers the union of the     *)
(* ranges, its surface is the concatenation, it carries the prescribed POS,    *)
(* and tokens outside a join are unchanged.                                    *)
(***************************************************************************)
EXTENDS Integers, Sequences, FiniteSets, TLC
P == INSTANCE NumericParser

RECURSIVE ConcatField(_, _, _, _)
ConcatField(path, i, j, f) == IF i > j THEN <<>> ELSE path[i][f] \o ConcatField(path, i + 1, j, f)

\* cuts: strictly increasing 1 = c_1 < ... < c_k <= Len(before); group j = before[c_j .. c_{j+1}-1]
GroupEnd(cuts, j, n) == IF j = Len(cuts) THEN n ELSE cuts[j + 1] - 1

\* what a node may look like when it is the join of before[i..j] (j > i)
\* numeric: POS of the first node, which is the numeral POS; katakana: the configured OOV POS
JoinedOK(a, before, i, j, rule) ==
  /\ a.b = before[i].b /\ a.e = before[j].e /\ a.bb = before[i].bb /\ a.eb = before[j].eb
  /\ a.surface = ConcatField(before, i, j, "surface")
  /\ IF rule.kind = "numeric" THEN a.pos = rule.pos /\ before[i].pos = rule.pos
     ELSE a.pos = rule.pos /\ a.norm = a.surface

\* a node that is not part of a join is reported unchanged; the numeric plugin may still replace the
\* normalised form of a single numeral by its decimal value (C15's business), nothing else
SingleOK(a, x, rule) ==
  \/ a = x
  \/ /\ rule.kind = "numeric" /\ rule.normalize /\ x.pos = rule.pos
     /\ [a EXCEPT !.norm = x.norm, !.id = x.id] = x

IsMergeWith(before, after, cuts, rule) ==
  /\ Len(cuts) = Len(after)
  /\ (Len(after) > 0) => cuts[1] = 1
  /\ \A j \in 1..(Len(cuts) - 1) : cuts[j] < cuts[j + 1]
  /\ \A j \in 1..Len(cuts) : cuts[j] <= Len(before)
  /\ \A j \in 1..Len(after) :
       LET i == cuts[j] e == GroupEnd(cuts, j, Len(before)) IN
       IF e = i THEN SingleOK(after[j], before[i], rule) ELSE JoinedOK(after[j], before, i, e, rule)

\* the cuts are determined by the character ranges: after[j] starts where before[cuts[j]] starts
CutsOf(before, after) ==
  [j \in 1..Len(after) |->
     LET c == { i \in 1..Len(before) : before[i].b = after[j].b } IN IF c = {} THEN 0 ELSE CHOOSE i \in c : \A k \in c : i <= k]

IsMerge(before, after, rule) ==
  /\ (Len(before) = 0) <=> (Len(after) = 0)
  /\ \A j \in 1..Len(after) : CutsOf(before, after)[j] # 0
  /\ IsMergeWith(before, after, CutsOf(before, after), rule)
=============================================================================
