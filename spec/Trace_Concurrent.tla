------------------------------- MODULE Trace_Concurrent -------------------------------
(* Trace validation for C18 (`vh c18-run`, pydrv/c18_py.py).                                               *)
(*   dict_write / frozen          the loader's mutation points and the publication of the dictionary,       *)
(*                                in the order of a global sequence number taken under the recorder's lock  *)
(*   fingerprint{when, fp}        everything the public API shows of the dictionary, before and after       *)
(*   oracle{when, text, mode, ms} single-threaded results before the threads start and after they finish    *)
(*   end{thread, text, mode, ms, count}          an analysis of a Rust thread with its own tokenizer         *)
(*   pt_oracle{text, tokens}      single-threaded result of the pre-tokenizer                               *)
(*   py_end{arr, thread, text, mode, res, val, count}   an analysis of a Python thread                      *)
(* Identical outcomes of one thread are counted, not repeated.  An analysis is the composition              *)
(* Begin . Read . End of Concurrent; what it read is not logged: the result is Sequential exactly when it   *)
(* equals the single-threaded result, which is what the event is judged by.                                  *)
EXTENDS Concurrent, TraceIO

TraceThreads == 0..63
TraceTexts == 0..1000
VARIABLES l, oracle, ptOracle, fp
Ev == Rec[l]
Fn0 == [x \in {} |-> 0]
Put(f, k, v) == [x \in DOMAIN f \cup {k} |-> IF x = k THEN v ELSE f[x]]
tvars == <<vars, l, oracle, ptOracle, fp>>
TInit == Init /\ l = 1 /\ oracle = Fn0 /\ ptOracle = Fn0 /\ fp = <<>>

Keep == UNCHANGED <<oracle, ptOracle, fp>>

TrWrite == /\ l <= NRec /\ Ev.ev = "dict_write" /\ LoadWrite /\ Keep /\ l' = l + 1       \* enabled only while loading
TrFrozen == /\ l <= NRec /\ Ev.ev = "frozen" /\ Freeze /\ Keep /\ l' = l + 1
TrNote == /\ l <= NRec /\ Ev.ev \in {"loaded", "py_loaded", "py_done"} /\ UNCHANGED vars /\ Keep /\ l' = l + 1

TrFingerprint == /\ l <= NRec /\ Ev.ev = "fingerprint" /\ phase = "frozen"
                 /\ IF Ev.when = "before" THEN fp' = <<Ev.fp>> ELSE fp = <<Ev.fp>> /\ UNCHANGED fp
                 /\ UNCHANGED <<vars, oracle, ptOracle>> /\ l' = l + 1

TrOracle == /\ l <= NRec /\ Ev.ev = "oracle" /\ phase = "frozen"
            /\ IF Ev.when = "before" THEN oracle' = Put(oracle, <<Ev.text, Ev.mode>>, Ev.ms)
                                     ELSE oracle[<<Ev.text, Ev.mode>>] = Ev.ms /\ UNCHANGED oracle
            /\ UNCHANGED <<vars, ptOracle, fp>> /\ l' = l + 1
TrPtOracle == /\ l <= NRec /\ Ev.ev = "pt_oracle" /\ ptOracle' = Put(ptOracle, Ev.text, Ev.tokens)
              /\ UNCHANGED <<vars, oracle, fp>> /\ l' = l + 1

\* Begin . Read . End of one thread on its own tokenizer, judged by its result
Analysis(t, x, sequential) ==
  /\ phase = "frozen" /\ sequential
  /\ done' = {[thread |-> t, text |-> x, reads |-> <<dict>>, mine |-> TRUE]}      \* the invariants are evaluated in every state: the latest analysis suffices
  /\ runs' = [runs EXCEPT ![t] = @ + 1]
  /\ UNCHANGED <<phase, dict, frozenAt, pc, cur, reads, scratch, tokOf, busy>>

First5(ms) == [i \in 1..Len(ms) |-> SubSeq(ms[i], 1, 5)]

TrEnd == /\ l <= NRec /\ Ev.ev = "end" /\ Ev.thread \in Threads
         /\ Analysis(Ev.thread, Ev.text, Ev.ms = oracle[<<Ev.text, Ev.mode>>])
         /\ Keep /\ l' = l + 1

TrPyEnd == /\ l <= NRec /\ Ev.ev = "py_end" /\ Ev.thread \in Threads
           /\ CASE Ev.res = "ok" /\ Ev.arr = "pretok" -> Analysis(Ev.thread, Ev.text, Ev.val = ptOracle[Ev.text])
                [] Ev.res = "ok" /\ Ev.arr = "pretok_handler" -> Analysis(Ev.thread, Ev.text, Ev.val = ptOracle[100000 + Ev.text])   \* the handler variant's own reference
                [] Ev.res = "ok" /\ Ev.arr \notin {"pretok", "pretok_handler"} -> Analysis(Ev.thread, Ev.text, Ev.val = First5(oracle[<<Ev.text, Ev.mode>>]))
                [] Ev.res = "refused" -> /\ Variant = "guarded_shared" /\ Ev.arr = "shared"        \* the exclusive borrow refused a concurrent use
                                         /\ runs' = [runs EXCEPT ![Ev.thread] = @ + 1]
                                         /\ UNCHANGED <<phase, dict, frozenAt, pc, cur, reads, scratch, tokOf, done, busy>>
                [] OTHER -> FALSE
           /\ Keep /\ l' = l + 1

TNext == TrWrite \/ TrFrozen \/ TrNote \/ TrFingerprint \/ TrOracle \/ TrPtOracle \/ TrEnd \/ TrPyEnd
TSpec == TInit /\ [][TNext]_tvars
=============================================================================
