---------------------------------- MODULE Normalize ----------------------------------
(***************************************************************************)
(* Input-text normalisation plugins (plugin/input_text).                        *)
(*                                                                         *)
(* Norm(text): the meaning C07 states - scanning left to right, the LONGEST   *)
(* table key starting at a position is replaced by its value; any other       *)
(* character c becomes Lower[c] and, unless exempt, its NFKC form; nothing    *)
(* else changes.                                                              *)
(* Fast / Slow: the two code paths of DefaultInputTextPlugin, transcribed     *)
(* (unanchored leftmost-longest search over the text; anchored search at each *)
(* character, else per-character handling) and the choice between them.      *)
(* Prolonged, Yomigana: maximal runs of >= 2 marks -> one symbol; a kanji      *)
(* followed by (left bracket, 1..n kana, right bracket) loses the bracket group.*)
(*                                                                         *)
(* Unicode primitives are data: LowerOf(c) (full lower-casing of one scalar)   *)
(* and NfkcOf(s) (NFKC of a short sequence) come from tables.                 *)
(***************************************************************************)
EXTENDS Naturals, Sequences, FiniteSets, TLC

VARIABLES keys,       \* the loaded rewrite table's keys (sequences of code points); set at load time
          vals,       \* the table as a sequence of <<key, value>> pairs
          exempt,     \* code points exempt from NFKC
          uni         \* Unicode data for the characters in play: sequence of <<cp, lower, nfkc of lower, quick-check "yes">>
                      \* (full lower-casing of one scalar and NFKC of its lower-cased form come from trusted tables)

nvars == <<keys, vals, exempt, uni>>

UniRow(c) == LET idx == { i \in 1..Len(uni) : uni[i][1] = c } IN uni[CHOOSE i \in idx : TRUE]
LowerOf(c) == UniRow(c)[2]
\* NFKC is only ever applied to one character or to the lower-cased form of one character
NfkcOf(s) == LET idx == { i \in 1..Len(uni) : uni[i][2] = s } IN uni[CHOOSE i \in idx : TRUE][3]
QuickYes(c) == UniRow(c)[4]
ValueOf(k) == vals[CHOOSE i \in 1..Len(vals) : vals[i][1] = k][2]
Exempt == exempt

-----------------------------------------------------------------------------
IsPrefixAt(k, t, i) == /\ i + Len(k) - 1 <= Len(t)              \* k occurs in t starting at position i (1-based)
                       /\ \A j \in 1..Len(k) : t[i + j - 1] = k[j]
KeysAt(t, i) == { k \in keys : Len(k) > 0 /\ IsPrefixAt(k, t, i) }
Longest(S) == CHOOSE k \in S : \A k2 \in S : Len(k2) <= Len(k)
Shortest(S) == CHOOSE k \in S : \A k2 \in S : Len(k) <= Len(k2)

CharNorm(c) == IF c \in Exempt THEN LowerOf(c) ELSE NfkcOf(LowerOf(c))

\* the property side
RECURSIVE NormFrom(_, _)
NormFrom(t, i) ==
  IF i > Len(t) THEN <<>>
  ELSE IF KeysAt(t, i) # {}
       THEN LET k == Longest(KeysAt(t, i)) IN ValueOf(k) \o NormFrom(t, i + Len(k))
       ELSE CharNorm(t[i]) \o NormFrom(t, i + 1)
Norm(t) == NormFrom(t, 1)

-----------------------------------------------------------------------------
\* the implementation side
NeedsLower(c) == LowerOf(c) # <<c>>
NeedSlow(t) == \E i \in 1..Len(t) : NeedsLower(t[i]) \/ ~QuickYes(t[i])

\* replace_fast: leftmost-longest, non-overlapping; unmatched characters are copied
RECURSIVE FastFrom(_, _)
FastFrom(t, i) ==
  IF i > Len(t) THEN <<>>
  ELSE IF KeysAt(t, i) # {}
       THEN LET k == Longest(KeysAt(t, i)) IN ValueOf(k) \o FastFrom(t, i + Len(k))
       ELSE <<t[i]>> \o FastFrom(t, i + 1)
Fast(t) == FastFrom(t, 1)

\* replace_slow: anchored search at the character (longest key), else lower-case and/or NFKC
SlowChar(c) ==
  LET needLower == NeedsLower(c)
      needNfkc  == c \notin Exempt /\ ~QuickYes(c)
  IN IF ~needLower /\ ~needNfkc THEN <<c>>
     ELSE IF needLower /\ ~needNfkc THEN LowerOf(c)
     ELSE IF ~needLower /\ needNfkc THEN NfkcOf(<<c>>)
     ELSE NfkcOf(LowerOf(c))
RECURSIVE SlowFrom(_, _)
SlowFrom(t, i) ==
  IF i > Len(t) THEN <<>>
  ELSE IF KeysAt(t, i) # {}
       THEN LET k == Longest(KeysAt(t, i)) IN ValueOf(k) \o SlowFrom(t, i + Len(k))
       ELSE SlowChar(t[i]) \o SlowFrom(t, i + 1)
Slow(t) == SlowFrom(t, 1)

Rewrite(t) == IF NeedSlow(t) THEN Slow(t) ELSE Fast(t)

-----------------------------------------------------------------------------
\* prolonged sound marks: maximal runs of >= 2 marks -> the replacement symbol
RECURSIVE RunEnd(_, _, _)
RunEnd(t, i, marks) == IF i <= Len(t) /\ t[i] \in marks THEN RunEnd(t, i + 1, marks) ELSE i
RECURSIVE ProlongedFrom(_, _, _, _)
ProlongedFrom(t, i, marks, repl) ==
  IF i > Len(t) THEN <<>>
  ELSE LET e == RunEnd(t, i, marks) IN
       IF e - i >= 2 THEN repl \o ProlongedFrom(t, e, marks, repl)
       ELSE <<t[i]>> \o ProlongedFrom(t, i + 1, marks, repl)
Prolonged(t, marks, repl) == ProlongedFrom(t, 1, marks, repl)

\* yomigana: kind[i] is the set of roles character i can play, given as a sequence over {"K" kanji, "R" kana, "L" left bracket,
\* "B" right bracket}; a character of the class ALL is kanji and kana at once, a bracket may also be listed on both sides
Is(kind, i, r) == i >= 1 /\ i <= Len(kind) /\ \E j \in 1..Len(kind[i]) : kind[i][j] = r
\* a match starting at the kanji at i: kanji, left bracket, 1..n kana (as many as still allow the match), right bracket;
\* returns the index after the right bracket, or 0
YomiMatch(kind, i, n) ==
  IF Is(kind, i, "K") /\ Is(kind, i + 1, "L")
  THEN LET ks == {k \in 1..n : (\A j \in (i + 2)..(i + 1 + k) : Is(kind, j, "R")) /\ Is(kind, i + 2 + k, "B")} IN
       IF ks = {} THEN 0 ELSE i + 3 + (CHOOSE k \in ks : \A k2 \in ks : k2 <= k)
  ELSE 0
RECURSIVE YomiFrom(_, _, _, _)
YomiFrom(t, kind, i, n) ==
  IF i > Len(t) THEN <<>>
  ELSE LET m == YomiMatch(kind, i, n) IN
       IF m # 0 THEN <<t[i]>> \o YomiFrom(t, kind, m, n)
       ELSE <<t[i]>> \o YomiFrom(t, kind, i + 1, n)
Yomigana(t, kind, n) == YomiFrom(t, kind, 1, n)
=============================================================================
