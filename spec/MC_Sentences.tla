--------------------------------- MODULE MC_Sentences ---------------------------------
(* C16 on the model: every text up to MaxLen over characters standing for each kind the   *)
(* splitter distinguishes, window limits 1, 2, 3 and unbounded, lexicons over terminator-   *)
(* containing words, with and without the dictionary check.                                 *)
EXTENDS Sentences, Json

CONSTANTS MaxLen
\* 。 ? . ・ , （ ） a と っ で す あ space
Alphabet == {12290, 63, 46, 12539, 44, 65288, 65289, 97, 12392, 12387, 12391, 12377, 12354, 32}
Words == { <<12290>>, <<12354, 12290, 12354>>, <<97, 12290>>, <<12290, 12354>>, <<97, 46>> }
Limits == {1, 2, 3, 1000}

VARIABLES t, limit, lex, useLex
MInit == t = <<>> /\ limit = 1000 /\ lex = {} /\ useLex = FALSE
MGrow == /\ Len(t) < MaxLen /\ \E c \in Alphabet : t' = Append(t, c) /\ UNCHANGED <<limit, lex, useLex>>
MSet == /\ Len(t) = 0 /\ \E lm \in Limits, lx \in SUBSET Words, u \in BOOLEAN : limit' = lm /\ lex' = lx /\ useLex' = u /\ (u \/ lx = {}) /\ UNCHANGED t
MSpec == MInit /\ [][MGrow \/ MSet]_<<t, limit, lex, useLex>>

Rs == Split(t, limit, lex, useLex)
IsPartition == Partitions(t, Rs)
TerminatorBeforeBreak == BreaksAfterTerminators(t, Rs)
BracketsRespected == NoBreakInBrackets(t, Rs)
Converse == EndsAtFirstCandidate(t, Rs, limit, lex, useLex)
SetToSeq(S) == LET RECURSIVE G(_, _) G(r, acc) == IF r = {} THEN acc ELSE LET x == CHOOSE x \in r : TRUE IN G(r \ {x}, Append(acc, x)) IN G(S, <<>>)
Emit == Len(t) > 0 => PrintT(<<"REPLAY", ToJson([t |-> t, limit |-> limit, lex |-> SetToSeq(lex), uselex |-> useLex, ranges |-> Rs])>>)
=============================================================================
