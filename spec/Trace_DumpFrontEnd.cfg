SPECIFICATION TSpec
POSTCONDITION Report
CHECK_DEADLOCK FALSE
