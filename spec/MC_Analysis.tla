--------------------------------- MODULE MC_Analysis ---------------------------------
(* Bounded instance: every text <= MaxLen over {a, b}, every lexicon that is a subset of five keys (with a    *)
(* non-indexed twin), every word-start table, OOV policy = one single-character candidate where the          *)
(* provider is allowed to start (SimpleOov as the fallback).  The loop of Analysis is run to its end.         *)
(*   Complete: every segmentation of the text into candidate words - dictionary entries that match with a     *)
(*   permitted end, and the provider's candidates - is a path of inserted candidates: nothing is lost by      *)
(*   processing reachable positions only.                                                                    *)
EXTENDS Analysis

CONSTANTS MaxLen

A == 97
B == 98
Keys == << <<A>>, <<A, B>>, <<B>>, <<B, A>>, <<A, B, A>> >>
RECURSIVE SeqsUpTo(_)
SeqsUpTo(n) == IF n = 0 THEN {<<>>} ELSE LET S == SeqsUpTo(n - 1) IN S \cup {Append(s, c) : s \in {t \in S : Len(t) = n - 1}, c \in {A, B}}
Texts == SeqsUpTo(MaxLen) \ {<<>>}

\* lid -1 = not indexed; one dictionary
DictOf(S) == << [i \in 1..Len(Keys) |-> [key |-> Keys[i], lid |-> IF i \in S THEN 0 ELSE -1]] >>

MInit == /\ \E S \in SUBSET (1..Len(Keys)) : dicts = DictOf(S)
         /\ mod = <<>> /\ bow = <<>> /\ reach = {} /\ cur = -1 /\ lastDone = -1 /\ dictIns = {} /\ oovIns = {} /\ cands = {} /\ phase = "idle"

MStart == phase = "idle" /\ \E t \in Texts : \E f \in [1..Len(t) -> BOOLEAN] : f[1] /\ Start(t, f)
\* the fallback provider offers the single character at cur when nothing else was created (or always: both are explored)
MOov == \E always \in BOOLEAN : (always \/ DictCands(cur) = {}) /\ oovIns = {} /\ InsOov(cur + 1, 0)
MInsDict == \E c \in (IF cur >= 0 THEN DictCands(cur) ELSE {}) : InsDict(c[1], c[2], c[3])
MInsOov == cur >= 0 /\ MOov
MNext == \/ MStart
         \/ \E p \in 0..MaxLen : PosBegin(p)
         \/ MInsDict
         \/ MInsOov
         \/ PosDone \/ GiveUp
         \/ \E ok \in BOOLEAN : Close(ok)
MSpec == MInit /\ [][MNext]_avars

\* all candidate words of the text (independent of reachability)
AllDict == UNION { { [b |-> p, e |-> c[3], dic |-> c[1], word |-> c[2]] : c \in DictCands(p) } : p \in 0..(N - 1) }
\* a segmentation: a sequence of candidate words tiling 0..N; checked position by position
RECURSIVE Reachable(_, _)
\* positions reachable from 0 through words of set W
Reachable(W, R) == LET R2 == R \cup { w.e : w \in { x \in W : x.b \in R } } IN IF R2 = R THEN R ELSE Reachable(W, R2)

\* nothing lost: every dictionary candidate that starts at a position reachable by inserted candidates is inserted
Complete == phase = "closed" =>
              \A w \in AllDict : w.b \in Reachable(cands, {0}) => w \in cands
\* and the loop visits exactly the reachable positions
VisitedReachable == phase = "closed" => { c.b : c \in cands } = Reachable(cands, {0}) \ {N}
=============================================================================
