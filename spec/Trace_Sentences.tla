------------------------------- MODULE Trace_Sentences -------------------------------
(* Trace validation for C16 (`vh c16-run`): sent{t, limit, lex, uselex, res, ranges, slices} *)
EXTENDS Sentences, TraceIO

VARIABLES l
Ev == Rec[l]
TInit == l = 1

TrSent == /\ l <= NRec /\ Ev.ev = "sent"
          /\ Ev.res = "ok"                                                     \* terminates, on character boundaries, no panic
          /\ LET t == Ev.t  rs == Ev.ranges  lx == SeqToSet(Ev.lex) IN
             /\ Partitions(t, rs)
             /\ \A k \in 1..Len(rs) : Ev.slices[k] = SubSeq(t, rs[k][1] + 1, rs[k][2])       \* each equal to the text in its range
             /\ BreaksAfterTerminators(t, rs)
             /\ NoBreakInBrackets(t, rs)
             /\ EndsAtFirstCandidate(t, rs, Ev.limit, lx, Ev.uselex)
          /\ l' = l + 1
TSpec == TInit /\ [][TrSent]_l
=============================================================================
