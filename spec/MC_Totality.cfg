SPECIFICATION MSpec
CONSTANTS
  MaxLen = 49149
  ReallyMax = 65535
INVARIANTS TypeOK Emit
CHECK_DEADLOCK FALSE
