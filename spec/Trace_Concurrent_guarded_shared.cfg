SPECIFICATION TSpec
CONSTANTS
  Threads <- TraceThreads
  Texts <- TraceTexts
  MaxReads = 1
  MaxRuns = 1
  Variant = "guarded_shared"
INVARIANTS EveryResultSequential DictImmutable
POSTCONDITION Report
CHECK_DEADLOCK FALSE
