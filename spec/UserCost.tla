----------------------------------- MODULE UserCost -----------------------------------
(***************************************************************************)
(* Costs of user-dictionary words declared as -32768 ("compute when loading"):          *)
(* JapaneseDictionary::merge_user_dictionary -> Lexicon::update_cost.                    *)
(* While user dictionary k is merged, every such word is analysed (mode C, with all      *)
(* plugins) against the dictionary AS LOADED SO FAR (system + user dictionaries < k);    *)
(* its cost becomes                                                                      *)
(*     clamp_i16( total(last morpheme) - total(first morpheme) - 20 * #morphemes )       *)
(* Words with a declared cost keep it.  C02 recomputes path costs "from the dictionary's  *)
(* word parameters": this module says where those parameters come from for such words.   *)
(***************************************************************************)
EXTENDS Integers, Sequences, TLC

PerMorph == -20
Clamp(x) == IF x > 32767 THEN 32767 ELSE IF x < -32768 THEN -32768 ELSE x
\* totals: the cumulative costs of the morphemes of the inner analysis, in order
Assigned(totals) == Clamp(totals[Len(totals)] - totals[1] + PerMorph * Len(totals))

VARIABLES stage,      \* number of the user dictionary being merged (0: none yet)
          inner,      \* [text, totals] of the most recent inner analysis, or <<>> 
          assigned,   \* <<dic, word>> -> computed cost
          declared    \* <<dic, word>> -> declared cost (from the CSV source)
uvars == <<stage, inner, assigned, declared>>
Fn0 == [x \in {} |-> 0]
Put(f, k, v) == [x \in DOMAIN f \cup {k} |-> IF x = k THEN v ELSE f[x]]

UInit == stage = 0 /\ inner = <<>> /\ assigned = Fn0 /\ declared = Fn0

Declare(dic, word, key, cost) == /\ declared' = Put(declared, <<dic, word>>, [key |-> key, cost |-> cost])
                                 /\ UNCHANGED <<stage, inner, assigned>>

\* the analysis of a word's surface against the dictionary so far has finished
InnerAnalysis(text, totals) == /\ Len(totals) > 0
                               /\ inner' = <<[text |-> text, totals |-> totals]>>
                               /\ UNCHANGED <<stage, assigned, declared>>

\* set_cost(word, cost) of the dictionary being merged
SetCost(dic, word, cost) ==
  /\ <<dic, word>> \in DOMAIN declared /\ declared[<<dic, word>>].cost = -32768      \* only words that asked for it
  /\ <<dic, word>> \notin DOMAIN assigned                                            \* once
  /\ inner # <<>> /\ inner[1].text = declared[<<dic, word>>].key                     \* computed from the analysis of ITS surface
  /\ cost = Assigned(inner[1].totals)
  /\ assigned' = Put(assigned, <<dic, word>>, cost) /\ inner' = <<>>
  /\ UNCHANGED <<stage, declared>>

\* what the loaded dictionary reports for a user word afterwards
FinalCostOK(dic, word, cost) ==
  /\ <<dic, word>> \in DOMAIN declared
  /\ IF declared[<<dic, word>>].cost = -32768 THEN <<dic, word>> \in DOMAIN assigned /\ cost = assigned[<<dic, word>>]
                                              ELSE cost = declared[<<dic, word>>].cost

AssignedInRange == \A k \in DOMAIN assigned : assigned[k] >= -32768 /\ assigned[k] <= 32767
=============================================================================
