SPECIFICATION MSpec
CONSTANTS
  MaxLen = 4
  MinLength = 2
  Normalize = TRUE
INVARIANTS Terminates NumericIsMerge KatakanaIsMerge Emit
CHECK_DEADLOCK FALSE
