SPECIFICATION MSpec
CONSTANTS
  MaxLen = 3
  MaxOps = 4
INVARIANTS NoStaleRead LoadedCoversRequest Emit
CHECK_DEADLOCK FALSE
