SPECIFICATION MSpec
CONSTANTS
  HasSyn = TRUE
  Lens = {1}
INVARIANTS RoundTrip SubsetStable Emit
CHECK_DEADLOCK FALSE
