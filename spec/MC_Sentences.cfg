SPECIFICATION MSpec
CONSTANTS
  MaxLen = 2
INVARIANTS IsPartition TerminatorBeforeBreak BracketsRespected Converse Emit
CHECK_DEADLOCK FALSE
