----------------------------------- MODULE Totality -----------------------------------
(***************************************************************************)
(* C03: tokenization as a total function with an outcome algebra.               *)
(*                                                                         *)
(* An analysis is offered a text of nbytes bytes; input-text plugins rewrite it   *)
(* to final bytes; the outcome is "ok" (a morpheme list all of whose accessors    *)
(* can be called), "toolong" (the documented input-too-long error) or "err"       *)
(* (another error value).  "panic" is not in the type.                            *)
(*                                                                         *)
(*   nbytes <= MaxLen /\ final <= ReallyMax /\ fallback OOV provider  => "ok"     *)
(*   nbytes > MaxLen \/ final > ReallyMax                            => "toolong" *)
(***************************************************************************)
EXTENDS Integers, Sequences, TLC

CONSTANTS MaxLen, ReallyMax        \* 49149 and 65535 in the code

VARIABLES phase, nbytes, final, fallback, outcome, touched
vars == <<phase, nbytes, final, fallback, outcome, touched>>

Init == phase = "idle" /\ nbytes = 0 /\ final = 0 /\ fallback = TRUE /\ outcome = "none" /\ touched = FALSE

Expected(n, f, fb) == IF n > MaxLen \/ f > ReallyMax THEN {"toolong"}
                      ELSE IF fb THEN {"ok"} ELSE {"ok", "err"}

\* one analysis: the rewritten length is meaningful only when the original length was accepted
Analyse(n, f, fb, res) ==
  /\ res \in Expected(n, IF n > MaxLen THEN 0 ELSE f, fb)
  /\ phase' = "analysed" /\ nbytes' = n /\ final' = f /\ fallback' = fb /\ outcome' = res /\ touched' = FALSE

\* every accessor of every returned morpheme, and the split API, can be called
Touch(res) == /\ phase = "analysed" /\ outcome = "ok" /\ res = "ok"
              /\ touched' = TRUE /\ UNCHANGED <<phase, nbytes, final, fallback, outcome>>

TypeOK == outcome \in {"none", "ok", "toolong", "err"}
=============================================================================
