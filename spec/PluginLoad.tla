--------------------------------- MODULE PluginLoad ---------------------------------
(***************************************************************************)
(* Loading a configuration (JapaneseDictionary::from_cfg_storage) as a step  *)
(* with an outcome, for the parameters that reach the connection matrix      *)
(* (C20).  The matrix has NumL x NumR cells conn[a][b]; the analysis reads    *)
(* conn[left_node.right_id][right_node.left_id], so a provider's rightId is   *)
(* bounded by NumL and its leftId by NumR.                                    *)
(*                                                                         *)
(* cfg = [kind, nl, nr, lid, rid, cost, pos, upos]  (provider settings or a   *)
(*       line of the unknown-word definition file), or                        *)
(*       [kind |-> "inhibit", nl, nr, l, r]                                   *)
(* C20: Load = ok only if every id indexes the matrix, the cost fits i16 and  *)
(*      the POS exists or user POS are allowed; otherwise err (never panic);   *)
(*      an inhibited pair edits exactly conn[l][r].                           *)
(***************************************************************************)
EXTENDS Integers, Sequences, FiniteSets, TLC

VARIABLES cfg, outcome, changed, probed
pvars == <<cfg, outcome, changed, probed>>

Fits16(c) == -32768 <= c /\ c <= 32767

InRange(c) ==
  IF c.kind = "inhibit"
  THEN 0 <= c.l /\ c.l < c.nl /\ 0 <= c.r /\ c.r < c.nr
  ELSE /\ 0 <= c.rid /\ c.rid < c.nl          \* right id: first index
       /\ 0 <= c.lid /\ c.lid < c.nr          \* left id: second index
       /\ Fits16(c.cost)
       \* the part of speech exists (all six components equal those of a POS of the dictionary), or it is a well-formed
       \* six-component POS that does not exist and user-defined POS are allowed; a list of another arity never names a POS
       /\ (c.pos = "known" \/ (c.pos = "unknown" /\ c.upos = "allow"))

NoCfg == [kind |-> "none"]

Init == cfg = NoCfg /\ outcome = "none" /\ changed = {} /\ probed = FALSE

\* loading: ok only if in range
Load(c, res) ==
  /\ res \in {"ok", "err"}
  /\ (res = "ok") => InRange(c)
  /\ cfg' = c /\ outcome' = res /\ changed' = {} /\ probed' = FALSE

\* the set of matrix cells whose value differs after loading (only the inhibit plugin edits)
Edit(cells) ==
  /\ outcome = "ok" /\ ~probed
  /\ IF cfg.kind = "inhibit" THEN cells \subseteq { <<cfg.l, cfg.r>> } ELSE cells = {}
  /\ changed' = cells /\ UNCHANGED <<cfg, outcome, probed>>

\* "no accepted configuration can make analysis index outside the connection matrix"
Probe(res) ==
  /\ outcome = "ok"
  /\ res = "ok"
  /\ probed' = TRUE /\ UNCHANGED <<cfg, outcome, changed>>
=============================================================================
