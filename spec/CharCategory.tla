------------------------------ MODULE CharCategory ------------------------------
(***************************************************************************)
(* Character classes (sudachi/src/dic/character_category.rs).              *)
(*                                                                         *)
(* A definition file is a sequence of lines [lo, hi, cats]: the inclusive  *)
(* code point range lo..hi carries the set of classes cats.  The loader    *)
(* reads the lines one by one (ReadLine), then compiles them (Compile)     *)
(* into a boundary table + one class set per elementary interval that is   *)
(* searched by bisection (Lookup).                                         *)
(*                                                                         *)
(* C17: for every code point the looked-up classes are the union of the    *)
(* classes of all covering lines, or {DEFAULT} when no line covers it.     *)
(***************************************************************************)
EXTENDS Naturals, Sequences, FiniteSets, TLC

CONSTANTS MaxCp,        \* code points are 0..MaxCp
          Classes,      \* the classes a line may name (DEFAULT is not among them in MC)
          DEFAULT,      \* the fall-back class
          MaxLines      \* bound on the number of definition lines (MC only)

VARIABLES defs,         \* lines read so far
          phase,        \* "reading" | "compiled"
          bounds,       \* compiled: strictly increasing sequence of boundaries
          cats          \* compiled: cats[i] is the class set of [bounds[i-1], bounds[i]); Len = Len(bounds)+1

vars == <<defs, phase, bounds, cats>>

-----------------------------------------------------------------------------
(* The property side: what the definition file MEANS.                      *)
Covering(ds, cp) == { i \in 1..Len(ds) : ds[i].lo <= cp /\ cp <= ds[i].hi }
Expected(ds, cp) == IF Covering(ds, cp) = {} THEN {DEFAULT}
                    ELSE UNION { ds[i].cats : i \in Covering(ds, cp) }

-----------------------------------------------------------------------------
(* The implementation side, transcribed: compile() and get_category_types() *)
SetToSortedSeq(S) ==            \* increasing enumeration of a finite set of naturals
  LET RECURSIVE Go(_, _)
      Go(rest, acc) == IF rest = {} THEN acc
                       ELSE LET m == CHOOSE x \in rest : \A y \in rest : x <= y
                            IN Go(rest \ {m}, Append(acc, m))
  IN Go(S, <<>>)

\* collect_boundaries: every begin and every (exclusive) end
BoundarySet(ds) == { ds[i].lo : i \in 1..Len(ds) } \cup { ds[i].hi + 1 : i \in 1..Len(ds) }

\* raw[i], i in 1..Len(b): classes OR-ed into the interval ending at b[i]
\* (the interval [b[i-1], b[i]); raw[1] is "before the first boundary" and stays empty)
RawCats(ds, b) ==
  [ i \in 1..Len(b) |->
      UNION { ds[k].cats : k \in { k \in 1..Len(ds) :
                 /\ i > 1
                 /\ ds[k].lo <= b[i-1]          \* start_idx = index(begin)+1 <= i
                 /\ b[i] <= ds[k].hi + 1 } } ]   \* loop runs while boundaries[i] <= range.end

\* merge successive intervals with equal raw classes, keep the last boundary of each group
RECURSIVE MergeFrom(_, _, _, _, _, _)
MergeFrom(b, raw, i, lastB, lastC, acc) ==
  IF i > Len(b) THEN [bs |-> Append(acc.bs, lastB), cs |-> Append(acc.cs, lastC)]
  ELSE IF raw[i] = lastC THEN MergeFrom(b, raw, i + 1, b[i], lastC, acc)
  ELSE MergeFrom(b, raw, i + 1, b[i], raw[i],
                 [bs |-> Append(acc.bs, lastB), cs |-> Append(acc.cs, lastC)])

CompileDefs(ds) ==
  IF Len(ds) = 0 THEN [bs |-> <<>>, cs |-> << {DEFAULT} >>]
  ELSE LET b    == SetToSortedSeq(BoundarySet(ds))
           raw0 == RawCats(ds, b)
           raw  == [raw0 EXCEPT ![1] = {DEFAULT}]
           m    == MergeFrom(b, raw, 2, b[1], raw[1], [bs |-> <<>>, cs |-> <<>>])
           fix  == [ i \in 1..Len(m.cs) |-> IF m.cs[i] = {} THEN {DEFAULT} ELSE m.cs[i] ]
       IN [bs |-> m.bs, cs |-> Append(fix, {DEFAULT})]

\* bisection: exact hit on boundary k -> slot k+1, else insertion index
LookupIn(bs, cs, cp) ==
  LET below == { k \in 1..Len(bs) : bs[k] <= cp }     \* boundaries at or below cp
  IN cs[Cardinality(below) + 1]

-----------------------------------------------------------------------------
Line == [lo : 0..MaxCp, hi : 0..MaxCp, cats : (SUBSET Classes) \ {{}}]

Init == defs = <<>> /\ phase = "reading" /\ bounds = <<>> /\ cats = << {DEFAULT} >>

ReadLine(d) == /\ phase = "reading"
               /\ Len(defs) < MaxLines
               /\ d.lo <= d.hi
               /\ defs' = Append(defs, d)
               /\ UNCHANGED <<phase, bounds, cats>>

Compile == /\ phase = "reading"
           /\ LET c == CompileDefs(defs) IN bounds' = c.bs /\ cats' = c.cs
           /\ phase' = "compiled"
           /\ UNCHANGED defs

Next == (\E d \in Line : ReadLine(d)) \/ Compile

Spec == Init /\ [][Next]_vars

-----------------------------------------------------------------------------
TypeOK == /\ phase \in {"reading", "compiled"}
          /\ Len(cats) = Len(bounds) + 1

\* C17 on the compiled form
UnionOfCovering ==
  phase = "compiled" => \A cp \in 0..(MaxCp + 1) : LookupIn(bounds, cats, cp) = Expected(defs, cp)

\* structural facts the iterator relies on
CompiledShape ==
  phase = "compiled" =>
     /\ \A i \in 1..(Len(bounds) - 1) : bounds[i] < bounds[i+1]
     /\ \A i \in 1..Len(cats) : cats[i] # {}
=============================================================================
