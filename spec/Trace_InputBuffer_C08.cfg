SPECIFICATION TSpec
CONSTANTS
  MaxLen = 49149
  ReallyMaxLen = 65535
  Check = "C08"
INVARIANTS TypeOK MapOK
POSTCONDITION Report
CHECK_DEADLOCK FALSE
