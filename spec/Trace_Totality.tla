------------------------------- MODULE Trace_Totality -------------------------------
(* Trace validation for C03 (`vh c03-record`, `vh c03-replay`):                                   *)
(*   tok{world, fallback, nbytes, final, final_known, res, touch, tiles, covered, has_model, mfinal, expect}    *)
(* One event is one analysis on the real tokenizer.  `final` is the length the code itself         *)
(* reports (the rewritten text of a success, the offending length of an input-too-long error);     *)
(* for the limit compositions enumerated by MC_Totality `mfinal`/`expect` are the model's own      *)
(* arithmetic and the two must agree.                                                              *)
EXTENDS Totality, TraceIO

VARIABLES l
Ev == Rec[l]
TInit == Init /\ l = 1

TrTok == /\ l <= NRec /\ Ev.ev = "tok"
         /\ Ev.res \in {"ok", "toolong", "err"}                           \* a panic is not in the type
         /\ \E f \in (IF Ev.final_known THEN {Ev.final} ELSE {0, ReallyMax + 1}) :      \* an unlogged rewritten length is inferred
               Analyse(Ev.nbytes, f, Ev.fallback, Ev.res)
         /\ Ev.res = "toolong" => \/ (Ev.nbytes > MaxLen /\ Ev.final = Ev.nbytes)      \* refused before any work
                                  \/ (Ev.nbytes <= MaxLen /\ Ev.final > ReallyMax)   \* refused on the rewritten length
         /\ Ev.res = "ok" => /\ Ev.touch = "ok"                             \* Touch: every accessor and the split API
                             /\ Ev.tiles
                             /\ \/ Ev.covered = Ev.nbytes                  \* not a truncated result
                                \/ Ev.final_known /\ Ev.final = 0 /\ Ev.n = 0  \* "only an input whose normalised form is empty yields no morphemes"
         /\ Ev.has_model => /\ Ev.res = Ev.expect
                            /\ (Ev.nbytes <= MaxLen /\ Ev.final_known) => Ev.final = Ev.mfinal
         /\ l' = l + 1
TSpec == TInit /\ [][TrTok]_<<vars, l>>
=============================================================================
