------------------------------- MODULE MC_DictBuild -------------------------------
(* Enumeration of the fault space for C06: a lexicon of two rows (row 1 fixed and   *)
(* valid, row 2 = the target) and a matrix text, each field of the target and the   *)
(* matrix in one of its defect classes, at most MaxDefects fields away from the     *)
(* defaults.  Every combination is emitted and fed to the real compiler by          *)
(* `vh c06-run`; the outcome algebra of DictBuild is explored alongside.            *)
(* u<n>: n ASCII letters (n bytes, n UTF-16 units), w<n>: n three-byte letters - the lengths on both sides of the one-byte /    *)
(* two-byte length prefix, where a writer and a reader that disagree produce a dictionary that was "compiled" but cannot be read  *)
(* "wide" classes: the malformed value is longer than 32 bytes and made of multi-    *)
(* byte characters ("mixed": after one ASCII letter), so that anything that cuts,    *)
(* pads or quotes the offending text at a byte offset meets the middle of a character *)
EXTENDS DictBuild, Json

CONSTANTS MaxDefects

FieldClasses == [
  lid    |-> {"0", "max", "size", "-1", "-2", "32767", "32768", "x", "empty", "xwide", "xmixed"},
  rid    |-> {"0", "max", "size", "-1", "32767", "x", "xwide"},
  cost   |-> {"0", "32767", "-32768", "32768", "x", "xwide", "xmixed", "huge"},
  key    |-> {"ok", "empty", "long", "toolong", "badescape", "escape", "u126", "u127", "u128", "u129", "w127", "w128"},
  head   |-> {"same", "other", "toolong", "u127", "u128"},
  dic    |-> {"*", "self", "other", "dangling", "uref", "neg", "xwide"},
  mode   |-> {"A", "C", "bad", "badwide"},
  splita |-> {"*", "ids", "dangling", "inline_ok", "inline_bad", "n127", "n128", "garbage", "garbagewide", "inline_wide"},
  ws     |-> {"*", "ids", "dangling", "n128", "garbagewide"},
  syn    |-> {"*", "ids", "n127", "n128", "x", "absent", "xwide", "huge"},
  arity  |-> {"full", "short17", "short5", "extra"},
  matrix |-> {"2x2", "2x3", "3x2", "emptyfile", "blank", "headeronly", "badheader", "negsize", "cell_at_size", "cell_beyond",
              "cell_neg", "shortline", "garbage", "dup", "0x0", "cellwide", "headerwide", "coordwide"} ]

Defaults == [lid |-> "0", rid |-> "0", cost |-> "0", key |-> "ok", head |-> "same", dic |-> "*", mode |-> "A", splita |-> "*",
             ws |-> "*", syn |-> "*", arity |-> "full", matrix |-> "2x2"]

VARIABLES cls
mvars == <<bvars, cls>>

NDefects(c) == Cardinality({ f \in DOMAIN c : c[f] # Defaults[f] })

MInit == Init /\ cls = Defaults

MSet == /\ phase = "idle"
        /\ \E f \in DOMAIN FieldClasses : \E v \in FieldClasses[f] :
              /\ cls[f] = Defaults[f] /\ v # Defaults[f]
              /\ NDefects(cls) < MaxDefects
              /\ cls' = [cls EXCEPT ![f] = v]
        /\ UNCHANGED bvars

\* the outcome algebra: every outcome the specification allows for an offered input
MCompile == \E res \in {"ok", "err"} : Compile(res, -1) /\ UNCHANGED cls

MNext == MSet \/ MCompile
MSpec == MInit /\ [][MNext]_mvars

NoPanicType == outcome \in {"none", "ok", "err"}
Emit == (phase = "idle") => PrintT(<<"REPLAY", ToJson(cls)>>)
=============================================================================
