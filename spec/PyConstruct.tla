----------------------------------- MODULE PyConstruct -----------------------------------
(***************************************************************************)
(* sudachipy.Dictionary(config_path, resource_dir, dict, dict_type, *, config): which     *)
(* system dictionary a construction ends up with, or that it is refused                    *)
(* (python/src/dictionary.rs PyDictionary::new, read_config, locate_system_dict;           *)
(*  py_src/sudachipy/__init__.py _find_dict_path).  From the docstring:                    *)
(*   - config and config_path together are refused;                                       *)
(*   - a configuration may be a JSON text, a path to a file, or a sudachipy.Config object;*)
(*   - dict (deprecated alias: dict_type, which draws a DeprecationWarning) wins over the  *)
(*     configuration's systemDict; it is an existing file or one of small / core / full,   *)
(*     which name the installed packages sudachidict_<kind>;                               *)
(*   - with no system dictionary named anywhere (or a directory) sudachidict_core is used; *)
(*   - a systemDict spelled small / core / full in the configuration is such an alias too. *)
(* Behaviour beyond the listed properties: bound as drift, not gating.                      *)
(***************************************************************************)
EXTENDS Integers, Sequences, FiniteSets, TLC

Kinds == {"small", "core", "full"}
NoneV == "none"

\* a scenario:
\*   how    "none" | "config" | "config_path" | "both"          which keyword carries the configuration
\*   form   "json" | "file" | "missing" | "obj" | "int"          what is passed there (missing: a path that does not exist; int: not a configuration at all)
\*   fsys   "absent" | "A" | "nofile" | "dir" | a kind           the systemDict entry of that configuration (A: an existing dictionary file)
\*   dict, dictType   "none" | "B" | "nofile" | a kind           (B: an existing dictionary file)
\*   installed  the set of kinds whose package can be imported

Pkg(k) == "pkg_" \o k

\* a name given as dict / dict_type -> [ok, sys]
Locate(name, installed) ==
  IF name = "B" THEN [ok |-> TRUE, sys |-> "B"]
  ELSE IF name \in Kinds THEN (IF name \in installed THEN [ok |-> TRUE, sys |-> Pkg(name)] ELSE [ok |-> FALSE, sys |-> NoneV])
  ELSE [ok |-> FALSE, sys |-> NoneV]                    \* neither a file nor a known kind

Construct(s) ==
  LET bad == [res |-> "err", sys |-> NoneV, warn |-> FALSE]
      cfgGiven == s.how \in {"config", "config_path"}
      sel == IF s.dict # NoneV THEN s.dict ELSE s.dictType
      loc == Locate(sel, s.installed)
      fromCfg == IF cfgGiven /\ s.fsys # "absent" THEN s.fsys ELSE NoneV       \* the packaged default names no dictionary
      named == IF sel # NoneV THEN loc.sys ELSE fromCfg
      warn == s.dictType # NoneV                                                 \* issued once the named dictionary was located
  IN IF s.how = "both" THEN bad
     ELSE IF cfgGiven /\ s.form \in {"missing", "int"} THEN bad
     ELSE IF sel # NoneV /\ ~loc.ok THEN bad
     ELSE IF named \in {NoneV, "dir"} THEN (IF "core" \in s.installed THEN [res |-> "ok", sys |-> Pkg("core"), warn |-> warn] ELSE [bad EXCEPT !.warn = warn])
     ELSE IF named \in Kinds THEN (IF named \in s.installed THEN [res |-> "ok", sys |-> Pkg(named), warn |-> warn] ELSE [bad EXCEPT !.warn = warn])
     ELSE IF named = "nofile" THEN [bad EXCEPT !.warn = warn]                    \* loading fails
     ELSE [res |-> "ok", sys |-> named, warn |-> warn]

\* ---------------------------------------------------------------- what the documentation promises, as properties of Construct
ArgumentWins(s) == (Construct(s).res = "ok" /\ (s.dict # NoneV \/ s.dictType # NoneV)) =>
                      Construct(s).sys = Locate(IF s.dict # NoneV THEN s.dict ELSE s.dictType, s.installed).sys
DefaultIsCore(s) == (Construct(s).res = "ok" /\ s.dict = NoneV /\ s.dictType = NoneV /\ (s.how = "none" \/ s.fsys = "absent")) => Construct(s).sys = Pkg("core")
NeverBoth(s) == s.how = "both" => Construct(s).res = "err"
OnlyInstalled(s) == \A k \in Kinds : (Construct(s).res = "ok" /\ Construct(s).sys = Pkg(k)) => k \in s.installed
=============================================================================
