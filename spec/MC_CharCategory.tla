---------------------------- MODULE MC_CharCategory ----------------------------
(* Bounded instance of CharCategory for TLC; also emits one REPLAY line per   *)
(* compiled definition file so the behaviours can be stepped through the real *)
(* CharacterCategory::from_reader / get_category_types / iter.                *)
EXTENDS CharCategory, Json, TLCExt

\* orders of lines do not matter for the property; the generator still keeps all
\* orders (the compiled form must not depend on them).
Emit ==
  phase = "compiled" =>
     PrintT(<<"REPLAY", ToJson([defs |-> [i \in 1..Len(defs) |->
                                   [lo |-> defs[i].lo, hi |-> defs[i].hi,
                                    cats |-> SetToSortedSeq(defs[i].cats)]],
                                lookup |-> [cp \in 1..(MaxCp + 2) |->
                                    SetToSortedSeq(LookupIn(bounds, cats, cp - 1))],
                                bounds |-> bounds])>>)
=============================================================================
