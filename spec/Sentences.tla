----------------------------------- MODULE Sentences -----------------------------------
(***************************************************************************)
(* Sentence splitting (sentence_detector.rs get_eos, NonBreakChecker,            *)
(* sentence_splitter.rs SentenceIter).  Texts are sequences of code points;      *)
(* lex is the set of dictionary words (sequences of code points).                *)
(*                                                                         *)
(* A CANDIDATE is the end of a terminator group: a full stop / question or       *)
(* exclamation mark / ellipsis, three or more middle dots, a period that is not   *)
(* between alphanumerics, each followed by further periods and full stops; or two *)
(* or more line-break tags.  A candidate is extended over closing brackets,       *)
(* commas and terminators that follow it.  It is VETOED inside an unclosed        *)
(* bracket, for an itemisation header, before a quoting particle, and inside a     *)
(* multi-character dictionary word that contains or ends with the terminator.      *)
(* The first unvetoed candidate within the window of `limit` characters ends the   *)
(* sentence; without one the sentence is the rest of the text.                     *)
(***************************************************************************)
EXTENDS Integers, Sequences, FiniteSets, TLC, Utf8

Periods == {12290, 65311, 65281, 9834, 8230, 63, 33}
Dots == {46, 65294}
CDot == 12539
Commas == {44, 65292, 12289}
Opens == {40, 123, 65371, 91, 65288, 12300, 12304, 12302, 65339, 8810, 12308, 8220}
Closes == {41, 125, 93, 65289, 12301, 65373, 12305, 12303, 65341, 12309, 8811, 8221}
KanjiNums == {12295, 19968, 20108, 19977, 22235, 20116, 20845, 19971, 20843, 20061, 21313, 30334, 21315, 19975, 20740, 20806}
IsAlnum(c) == \/ (97 <= c /\ c <= 122) \/ (65 <= c /\ c <= 90) \/ (48 <= c /\ c <= 57)
              \/ (65345 <= c /\ c <= 65370) \/ (65313 <= c /\ c <= 65338) \/ (65296 <= c /\ c <= 65305)
              \/ c \in KanjiNums
BrLower == <<60, 98, 114, 62>>
BrUpper == <<60, 66, 82, 62>>

At(s, i) == IF i >= 1 /\ i <= Len(s) THEN s[i] ELSE -1
StartsWith(s, i, w) == i + Len(w) - 1 <= Len(s) /\ \A k \in 1..Len(w) : s[i + k - 1] = w[k]

RECURSIVE RunWhile(_, _, _)
RunWhile(s, i, S) == IF i <= Len(s) /\ s[i] \in S THEN RunWhile(s, i + 1, S) ELSE i    \* first index >= i not in S
RECURSIVE BrRun(_, _, _)
BrRun(s, i, n) == IF StartsWith(s, i, BrLower) \/ StartsWith(s, i, BrUpper) THEN BrRun(s, i + 4, n + 1) ELSE <<i, n>>

\* end (exclusive index) of the terminator group starting at i, or 0
GroupEnd(s, i) ==
  LET c == At(s, i) IN
  IF c \in Periods THEN RunWhile(s, i + 1, Dots \cup Periods)
  ELSE IF c = CDot /\ RunWhile(s, i, {CDot}) - i >= 3 THEN RunWhile(s, RunWhile(s, i, {CDot}), Dots \cup Periods)
  ELSE IF c \in Dots /\ ~IsAlnum(At(s, i - 1)) /\ ~(IsAlnum(At(s, i + 1)) \/ At(s, i + 1) \in Commas)
       THEN RunWhile(s, i + 1, Dots \cup Periods)
  ELSE LET br == BrRun(s, i, 0) IN IF br[2] >= 2 THEN br[1] ELSE 0

\* leftmost, non-overlapping groups: sequence of group ends (exclusive indices)
RECURSIVE GroupsFrom(_, _, _)
GroupsFrom(s, i, acc) ==
  IF i > Len(s) THEN acc
  ELSE LET e == GroupEnd(s, i) IN IF e # 0 THEN GroupsFrom(s, e, Append(acc, e)) ELSE GroupsFrom(s, i + 1, acc)
Groups(s) == GroupsFrom(s, 1, <<>>)

\* bracket depth of s[1..k], never below zero
RECURSIVE Depth(_, _, _, _)
Depth(s, i, k, d) == IF i > k THEN d
                     ELSE IF s[i] \in Opens THEN Depth(s, i + 1, k, d + 1)
                     ELSE IF s[i] \in Closes /\ d > 0 THEN Depth(s, i + 1, k, d - 1)
                     ELSE Depth(s, i + 1, k, d)

Extend(s, e) == RunWhile(s, e, Closes \cup Commas \cup Periods)       \* e: exclusive end index; result likewise

ItemizeHeader(s) == Len(s) = 2 /\ IsAlnum(s[1]) /\ s[2] \in Dots

\* e = exclusive end index of the sentence candidate (e <= Len(s)); looks at the character before e and after it
ContinuousPhrase(s, e) ==
  LET last == s[e - 1] next == At(s, e) IN
  \/ (last \in ({65281, 65311, 33, 63} \cup Closes)
        /\ (next = 12392 \/ next = 12387 \/ (next = 12391 /\ At(s, e + 1) = 12377)))
  \/ (next \in {12392, 12420, 12398} /\ e - 2 >= 1 /\ s[e - 1] \in Dots /\ IsAlnum(s[e - 2]))

\* a dictionary word that starts within the 30 bytes before the candidate and runs over it, or ends exactly
\* on it and is longer than one character
WordVeto(s, e, lex) ==
  LET off == Off(s)
      eosByte == off[e]
      from == IF eosByte > 30 THEN eosByte - 30 ELSE 0
  IN \E i \in 1..(e - 1) : off[i] >= from /\
        \E w \in lex : /\ Len(w) > 0 /\ StartsWith(s, i, w)
                       /\ (i + Len(w) > e \/ (i + Len(w) = e /\ Len(w) > 1))

\* s: the window; full: the whole remaining text (the dictionary look-up is not cut at the window)
Vetoed(s, full, g, lex, useLex) ==    \* g: group end (exclusive index) inside the window s
  LET e == IF g <= Len(s) THEN Extend(s, g) ELSE g IN
  \/ Depth(s, 1, g - 1, 0) > 0
  \/ ItemizeHeader(s)
  \/ (e <= Len(s) /\ ContinuousPhrase(s, e))
  \/ (useLex /\ WordVeto(full, e, lex))

\* number of characters of the first sentence of s within the window, or 0 if there is no unvetoed candidate
FirstBreak(s, limit, lex, useLex) ==
  LET w == SubSeq(s, 1, IF Len(s) < limit THEN Len(s) ELSE limit)
      gs == Groups(w)
      ok == { k \in 1..Len(gs) : ~Vetoed(w, s, gs[k], lex, useLex) }
  IN IF ok = {} THEN 0
     ELSE LET k == CHOOSE k \in ok : \A j \in ok : k <= j IN Extend(w, gs[k]) - 1

\* the iterator: sequence of <<begin, end>> character ranges (0-based, end exclusive)
RECURSIVE SplitFrom(_, _, _, _, _, _)
SplitFrom(t, p, limit, lex, useLex, acc) ==
  IF p >= Len(t) THEN acc
  ELSE LET n == FirstBreak(SubSeq(t, p + 1, Len(t)), limit, lex, useLex) IN
       IF n = 0 THEN Append(acc, <<p, Len(t)>>)
       ELSE SplitFrom(t, p + n, limit, lex, useLex, Append(acc, <<p, p + n>>))
Split(t, limit, lex, useLex) == SplitFrom(t, 0, limit, lex, useLex, <<>>)

-----------------------------------------------------------------------------
\* C16, as properties of ANY sequence of ranges rs offered as the sentences of t
Partitions(t, rs) ==
  /\ (Len(t) = 0) <=> (Len(rs) = 0)
  /\ Len(rs) > 0 => rs[1][1] = 0 /\ rs[Len(rs)][2] = Len(t)
  /\ \A k \in 1..Len(rs) : rs[k][1] < rs[k][2]                           \* non-empty
  /\ \A k \in 1..(Len(rs) - 1) : rs[k][2] = rs[k + 1][1]                  \* contiguous

\* a non-last sentence ends with a terminator group followed by closing brackets, commas, terminators
EndsWithTerminator(s) ==
  \E g \in { Groups(s)[k] : k \in 1..Len(Groups(s)) } : Extend(s, g) = Len(s) + 1
BreaksAfterTerminators(t, rs) ==
  \A k \in 1..(Len(rs) - 1) : EndsWithTerminator(SubSeq(t, rs[k][1] + 1, rs[k][2]))

\* no break inside an unclosed bracket pair (depth counted from the start of the sentence)
NoBreakInBrackets(t, rs) ==
  \A k \in 1..(Len(rs) - 1) : LET s == SubSeq(t, rs[k][1] + 1, rs[k][2]) IN Depth(s, 1, Len(s), 0) = 0

\* every sentence ends at the first unvetoed candidate of its window when there is one; otherwise it is the rest of
\* the text (what the code does) or ends at an unvetoed candidate beyond the window
EndsAtFirstCandidate(t, rs, limit, lex, useLex) ==
  \A k \in 1..Len(rs) :
     LET rest == SubSeq(t, rs[k][1] + 1, Len(t))
         n == FirstBreak(rest, limit, lex, useLex)
     IN IF n # 0 THEN rs[k][2] = rs[k][1] + n
        ELSE rs[k][2] = Len(t) \/ (\E m \in 1..Len(rest) : FirstBreak(rest, m, lex, useLex) = rs[k][2] - rs[k][1])
=============================================================================
