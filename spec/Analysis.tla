----------------------------------- MODULE Analysis -----------------------------------
(***************************************************************************)
(* The lattice-building loop of an analysis (StatefulTokenizer::build_lattice) as the     *)
(* composition of the dictionary index, the word-start table and the lattice:             *)
(*                                                                         *)
(*   for every character position p in order, ONLY IF some candidate ends at p (or p = 0):  *)
(*      insert every indexed dictionary entry whose key is a prefix of the text at p and    *)
(*      whose end is the end of the text or a permitted word start  (each exactly once),    *)
(*      then let the OOV providers add candidates starting at p;                            *)
(*   connect the end of the text.                                                         *)
(*                                                                         *)
(* C02 speaks about "any other sequence of candidate words covering the normalised text":   *)
(* this module fixes what the candidate words ARE and shows that skipping unreachable       *)
(* positions loses no segmentation (Complete), so that optimality over the lattice          *)
(* (Lattice.tla) is optimality over all segmentations.                                      *)
(***************************************************************************)
EXTENDS Integers, Sequences, FiniteSets, TLC

VARIABLES dicts,      \* sequence of dictionaries, each a sequence of [key, lid]  (word number = index - 1)
          mod,        \* the rewritten text (code points)
          bow,        \* bow[i]: a word may start at character i (1-based)
          reach,      \* character positions at which some inserted candidate ends (and 0)
          cur,        \* position being processed, -1 outside the loop body
          lastDone,   \* last position whose processing finished
          dictIns,    \* dictionary candidates inserted at cur: <<dic, word, e>>
          oovIns,     \* ends of the OOV candidates inserted at cur
          cands,      \* all inserted candidates [b, e, dic, word] (dic = -1: OOV)
          phase       \* "idle" | "loop" | "closed" | "failed"
avars == <<dicts, mod, bow, reach, cur, lastDone, dictIns, oovIns, cands, phase>>

N == Len(mod)

IsPrefixAt(k, p) == p + Len(k) <= N /\ \A i \in 1..Len(k) : mod[p + i] = k[i]
EndOK(e) == e = N \/ bow[e + 1]

\* the dictionary candidates of position p: exactly the indexed prefix matches with a permitted end
Matches(d, p) == { w \in 1..Len(dicts[d]) : dicts[d][w].lid >= 0 /\ Len(dicts[d][w].key) > 0
                                            /\ IsPrefixAt(dicts[d][w].key, p) /\ EndOK(p + Len(dicts[d][w].key)) }
DictCands(p) == UNION { { <<d - 1, w - 1, p + Len(dicts[d][w].key)>> : w \in Matches(d, p) } : d \in 1..Len(dicts) }

AInit == /\ dicts = <<>> /\ mod = <<>> /\ bow = <<>> /\ reach = {} /\ cur = -1 /\ lastDone = -1
         /\ dictIns = {} /\ oovIns = {} /\ cands = {} /\ phase = "idle"

Start(text, flags) == /\ mod' = text /\ bow' = flags /\ reach' = {0} /\ cur' = -1 /\ lastDone' = -1
                      /\ dictIns' = {} /\ oovIns' = {} /\ cands' = {} /\ phase' = "loop" /\ UNCHANGED dicts

\* positions strictly between the last finished one and p were skipped: none of them is reachable
SkippedUnreachable(p) == \A q \in (lastDone + 1)..(p - 1) : q \notin reach

PosBegin(p) == /\ phase = "loop" /\ cur = -1 /\ p > lastDone /\ p < N
               /\ p \in reach /\ SkippedUnreachable(p)
               /\ cur' = p /\ dictIns' = {} /\ oovIns' = {}
               /\ UNCHANGED <<dicts, mod, bow, reach, lastDone, cands, phase>>

InsDict(dic, word, e) == /\ phase = "loop" /\ cur >= 0 /\ oovIns = {}            \* dictionary words first
                         /\ <<dic, word, e>> \in DictCands(cur) \ dictIns           \* a prescribed candidate, not a second time
                         /\ dictIns' = dictIns \cup {<<dic, word, e>>}
                         /\ reach' = reach \cup {e}
                         /\ cands' = cands \cup {[b |-> cur, e |-> e, dic |-> dic, word |-> word]}
                         /\ UNCHANGED <<dicts, mod, bow, cur, lastDone, oovIns, phase>>

InsOov(e, pos) == /\ phase = "loop" /\ cur >= 0 /\ e > cur /\ e <= N
                  /\ dictIns = DictCands(cur)                                        \* every dictionary candidate is in before any provider runs
                  /\ oovIns' = oovIns \cup {e} /\ reach' = reach \cup {e}
                  /\ cands' = cands \cup {[b |-> cur, e |-> e, dic |-> -1, word |-> pos]}
                  /\ UNCHANGED <<dicts, mod, bow, cur, lastDone, dictIns, phase>>

PosDone == /\ phase = "loop" /\ cur >= 0
           /\ dictIns = DictCands(cur)
           /\ dictIns # {} \/ oovIns # {}                                          \* a processed position never stays without a candidate
           /\ lastDone' = cur /\ cur' = -1
           /\ UNCHANGED <<dicts, mod, bow, reach, dictIns, oovIns, cands, phase>>

\* end of the loop: the remaining positions are unreachable; connected iff some candidate ends at N
Close(ok) == /\ phase = "loop" /\ cur = -1
             /\ SkippedUnreachable(N)
             /\ ok = (N \in reach)
             /\ phase' = IF ok THEN "closed" ELSE "failed"
             /\ UNCHANGED <<dicts, mod, bow, reach, cur, lastDone, dictIns, oovIns, cands>>

\* a position without any candidate: the loop gives up with EosBosDisconnect
GiveUp == /\ phase = "loop" /\ cur >= 0 /\ dictIns = DictCands(cur) /\ dictIns = {} /\ oovIns = {}
          /\ phase' = "failed" /\ UNCHANGED <<dicts, mod, bow, reach, cur, lastDone, dictIns, oovIns, cands>>
=============================================================================
