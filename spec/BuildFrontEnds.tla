--------------------------------- MODULE BuildFrontEnds ---------------------------------
(***************************************************************************)
(* The dictionary compiler has three front ends over one DictBuilder:                   *)
(*   lib     DictBuilder driven directly (the oracle, what DictBuild/DictRecord model)   *)
(*   cli     `sudachi build -m MATRIX -o OUT [-d DESC] LEX...`, `sudachi ubuild -s SYS`  *)
(*   python  sudachipy.build_system_dic / build_user_dic                                 *)
(* For the same sources (matrix text, the lexicon files in order, description) every      *)
(* front end has the outcome of the library and, on success, writes a dictionary whose    *)
(* body (everything after the header: grammar, index, word parameters, word infos) is     *)
(* byte-identical to the library's, with the given description in the header and the      *)
(* version of its kind.  The header's creation time is the only free field.               *)
(***************************************************************************)
EXTENDS Integers, Sequences, TLC

VARIABLES lib       \* job id -> [res, body, version]   what the library produced for the sources of that job
fvars == <<lib>>
Fn0 == [x \in {} |-> 0]
Put(f, k, v) == [x \in DOMAIN f \cup {k} |-> IF x = k THEN v ELSE f[x]]
FInit == lib = Fn0

LibBuild(job, res, body, version) == lib' = Put(lib, job, [res |-> res, body |-> body, version |-> version])

\* desc: the description asked for; hdesc: the one found in the written header
FrontEndBuild(job, res, body, version, desc, hdesc) ==
  /\ job \in DOMAIN lib
  /\ res = lib[job].res                                   \* accepted or refused alike (a refusal is an error exit / an exception)
  /\ res = "ok" => /\ body = lib[job].body
                   /\ version = lib[job].version
                   /\ hdesc = desc
  /\ UNCHANGED lib
=============================================================================
