---------------------------------- MODULE Numeral ----------------------------------
(***************************************************************************)
(* What a written numeral MEANS (C15) - defined structurally, independently  *)
(* of the accumulator state machine of NumericParser: the string is split at  *)
(* its large units (man, oku, cho), each part at its small units (ju, hyaku,  *)
(* sen), each coefficient is a digit string with optional thousands           *)
(* separators and fraction.  Every digit gets a decimal position; the value   *)
(* is rendered from the positions.                                            *)
(*                                                                         *)
(*   WellFormed(s)   s is a numeral in this grammar (units strictly decreasing,*)
(*                   separators every three digits, no dangling point, parts   *)
(*                   fitting below the preceding unit)                         *)
(*   Decimal(s)      its decimal rendering (separators removed, units          *)
(*                   expanded, trailing fractional zeros dropped, leading      *)
(*                   zeros of plain digit strings kept)                        *)
(*   Malformed(s)    bad separator positions / dangling point / units out of   *)
(*                   order - must never be joined                              *)
(***************************************************************************)
EXTENDS Integers, Sequences, FiniteSets, TLC

Comma == 44
Point == 46
KanjiDigits == <<12295, 19968, 20108, 19977, 22235, 20116, 20845, 19971, 20843, 20061>>
IsArabic(c) == 48 <= c /\ c <= 57
IsKanjiDigit(c) == \E i \in 1..10 : KanjiDigits[i] = c
IsDigit(c) == IsArabic(c) \/ IsKanjiDigit(c)
DigitVal(c) == IF IsArabic(c) THEN c - 48 ELSE (CHOOSE i \in 1..10 : KanjiDigits[i] = c) - 1
SmallExp(c) == CASE c = 21313 -> 1 [] c = 30334 -> 2 [] c = 21315 -> 3 [] OTHER -> 0
LargeExp(c) == CASE c = 19975 -> 4 [] c = 20740 -> 8 [] c = 20806 -> 12 [] OTHER -> 0
IsSmall(c) == SmallExp(c) > 0
IsLarge(c) == LargeExp(c) > 0
IsNumeralChar(c) == IsDigit(c) \/ IsSmall(c) \/ IsLarge(c) \/ c = Comma \/ c = Point

\* split s at the characters satisfying Sep: sequence of [body, sep] with sep = 0 for the tail
IsSep(kind, c) == IF kind = "large" THEN IsLarge(c) ELSE IsSmall(c)
RECURSIVE SplitFrom(_, _, _, _, _)
SplitFrom(s, i, cur, acc, kind) ==
  IF i > Len(s) THEN Append(acc, [body |-> cur, sep |-> 0])
  ELSE IF IsSep(kind, s[i]) THEN SplitFrom(s, i + 1, <<>>, Append(acc, [body |-> cur, sep |-> s[i]]), kind)
  ELSE SplitFrom(s, i + 1, Append(cur, s[i]), acc, kind)
SplitLarge(s) == SplitFrom(s, 1, <<>>, <<>>, "large")
SplitSmall(s) == SplitFrom(s, 1, <<>>, <<>>, "small")

-----------------------------------------------------------------------------
\* a coefficient: digits with optional thousands separators and optional fraction
PointPositions(t) == { i \in 1..Len(t) : t[i] = Point }
IntPart(t) == IF PointPositions(t) = {} THEN t ELSE SubSeq(t, 1, (CHOOSE i \in PointPositions(t) : TRUE) - 1)
FracPart(t) == IF PointPositions(t) = {} THEN <<>> ELSE SubSeq(t, (CHOOSE i \in PointPositions(t) : TRUE) + 1, Len(t))
AllDigits(t) == \A i \in 1..Len(t) : IsDigit(t[i])
Strip(t) == LET idx == { i \in 1..Len(t) : t[i] # Comma } IN [k \in 1..Cardinality(idx) |-> t[CHOOSE i \in idx : Cardinality({ j \in idx : j < i }) = k - 1]]
Vals(t) == [i \in 1..Len(t) |-> DigitVal(t[i])]

\* separators: a first group of 1-3 digits that is not all zeros, then groups of exactly three digits
CommasOK(ip) ==
  LET cs == { i \in 1..Len(ip) : ip[i] = Comma } IN
  IF cs = {} THEN AllDigits(ip) /\ Len(ip) > 0
  ELSE LET first == CHOOSE i \in cs : \A j \in cs : i <= j IN
       /\ first >= 2 /\ first <= 4
       /\ \E i \in 1..(first - 1) : IsDigit(ip[i]) /\ DigitVal(ip[i]) # 0
       \* a separator exactly at every fourth position from the first one, digits everywhere else
       /\ \A i \in 1..Len(ip) : IF i >= first /\ (i - first) % 4 = 0 THEN i \in cs ELSE (i \notin cs /\ IsDigit(ip[i]))
       /\ (Len(ip) - first) % 4 = 3

CoefOK(t) == /\ Len(t) > 0 /\ Cardinality(PointPositions(t)) <= 1
             /\ CommasOK(IntPart(t))
             /\ (PointPositions(t) # {} => Len(FracPart(t)) > 0 /\ AllDigits(FracPart(t)))

CoefInt(t) == Vals(Strip(IntPart(t)))
CoefFrac(t) == Vals(FracPart(t))

-----------------------------------------------------------------------------
\* A placement is a function from decimal positions (0 = ones, negative = fraction) to digits.
\* digits d (most significant first) whose least significant digit sits at position low
Place(d, low) == [p \in low..(low + Len(d) - 1) |-> d[Len(d) - (p - low)]]
Lowest(pl) == CHOOSE p \in DOMAIN pl : \A q \in DOMAIN pl : p <= q
Highest(pl) == CHOOSE p \in DOMAIN pl : \A q \in DOMAIN pl : q <= p
Merge(a, b) == [p \in (DOMAIN a) \cup (DOMAIN b) |-> IF p \in DOMAIN a THEN a[p] ELSE b[p]]
Bad == [bad |-> TRUE]
Good(pl) == [bad |-> FALSE, pl |-> pl]

\* value of a coefficient times 10^e: int digits from position e up, fraction digits below
CoefPlacement(t, e) ==
  LET id == CoefInt(t) fd == CoefFrac(t) IN Place(id \o fd, e - Len(fd))

\* a small group: terms "coef? unit" with strictly decreasing units, then an optional final coefficient
\* fits(pl, acc): strict = entirely below everything placed so far; lenient = no position used twice
Fits(pl, acc, strict) == \/ DOMAIN acc = {}
                         \/ IF strict THEN Highest(pl) < Lowest(acc) ELSE (DOMAIN pl) \cap (DOMAIN acc) = {}
RECURSIVE SmallFrom(_, _, _, _, _)
SmallFrom(segs, k, prevExp, acc, strict) ==      \* acc: placement so far (may be empty function)
  IF k > Len(segs) THEN Good(acc)
  ELSE LET sg == segs[k] IN
       IF sg.sep = 0
       THEN IF Len(sg.body) = 0 THEN (IF k = 1 THEN Bad ELSE Good(acc))
            ELSE IF ~CoefOK(sg.body) THEN Bad
            ELSE LET pl == CoefPlacement(sg.body, 0) IN
                 IF ~Fits(pl, acc, strict) THEN Bad ELSE Good(Merge(acc, pl))
       ELSE LET e == SmallExp(sg.sep) IN
            IF strict /\ e >= prevExp THEN Bad                        \* units out of order / doubled
            ELSE IF Len(sg.body) > 0 /\ ~CoefOK(sg.body) THEN Bad
            ELSE LET pl == IF Len(sg.body) = 0 THEN Place(<<1>>, e) ELSE CoefPlacement(sg.body, e) IN
                 IF ~Fits(pl, acc, strict) THEN Bad
                 ELSE SmallFrom(segs, k + 1, e, Merge(acc, pl), strict)
SmallValue(g, strict) == SmallFrom(SplitSmall(g), 1, 4, <<>>, strict)

Shift(pl, e) == [p \in { q + e : q \in DOMAIN pl } |-> pl[p - e]]
IsZeroPl(pl) == \A p \in DOMAIN pl : pl[p] = 0

RECURSIVE LargeFrom(_, _, _, _, _)
LargeFrom(segs, k, prevExp, acc, strict) ==
  IF k > Len(segs) THEN Good(acc)
  ELSE LET sg == segs[k] IN
       IF sg.sep = 0
       THEN IF Len(sg.body) = 0 THEN (IF k = 1 THEN Bad ELSE Good(acc))
            ELSE LET v == SmallValue(sg.body, strict) IN
                 IF v.bad THEN Bad
                 ELSE IF ~Fits(v.pl, acc, strict) THEN Bad ELSE Good(Merge(acc, v.pl))
       ELSE LET e == LargeExp(sg.sep) IN
            IF (strict /\ e >= prevExp) \/ Len(sg.body) = 0 THEN Bad   \* out of order, or a large unit without coefficient
            ELSE LET v == SmallValue(sg.body, strict) IN
                 IF v.bad \/ (strict /\ IsZeroPl(v.pl)) THEN Bad
                 ELSE LET pl == Shift(v.pl, e) IN
                      IF ~Fits(pl, acc, strict) THEN Bad
                      ELSE LargeFrom(segs, k + 1, e, Merge(acc, pl), strict)
Value(s) == LargeFrom(SplitLarge(s), 1, 16, <<>>, TRUE)
\* additive reading: the digits of every term at their decimal positions, whatever the order of the units,
\* provided no position is written twice (the only value a joined numeral may take)
AddValue(s) == LargeFrom(SplitLarge(s), 1, 16, <<>>, FALSE)

HasUnit(s) == \E i \in 1..Len(s) : IsSmall(s[i]) \/ IsLarge(s[i])
\* coefficients of unit numerals do not start with a zero digit (leading zeros are kept only in plain digit strings)
NoLeadingZeroCoef(s) ==
  \A i \in 1..Len(s) : (IsDigit(s[i]) /\ DigitVal(s[i]) = 0 /\ (i = 1 \/ ~(IsDigit(s[i-1]) \/ s[i-1] = Comma \/ s[i-1] = Point)))
                          => (i < Len(s) /\ s[i+1] = Point)

WellFormed(s) == /\ Len(s) > 0 /\ \A i \in 1..Len(s) : IsNumeralChar(s[i])
                 /\ ~Value(s).bad
                 /\ (HasUnit(s) => NoLeadingZeroCoef(s))

\* rendering of a placement: all positions from the highest down to min(0, lowest); missing positions are 0
RECURSIVE RenderDigits(_, _, _)
RenderDigits(pl, hi, lo) == IF hi < lo THEN <<>> ELSE <<48 + (IF hi \in DOMAIN pl THEN pl[hi] ELSE 0)>> \o RenderDigits(pl, hi - 1, lo)
RECURSIVE DropTrailingZeros(_)
DropTrailingZeros(t) == IF Len(t) > 0 /\ t[Len(t)] = 48 THEN DropTrailingZeros(SubSeq(t, 1, Len(t) - 1)) ELSE t
RenderPl(pl) ==
  LET hi == IF Highest(pl) < 0 THEN 0 ELSE Highest(pl)
      ip == RenderDigits(pl, hi, 0)
      fp == IF Lowest(pl) < 0 THEN DropTrailingZeros(RenderDigits(pl, -1, Lowest(pl))) ELSE <<>>
  IN IF Len(fp) > 0 THEN ip \o <<Point>> \o fp ELSE ip
AddDecimal(s) == RenderPl(AddValue(s).pl)
DecimalOld(s) ==
  LET pl == Value(s).pl
      hi == IF Highest(pl) < 0 THEN 0 ELSE Highest(pl)
      ip == RenderDigits(pl, hi, 0)
      fp == IF Lowest(pl) < 0 THEN DropTrailingZeros(RenderDigits(pl, -1, Lowest(pl))) ELSE <<>>
  IN IF Len(fp) > 0 THEN ip \o <<Point>> \o fp ELSE ip
Decimal(s) == RenderPl(Value(s).pl)

-----------------------------------------------------------------------------
\* malformed groupings named by the property
DanglingPoint(s) == \E i \in 1..Len(s) : s[i] = Point /\ (i = 1 \/ i = Len(s) \/ ~IsDigit(s[i-1]) \/ ~IsDigit(s[i+1]))
DoublePoint(s) == \E i, j \in 1..Len(s) : i < j /\ s[i] = Point /\ s[j] = Point /\ \A k \in (i+1)..(j-1) : IsDigit(s[k]) \/ s[k] = Comma
BadSeparator(s) ==
  \E i \in 1..Len(s) : s[i] = Comma /\
     ( i = 1 \/ ~IsDigit(s[i-1])                                          \* nothing before it
       \/ ~(i + 3 <= Len(s) /\ IsDigit(s[i+1]) /\ IsDigit(s[i+2]) /\ IsDigit(s[i+3]))   \* not followed by three digits
       \/ (i + 4 <= Len(s) /\ IsDigit(s[i+4]))                            \* followed by more than three digits
       \/ (i >= 5 /\ IsDigit(s[i-1]) /\ IsDigit(s[i-2]) /\ IsDigit(s[i-3]) /\ IsDigit(s[i-4]))   \* more than three digits before it
       \/ (\E j \in 1..(i-1) : s[j] = Point /\ \A k \in (j+1)..(i-1) : IsDigit(s[k]) \/ s[k] = Comma) )   \* inside the fraction
UnitsOutOfOrder(s) ==
  \/ \E i, j \in 1..Len(s) : i < j /\ IsLarge(s[i]) /\ IsLarge(s[j]) /\ LargeExp(s[j]) >= LargeExp(s[i])
  \/ \E i, j \in 1..Len(s) : i < j /\ IsSmall(s[i]) /\ IsSmall(s[j]) /\ SmallExp(s[j]) >= SmallExp(s[i])
                              /\ \A k \in (i+1)..(j-1) : ~IsLarge(s[k])
Malformed(s) == /\ Len(s) > 0 /\ \A i \in 1..Len(s) : IsNumeralChar(s[i])
                /\ (DanglingPoint(s) \/ DoublePoint(s) \/ BadSeparator(s) \/ UnitsOutOfOrder(s))
=============================================================================
