--------------------------------- MODULE MC_Bindings ---------------------------------
(* Bounded instance of Bindings: every history of <= MaxCalls API calls on two tokenizers (mode C with all    *)
(* fields, mode A with the field request {surface})                                                          *)
(* over a fabricated oracle: text 1 analyses to two morphemes (the first has two A-units in mode C),       *)
(* text 9 is refused (too long); one lookup key.  ModeIsStable and OneTarget are checked on all of them;   *)
(* every complete history is emitted and executed on the real extension with real texts (pydrv).           *)
EXTENDS Bindings, Json

CONSTANTS MaxCalls

VARIABLES hist, nlists, nh
mvars == <<bvars, hist, nlists, nh>>

T1 == <<1>>
TL == <<9>>
\* the restricted field request of tokenizer 1 (its mode A adds the A units); what is read depends on the request
F1 == {"surface", "split_a"}
Tag(f) == IF f = AllFields THEN "all" ELSE "restricted"
Unit(t, m, i, k, f) == [id |-> <<t, m, i, k, Tag(f)>>, splits |-> <<<<>>, <<>>, <<>>>>]
Morph(t, m, i, f) == [id |-> <<t, m, i, Tag(f)>>, splits |-> <<IF m = 2 /\ i = 1 THEN <<Unit(t, m, i, 1, f), Unit(t, m, i, 2, f)>> ELSE <<>>, <<>>, <<>>>>]
Answer(t, m, f) == IF t = TL THEN [res |-> "err", ms |-> <<>>]
                   ELSE [res |-> "ok", ms |-> IF m = 2 THEN <<Morph(t, m, 1, f), Morph(t, m, 2, f)>> ELSE <<Morph(t, m, 1, f), Morph(t, m, 2, f), Morph(t, m, 3, f)>>]

Oracle == [k \in {T1, TL} \X {0, 1, 2} \X {AllFields, F1} |-> Answer(k[1], k[2], k[3])]
\* a looked-up entry is read with all fields and has A units (like a tokenized compound)
LookupOracle == [k \in {T1} |-> [res |-> "ok", ms |-> <<[id |-> <<T1, 7, 1, "all">>, splits |-> <<<<Unit(T1, 7, 1, 1, AllFields), Unit(T1, 7, 1, 2, AllFields)>>, <<>>, <<>>>>]>>]]

MInit == /\ libTok = Oracle /\ libLookup = LookupOracle
         /\ tks = (0 :> [mode |-> 2, fields |-> AllFields, proj |-> "surface"]) @@ (1 :> [mode |-> 0, fields |-> F1, proj |-> "surface"])
         /\ lists = Fn0 /\ handles = Fn0 /\ nextInp = 1
         /\ hist = <<>> /\ nlists = 0 /\ nh = 0

Outs == {None} \cup DOMAIN lists
Log(r) == hist' = Append(hist, r)

MTokenize == Len(hist) < MaxCalls /\ \E tk \in {0, 1}, t \in {T1, TL}, ov \in {None, 0}, out \in Outs, res \in {"ok", "err"} :
               /\ Tokenize(tk, t, ov, out, nlists, res)
               /\ Log([op |-> "tokenize", tk |-> tk, text |-> t, mode |-> ov, out |-> out, new |-> nlists, res |-> res])
               /\ nlists' = (IF out = None THEN nlists + 1 ELSE nlists) /\ UNCHANGED nh
MSplit == Len(hist) < MaxCalls /\ \E l \in DOMAIN lists, idx \in {0, 5}, out \in Outs, add \in BOOLEAN, res \in {"ok", "err"} :
               /\ lists[l].valid
               /\ Split(l, idx, 0, out, nlists, add, res)
               /\ Log([op |-> "split", list |-> l, idx |-> idx, mode |-> 0, out |-> out, new |-> nlists, add_single |-> add, res |-> res])
               /\ nlists' = (IF out = None THEN nlists + 1 ELSE nlists) /\ UNCHANGED nh
MLookup == Len(hist) < MaxCalls /\ \E out \in Outs, res \in {"ok"} :
               /\ Lookup(T1, out, nlists, res)
               /\ Log([op |-> "lookup", text |-> T1, out |-> out, new |-> nlists, res |-> res])
               /\ nlists' = (IF out = None THEN nlists + 1 ELSE nlists) /\ UNCHANGED nh
MHold == Len(hist) < MaxCalls /\ \E l \in DOMAIN lists, idx \in {0, 1}, res \in {"ok", "err"} :
               /\ lists[l].valid
               /\ Hold(nh, l, idx, res)
               /\ Log([op |-> "hold", h |-> nh, list |-> l, idx |-> idx, res |-> res])
               /\ nh' = nh + 1 /\ UNCHANGED nlists

MNext == MTokenize \/ MSplit \/ MLookup \/ MHold
MSpec == MInit /\ [][MNext]_mvars

\* the creation modes are the modes, whatever was overridden and whatever failed
ModesKept == tks[0].mode = 2 /\ tks[1].mode = 0
\* a valid list holds an answer of the oracle, units of one of its morphemes, one of its morphemes, or nothing
Top == UNION {{libTok[k].ms[i] : i \in 1..Len(libTok[k].ms)} : k \in DOMAIN libTok} \cup UNION {{libLookup[k].ms[i] : i \in 1..Len(libLookup[k].ms)} : k \in DOMAIN libLookup}
Units(m) == UNION {{m.splits[j][i] : i \in 1..Len(m.splits[j])} : j \in 1..3}
AllMorphs == Top \cup UNION {Units(m) : m \in Top}
Holds(l) == LET ms == lists[l].ms IN
            \/ ms = <<>>
            \/ \E k \in DOMAIN libTok : ms = libTok[k].ms
            \/ \E k \in DOMAIN libLookup : ms = libLookup[k].ms
            \/ \E m \in AllMorphs : ms = m.splits[1] \/ ms = <<m>>
ValidListsHoldAnswers == \A l \in DOMAIN lists : lists[l].valid => Holds(l)
\* lists that share an analysed text with a reused list are the only ones invalidated
InvalidOnlyByShare == \A l \in DOMAIN lists : ~lists[l].valid => \E o \in DOMAIN lists : o # l /\ lists[o].inp = lists[l].inp

Emit == Len(hist) = MaxCalls => PrintT(<<"REPLAY", ToJson([ops |-> hist])>>)
=============================================================================
