---------------------------------- MODULE DumpFrontEnd ----------------------------------
(***************************************************************************)
(* `sudachi dump DICT PART OUT` (sudachi-cli/src/build.rs dump_part): the textual dump  *)
(* of a compiled SYSTEM dictionary is a function of what the library reads back from     *)
(* the same file (the oracle, recorded by `vh c05-libdump` through Grammar / LexiconSet): *)
(*   pos     one line per POS: its six components joined by ','                          *)
(*   matrix  "<left> <right>" then one line "l r cost" per cell, left index outermost    *)
(*   winfo   one line per word of the system lexicon in word-id order:                   *)
(*           left,right,cost,headword,head_word_length,normalized,dictionary-form id,    *)
(*           reading,A units,B units,word structure,synonym groups                       *)
(*           (ids joined by '/', an id of a user dictionary prefixed by 'U')             *)
(* This is behaviour beyond the listed properties: disagreement is reported as drift.    *)
(***************************************************************************)
EXTENDS Integers, Sequences, TLC

LF == 10
RECURSIVE Join(_, _)
Join(ss, sep) == IF ss = <<>> THEN <<>> ELSE IF Len(ss) = 1 THEN ss[1] ELSE ss[1] \o sep \o Join(Tail(ss), sep)
RECURSIVE Flat(_)
Flat(ss) == IF ss = <<>> THEN <<>> ELSE ss[1] \o Flat(Tail(ss))
RECURSIVE Digits(_)
Digits(n) == IF n < 10 THEN <<48 + n>> ELSE Digits(n \div 10) \o <<48 + (n % 10)>>
Dec(n) == IF n < 0 THEN <<45>> \o Digits(-n) ELSE Digits(n)

VARIABLES libd       \* job -> what the library reads from the compiled dictionary
dvars == <<libd>>
Fn0 == [x \in {} |-> 0]
Put(f, k, v) == [x \in DOMAIN f \cup {k} |-> IF x = k THEN v ELSE f[x]]
DInit == libd = Fn0

\* ---------------------------------------------------------------- the three renderings
DumpPos(pos) == Flat([i \in 1..Len(pos) |-> Join(pos[i], <<44>>) \o <<LF>>])

\* conn is row-major with the LEFT index outermost: conn[l * nr + r + 1] = cost(l, r)
Cell(l, r, c) == Dec(l) \o <<32>> \o Dec(r) \o <<32>> \o Dec(c) \o <<LF>>
Cells(nl, nr, conn) == Flat([k \in 1..(nl * nr) |-> Cell((k - 1) \div nr, (k - 1) % nr, conn[k])])
Header(nl, nr) == Dec(nl) \o <<32>> \o Dec(nr)
\* the code writes the size header WITHOUT a line break (dump_matrix: write!(w, "{} {}", ...)); a header line is accepted as well
DumpMatrixSet(nl, nr, conn) == {Header(nl, nr) \o Cells(nl, nr, conn), Header(nl, nr) \o <<LF>> \o Cells(nl, nr, conn)}

Wid(w) == (IF w[1] = 0 THEN <<>> ELSE <<85>>) \o Dec(w[2])          \* <<dictionary, word>>
Wids(ws) == Join([i \in 1..Len(ws) |-> Wid(ws[i])], <<47>>)
Gids(gs) == Join([i \in 1..Len(gs) |-> Dec(gs[i])], <<47>>)
WordLine(w) == Join(<<Dec(w.l), Dec(w.r), Dec(w.c), w.surface, Dec(w.hwl), w.norm, Dec(w.dfw), w.reading,
                      Wids(w.a), Wids(w.b), Wids(w.ws), Gids(w.syn)>>, <<44>>) \o <<LF>>
DumpWinfo(words) == Flat([i \in 1..Len(words) |-> WordLine(words[i])])

\* ---------------------------------------------------------------- actions
LibDump(job, d) == libd' = Put(libd, job, d)

FrontEndDump(job, part, exit, out) ==
  /\ job \in DOMAIN libd
  /\ exit = 0
  /\ LET d == libd[job] IN
     CASE part = "pos" -> out = DumpPos(d.pos)
       [] part = "matrix" -> out \in DumpMatrixSet(d.nl, d.nr, d.conn)
       [] part = "winfo" -> out = DumpWinfo(d.words)
  /\ UNCHANGED libd
=============================================================================
