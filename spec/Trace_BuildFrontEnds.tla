------------------------------ MODULE Trace_BuildFrontEnds ------------------------------
(* libbuild{job, res, body, version}  fe_build{job, fe, res, body, version, desc, hdesc}        *)
(* body is the SHA-256 of the bytes after the 272-byte header, computed by the check script.   *)
EXTENDS BuildFrontEnds, TraceIO
VARIABLES l
Ev == Rec[l]
TInit == FInit /\ l = 1
TrLib == /\ l <= NRec /\ Ev.ev = "libbuild" /\ LibBuild(Ev.job, Ev.res, Ev.body, Ev.version) /\ l' = l + 1
TrFe == /\ l <= NRec /\ Ev.ev = "fe_build" /\ FrontEndBuild(Ev.job, Ev.res, Ev.body, Ev.version, Ev.desc, Ev.hdesc) /\ l' = l + 1
TSpec == TInit /\ [][TrLib \/ TrFe]_<<fvars, l>>
=============================================================================
