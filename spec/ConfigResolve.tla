----------------------------------- MODULE ConfigResolve -----------------------------------
(***************************************************************************)
(* How a configuration is put together and how relative resource names are resolved         *)
(* (sudachi/src/config.rs: Config::new, ConfigBuilder::build / fallback, complete_path) -     *)
(* the `-r/-p/-l` options of the command-line tool and Dictionary(config_path,                *)
(* resource_dir, dict) of the Python binding end here.                                        *)
(*                                                                         *)
(*  precedence    argument > configuration file > built-in default, field by field            *)
(*  anchors       the file's "path" entry, then the resource directory (argument or default),  *)
(*                then the directory of the configuration file; no anchor twice               *)
(*  resolution    an absolute name is itself; otherwise the first anchor under which the       *)
(*                name exists; otherwise the name relative to the working directory if it      *)
(*                exists there; otherwise an error                                            *)
(***************************************************************************)
EXTENDS Integers, Sequences, FiniteSets, TLC

NoneV == "<none>"       \* an absent optional value

\* first defined value
Or(a, b) == IF a # NoneV THEN a ELSE b

\* field-wise fallback of two raw configurations (records with the same fields)
Fallback(a, b) == [f \in DOMAIN a |-> Or(a[f], b[f])]

RECURSIVE Dedup(_)
Dedup(s) == IF s = <<>> THEN <<>>
            ELSE LET r == Dedup(SubSeq(s, 1, Len(s) - 1)) x == s[Len(s)] IN
                 IF \E i \in 1..Len(r) : r[i] = x THEN r ELSE Append(r, x)

\* file: the raw record read from the configuration file (fields path, systemDict, charDef; NoneV when absent), fileDir: its directory
\* argRes / argDict: the arguments (NoneV when not given); defRes: the built-in resource directory
Anchors(file, fileDir, argRes, defRes) ==
  Dedup(SelectSeq(<<file.path, Or(argRes, defRes), fileDir>>, LAMBDA x : x # NoneV))

SystemDict(file, argDict) == Or(argDict, file.systemDict)
CharDef(file) == Or(file.charDef, "char.def")

\* exists: set of <<directory, name>> that exist ("" = the working directory); abs: the name is absolute
Resolve(name, abs, anchors, exists) ==
  IF abs THEN [res |-> "ok", dir |-> "<abs>"]
  ELSE LET hits == { i \in 1..Len(anchors) : <<anchors[i], name>> \in exists } IN
       IF hits # {} THEN [res |-> "ok", dir |-> anchors[CHOOSE i \in hits : \A j \in hits : i <= j]]
       ELSE IF <<"", name>> \in exists THEN [res |-> "ok", dir |-> ""]
       ELSE [res |-> "err", dir |-> NoneV]

\* ---------------------------------------------------------------- properties of the design (checked by TLC over a small universe)
\* an argument always wins; without it the file's value; the resource argument replaces the default anchor
ArgumentWins(file, argDict) == argDict # NoneV => SystemDict(file, argDict) = argDict
\* resolution never picks a later anchor when an earlier one has the file
FirstAnchorWins(name, anchors, exists) ==
  LET r == Resolve(name, FALSE, anchors, exists) IN
  \A i \in 1..Len(anchors) : <<anchors[i], name>> \in exists =>
     r.res = "ok" /\ \E j \in 1..i : anchors[j] = r.dir
=============================================================================
