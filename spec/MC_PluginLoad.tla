------------------------------- MODULE MC_PluginLoad -------------------------------
(* Exhaustive boundary enumeration for C20: every provider kind x matrix shape x each *)
(* parameter at the boundary values {-1, 0, n-1, n, n+1, 32767, 32768, 65535, 65536}. *)
EXTENDS PluginLoad, Json

CONSTANTS Full        \* TRUE: full cross product of lid x rid; FALSE: one parameter off its default at a time (+ pairs)

Shapes == { <<1, 1>>, <<2, 3>>, <<3, 2>>, <<10, 10>> }
Bound(n) == {-1, 0, n - 1, n, n + 1, 32767, 32768, 65535, 65536}
Costs == {-32769, -32768, 0, 32767, 32768}
Kinds == {"simple", "regex", "mecab"}

Provider(k, s, lid, rid, cost, pos, upos) ==
  [kind |-> k, nl |-> s[1], nr |-> s[2], lid |-> lid, rid |-> rid, cost |-> cost, pos |-> pos, upos |-> upos]

B2(s) == Bound(s[1]) \cup Bound(s[2])
ConfigsFor(s) ==
  { Provider(k, s, lid, rid, 100, "known", "forbid") : k \in Kinds, lid \in B2(s), rid \in (IF Full THEN B2(s) ELSE {0}) }
  \cup { Provider(k, s, 0, rid, 100, "known", "forbid") : k \in Kinds, rid \in B2(s) }
  \cup { Provider(k, s, 0, 0, c, p, u) : k \in Kinds, c \in Costs, p \in {"known", "unknown"}, u \in {"allow", "forbid", "absent"} }
  \cup { Provider(k, s, 0, 0, 100, p, u) : k \in Kinds \ {"mecab"}, p \in {"short", "long", "empty"}, u \in {"allow", "forbid", "absent"} }
  \* (lists of another arity only where the POS is a JSON list; unk.def lines are cut to their first six POS columns by the file format)
  \cup { [kind |-> "inhibit", nl |-> s[1], nr |-> s[2], l |-> a, r |-> b] : a \in B2(s), b \in B2(s) }
Configs == UNION { ConfigsFor(s) : s \in Shapes }

MLoad == /\ cfg = NoCfg /\ \E c \in Configs, res \in {"ok", "err"} : Load(c, res)
MEdit == \E cells \in SUBSET (IF cfg.kind = "inhibit" THEN {<<cfg.l, cfg.r>>} ELSE {}) : Edit(cells)
MProbe == Probe("ok")
MNext == MLoad \/ MEdit \/ MProbe
MSpec == Init /\ [][MNext]_pvars

\* the consequence stated by the property, on the model: an accepted configuration never indexes outside
AcceptedIsSafe == (outcome = "ok" /\ cfg.kind # "inhibit") =>
                     (cfg.rid \in 0..(cfg.nl - 1) /\ cfg.lid \in 0..(cfg.nr - 1))
Emit == (outcome = "err" \/ outcome = "ok") /\ ~probed /\ changed = {} => (outcome = "ok" \/ PrintT(<<"REPLAY", ToJson(cfg)>>))
=============================================================================
