------------------------------------ MODULE Split ------------------------------------
(***************************************************************************)
(* A/B splitting (analysis/node.rs NodeSplitIterator, stateless_tokenizer.rs   *)
(* split_path, mlist.rs split_into).                                          *)
(*                                                                         *)
(* dict[d+1][w+1] = [key, a, b]: key of word w of dictionary d (sequence of     *)
(* bytes of the rewritten text it matches) and its declared A / B units as      *)
(* <<dic, word>> references.  A token is [b, e, dic, word] with byte offsets    *)
(* (dic = -1: not a dictionary word).                                          *)
(*                                                                         *)
(* SplitToken: a token whose word declares n >= 2 units becomes n tokens; unit   *)
(* k ends at start + Len(key(unit k)), the last one inherits the parent's end.   *)
(* C09: modes A and B refine mode C with exactly the declared units.             *)
(***************************************************************************)
EXTENDS Integers, Sequences, FiniteSets, TLC

VARIABLES dict
Word(d, w) == dict[d + 1][w + 1]
IsWord(t) == t.dic >= 0 /\ t.dic + 1 <= Len(dict) /\ t.word + 1 <= Len(dict[t.dic + 1])
Units(t, mode) == IF ~IsWord(t) THEN <<>> ELSE IF mode = "A" THEN Word(t.dic, t.word).a ELSE IF mode = "B" THEN Word(t.dic, t.word).b ELSE <<>>
KeyLen(u) == Len(Word(u[1], u[2]).key)

RECURSIVE SplitFrom(_, _, _, _)
SplitFrom(t, us, k, start) ==
  IF k > Len(us) THEN <<>>
  ELSE LET end == IF k = Len(us) THEN t.e ELSE start + KeyLen(us[k])
       IN <<[b |-> start, e |-> end, ob |-> start, oe |-> end, dic |-> us[k][1], word |-> us[k][2]]>> \o SplitFrom(t, us, k + 1, end)
SplitToken(t, mode) == LET us == Units(t, mode) IN IF Len(us) <= 1 THEN <<t>> ELSE SplitFrom(t, us, 1, t.b)

RECURSIVE SplitPath(_, _, _)
SplitPath(path, i, mode) == IF i > Len(path) THEN <<>> ELSE SplitToken(path[i], mode) \o SplitPath(path, i + 1, mode)

\* the units concatenate to the word's key
RECURSIVE ConcatKeys(_, _)
ConcatKeys(us, k) == IF k > Len(us) THEN <<>> ELSE Word(us[k][1], us[k][2]).key \o ConcatKeys(us, k + 1)
Concatenating(t, mode) == IsWord(t) /\ ConcatKeys(Units(t, mode), 1) = Word(t.dic, t.word).key

Bounds(p) == { p[i].b : i \in 1..Len(p) } \cup { p[i].e : i \in 1..Len(p) }
Inside(p, t) == LET idx == { i \in 1..Len(p) : t.b <= p[i].b /\ p[i].e <= t.e /\ (p[i].b < p[i].e \/ t.b = t.e) } IN
                [k \in 1..Cardinality(idx) |-> p[CHOOSE i \in idx : Cardinality({ j \in idx : j < i }) = k - 1]]

\* C09, for a mode-C path pc and a path pm obtained in mode m for the same text
Refines(pc, pm, mode) ==
  /\ Bounds(pc) \subseteq Bounds(pm)
  /\ \A i \in 1..Len(pc) :
       LET t == pc[i] us == Units(t, mode) sub == Inside(pm, t) IN
       /\ Len(us) = 0 => sub = <<t>>                                   \* tokens without declared splits are unchanged
       /\ (Len(us) >= 2 /\ Concatenating(t, mode)) =>
             /\ Len(sub) = Len(us)
             /\ \A k \in 1..Len(us) : sub[k].dic = us[k][1] /\ sub[k].word = us[k][2]     \* exactly the declared units, in order
             /\ sub[1].b = t.b /\ sub[Len(sub)].e = t.e
             /\ \A k \in 1..(Len(sub) - 1) : sub[k].e = sub[k + 1].b                    \* their ranges partition the parent's range
             /\ \A k \in 1..Len(sub) : sub[k].e - sub[k].b = KeyLen(us[k])             \* each unit covers the text that is its key

\* the split API on a mode-C token
\* (compared on word identities and on the coordinates the API exposes)
Proj(p) == [k \in 1..Len(p) |-> [ob |-> p[k].ob, oe |-> p[k].oe, dic |-> p[k].dic, word |-> p[k].word]]
SplitApiOK(t, mode, returned, nodes, pm) ==
  LET us == Units(t, mode) IN
  /\ Len(us) = 0 => returned = FALSE
  /\ Len(us) >= 2 => returned = TRUE /\ nodes = Proj(Inside(pm, t))
=============================================================================
