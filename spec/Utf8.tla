---------------------------------- MODULE Utf8 ----------------------------------
(* Texts are sequences of Unicode scalar values; everything byte-related is      *)
(* derived here, so byte offsets in the specifications ARE the implementation's  *)
(* byte offsets.                                                                 *)
EXTENDS Naturals, Sequences

Utf8Len(cp) == IF cp < 128 THEN 1 ELSE IF cp < 2048 THEN 2 ELSE IF cp < 65536 THEN 3 ELSE 4

RECURSIVE ByteLenFrom(_, _)
ByteLenFrom(t, i) == IF i > Len(t) THEN 0 ELSE Utf8Len(t[i]) + ByteLenFrom(t, i + 1)
ByteLen(t) == ByteLenFrom(t, 1)

\* Off(t)[i] = byte offset of the i-th character (1-based); Off(t)[Len(t)+1] = ByteLen(t)
RECURSIVE OffAcc(_, _, _, _)
OffAcc(t, i, cur, acc) == IF i > Len(t) THEN Append(acc, cur)
                          ELSE OffAcc(t, i + 1, cur + Utf8Len(t[i]), Append(acc, cur))
Off(t) == OffAcc(t, 1, 0, <<>>)

Boundaries(t) == LET o == Off(t) IN { o[i] : i \in 1..Len(o) }
IsBoundary(t, b) == b \in Boundaries(t)

\* index (1-based) of the character starting at boundary b; Len(t)+1 for b = ByteLen(t)
CharIndexAt(t, b) == LET o == Off(t) IN CHOOSE i \in 1..Len(o) : o[i] = b

\* number of code points before byte offset b (b on a boundary)
CodePointsBefore(t, b) == CharIndexAt(t, b) - 1

\* characters between two boundaries
SubByBytes(t, s, e) == SubSeq(t, CharIndexAt(t, s), CharIndexAt(t, e) - 1)

Rep(x, n) == [i \in 1..n |-> x]
=============================================================================
