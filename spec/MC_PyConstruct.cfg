SPECIFICATION MSpec
INVARIANTS Props Emit
CHECK_DEADLOCK FALSE
