--------------------------------- MODULE MC_ConfigResolve ---------------------------------
(* every combination of: file entries present/absent, arguments given/not given, coinciding directories, and every subset of   *)
(* places where the resource exists; each combination is emitted and set up on disk for the real Config (S->I)                 *)
EXTENDS ConfigResolve, Json

Dirs == {"A", "B", "P"}            \* directories of the scenario; "DEF" is the built-in default resource directory (the resource never exists there)
VARIABLES file, fileDir, argRes, argDict, exists, done
mvars == <<file, fileDir, argRes, argDict, exists, done>>

MInit == /\ file \in [path : Dirs \cup {NoneV}, systemDict : {"sys.dic", "other.dic", NoneV}, charDef : {"c.def", NoneV}]
         /\ fileDir \in {"A", "B"} /\ argRes \in {"A", "B", NoneV} /\ argDict \in {"arg.dic", NoneV}
         /\ exists \in SUBSET ((Dirs \cup {""}) \X {"r.def"})
         /\ done = FALSE
MNext == ~done /\ done' = TRUE /\ UNCHANGED <<file, fileDir, argRes, argDict, exists>>
MSpec == MInit /\ [][MNext]_mvars

A0 == Anchors(file, fileDir, argRes, "DEF")
Props == /\ ArgumentWins(file, argDict)
         /\ FirstAnchorWins("r.def", A0, exists)
         /\ Len(A0) >= 1 /\ \A i, j \in 1..Len(A0) : i # j => A0[i] # A0[j]
Emit == done => PrintT(<<"REPLAY", ToJson([file |-> file, fileDir |-> fileDir, argRes |-> argRes, argDict |-> argDict,
                                             exists |-> { e[1] : e \in exists },
                                             anchors |-> A0, sys |-> SystemDict(file, argDict), chardef |-> CharDef(file),
                                             resolved |-> Resolve("r.def", FALSE, A0, exists)])>>)
=============================================================================
