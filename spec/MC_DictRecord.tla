------------------------------ MODULE MC_DictRecord ------------------------------
(* Bounded instance: a fixed first row plus one target row ranging over the whole  *)
(* value lattice (forms equal / different from the headword, key different from    *)
(* headword, dictionary form "*" / self / other row, empty and non-empty arrays,   *)
(* string lengths around the 1-byte/2-byte prefix boundary); all 1024 subsets.     *)
EXTENDS DictRecord, Json

CONSTANTS Lens          \* lengths in UTF-16 units the target's strings may have

\* abstract string: letter + length in UTF-16 units; bytes computed for the key
\* (letters: "a" 1 byte/unit, "k" 3 bytes/unit, "y" astral: 4 bytes per 2 units)
Str(c, n) == [s |-> <<c, n>>, bytes |-> IF c = "a" THEN n ELSE IF c = "k" THEN 3 * n ELSE 2 * n]

Row0 == [key |-> Str("k", 2), head |-> Str("k", 2), pos |-> 0, norm |-> Str("k", 2), reading |-> Str("a", 3),
         dic |-> -1, a |-> <<>>, b |-> <<>>, ws |-> <<>>, syn |-> <<7>>]

TargetsFor(k, h) ==
  { [key |-> k, head |-> h, pos |-> p, norm |-> n, reading |-> rd, dic |-> d, a |-> a, b |-> b, ws |-> ws, syn |-> sy] :
      p \in {0, 1}, n \in { h, Str("a", 2) }, rd \in { h, k, Str("a", 130) },
      d \in {-1, 0, 1}, a \in { <<>>, <<0, 1>> }, b \in { <<>>, <<1, 0, 0>> }, ws \in { <<>>, <<0>> }, sy \in { <<>>, <<1, 70000>> } }

Targets == UNION { TargetsFor(k, h) : k \in { Str("k", len) : len \in Lens },
                                      h \in { Str("k", 1), Str("y", 4) } \cup { Str("k", len) : len \in Lens } }

MInit == Init
MAdd0 == Len(rows) = 0 /\ AddRow(Row0)
MAdd1 == Len(rows) = 1 /\ \E r \in Targets : (r.head = r.key \/ r.head.s[1] # "k" \/ r.head.s[2] = 1) /\ AddRow(r)
MCompile == Len(rows) = 2 /\ Compile
MNext == MAdd0 \/ MAdd1 \/ MCompile
MSpec == MInit /\ [][MNext]_rvars

Emit == compiled =>
  PrintT(<<"REPLAY", ToJson([rows |-> rows, hassyn |-> HasSyn,
                             expected |-> [w \in 1..Len(rows) |-> Expected(rows, w - 1)]])>>)
=============================================================================
