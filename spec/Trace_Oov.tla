--------------------------------- MODULE Trace_Oov ---------------------------------
(* Trace validation for C13: whole analyses with the shipped definition files       *)
(* (`vh c13-record`, hooks H2/H4), regrouped per position by the check script.      *)
(*  world{info, unk, providers, posmap}                                             *)
(*  cats{text, cats}            class sets of the characters of the rewritten text  *)
(*  tables{cont, bow}           run lengths and word-start flags the buffer reports *)
(*  pos{p, dict}                dictionary-word lengths found at position p         *)
(*  oov{p, provider, fallback, nodes}   one provider invocation and its nodes       *)
(*  pos_done{p}                 result{morphemes}                                   *)
EXTENDS Oov, TraceIO, Integers

VARIABLES l, text, posmap, cur, expected, k, lens, inserted
tvars == <<ovars, l, text, posmap, cur, expected, k, lens, inserted>>
Ev == Rec[l]

TInit == /\ l = 1 /\ cats = <<>> /\ info = <<>> /\ unk = <<>> /\ providers = <<>> /\ text = <<>> /\ posmap = <<>>
         /\ cur = -1 /\ expected = <<>> /\ k = 1 /\ lens = {} /\ inserted = {}

ProvOf(p) == IF p.kind = "regex" THEN [p EXCEPT !.set = SeqToSet(p.set)] ELSE p

TrWorld == /\ l <= NRec /\ Ev.ev = "world"
           /\ info' = Ev.info /\ unk' = Ev.unk /\ posmap' = Ev.posmap
           /\ providers' = [i \in 1..Len(Ev.providers) |-> ProvOf(Ev.providers[i])]
           /\ cats' = <<>> /\ text' = <<>> /\ cur' = -1 /\ expected' = <<>> /\ k' = 1 /\ lens' = {} /\ inserted' = {}
           /\ l' = l + 1

TrCats == /\ l <= NRec /\ Ev.ev = "cats"
          /\ cats' = [i \in 1..Len(Ev.cats) |-> SeqToSet(Ev.cats[i])]
          /\ text' = Ev.text
          /\ cur' = -1 /\ expected' = <<>> /\ k' = 1 /\ lens' = {} /\ inserted' = {}
          /\ l' = l + 1 /\ UNCHANGED <<info, unk, providers, posmap>>

\* class runs as the property defines them, and word-start permission
TrTables == /\ l <= NRec /\ Ev.ev = "tables"
            /\ Ev.cont = [i \in 1..N |-> RunLen(i)]
            /\ Ev.bow = CanBow
            /\ l' = l + 1 /\ UNCHANGED <<ovars, text, posmap, cur, expected, k, lens, inserted>>

TrPos == /\ l <= NRec /\ Ev.ev = "pos"
         /\ LET pc == PositionCalls(Ev.p + 1, SeqToSet(Ev.dict), text)
            IN expected' = pc.calls /\ lens' = pc.lens
         /\ cur' = Ev.p /\ k' = 1
         /\ l' = l + 1 /\ UNCHANGED <<ovars, text, posmap, inserted>>

\* grammar POS id of a node -> index into the world's POS table
PosIdx(g) == LET c == { i \in 1..Len(posmap) : posmap[i] = g } IN IF c = {} THEN -1 ELSE (CHOOSE i \in c : TRUE) - 1
NodeOf(n) == [b |-> n.b, e |-> n.e, lid |-> n.lid, rid |-> n.rid, cost |-> n.cost, pos |-> PosIdx(n.word)]

\* "candidates are exactly those the definition files prescribe" (compared as sets)
TrOov == /\ l <= NRec /\ Ev.ev = "oov"
         /\ Ev.p = cur /\ k <= Len(expected)
         /\ Ev.provider = expected[k].provider /\ Ev.fallback = expected[k].fallback
         /\ { NodeOf(Ev.nodes[i]) : i \in 1..Len(Ev.nodes) } = expected[k].nodes
         /\ inserted' = inserted \cup expected[k].nodes
         /\ k' = k + 1
         /\ l' = l + 1 /\ UNCHANGED <<ovars, text, posmap, cur, expected, lens>>

\* all prescribed invocations happened, and the position has at least one candidate
TrPosDone == /\ l <= NRec /\ Ev.ev = "pos_done"
             /\ Ev.p = cur /\ k = Len(expected) + 1 /\ lens # {}
             /\ l' = l + 1 /\ UNCHANGED <<ovars, text, posmap, cur, expected, k, lens, inserted>>

\* OOV morphemes: is_oov, dictionary -1, a configured POS of a candidate with that range, forms = normalised slice
TrResult == /\ l <= NRec /\ Ev.ev = "result"
            /\ Ev.res = "ok" =>
                 \A i \in 1..Len(Ev.morphemes) :
                    LET m == Ev.morphemes[i] IN
                    m.oov => /\ m.dic = -1
                             /\ \E n \in inserted : n.b = m.cb /\ n.e = m.ce /\ n.pos = PosIdx(m.pos_id)
                             /\ m.norm = SubSeq(text, m.cb + 1, m.ce) /\ m.dform = m.norm /\ m.reading = m.norm
            /\ l' = l + 1 /\ UNCHANGED <<ovars, text, posmap, cur, expected, k, lens, inserted>>

TNext == TrWorld \/ TrCats \/ TrTables \/ TrPos \/ TrOov \/ TrPosDone \/ TrResult
TSpec == TInit /\ [][TNext]_tvars
=============================================================================
