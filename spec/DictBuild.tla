--------------------------------- MODULE DictBuild ---------------------------------
(***************************************************************************)
(* The dictionary compiler as a black box with an outcome algebra (C06).     *)
(*                                                                         *)
(* An input is offered (lexicon CSV bytes, matrix text bytes, and possibly a *)
(* sink that fails at byte k); compilation ends in "ok" or "err" - "panic"   *)
(* is not in the type.  After "ok" the produced bytes are loaded and read    *)
(* back through the public reader (readback) and probed by analyses.         *)
(*                                                                         *)
(* C06:  outcome \in {ok, err};  sink failure => err;                        *)
(*       ok => every indexed entry's ids inside the matrix (dimensions named  *)
(*             by USE: the analysis reads conn[left.right_id][right.left_id]  *)
(*             from a matrix whose first header number bounds the first index)*)
(*             /\ every reference points to an existing entry                 *)
(*             /\ arrays/strings within the format limits                     *)
(*             /\ loading and analysing succeed.                              *)
(***************************************************************************)
EXTENDS Integers, Sequences, FiniteSets, TLC

VARIABLES phase,       \* "idle" | "compiled" | "read" | "probed"
          outcome,     \* "none" | "ok" | "err"
          sinkFailAt,  \* -1 or the byte offset at which the sink refuses to write
          rb           \* read-back record (only after ok)
bvars == <<phase, outcome, sinkFailAt, rb>>

MaxArray == 127
MaxString == 32767

\* validity of what was read back from a successfully compiled dictionary
\* rb = [nl, nr, nsys, nuser, user, words: seq of [lid, rid, dfwi, refs: seq of <<dic, word>>, narr: seq of lengths, nstr: seq of lengths]]
RefOK(r, ref) == IF ref[1] = 0 THEN 0 <= ref[2] /\ ref[2] < r.nsys
                 ELSE r.user /\ 0 <= ref[2] /\ ref[2] < r.nuser
WordOK(r, w) ==
  /\ (w.lid >= 0) => (w.lid < r.nr /\ 0 <= w.rid /\ w.rid < r.nl)     \* indexed entries: ids inside the matrix, by use
  /\ \A i \in 1..Len(w.refs) : RefOK(r, w.refs[i])
  /\ (w.dfwi >= 0) => w.dfwi < (IF r.user THEN r.nuser ELSE r.nsys)
  /\ \A i \in 1..Len(w.narr) : w.narr[i] <= MaxArray
  /\ \A i \in 1..Len(w.nstr) : w.nstr[i] <= MaxString
Valid(r) == r.nl >= 0 /\ r.nr >= 0 /\ \A i \in 1..Len(r.words) : WordOK(r, r.words[i])

Init == phase = "idle" /\ outcome = "none" /\ sinkFailAt = -1 /\ rb = <<>>

Compile(res, failAt) ==
  /\ phase = "idle"
  /\ res \in {"ok", "err"}
  /\ (failAt >= 0) => res = "err"            \* a sink failure is never reported as success
  /\ outcome' = res /\ sinkFailAt' = failAt /\ phase' = "compiled" /\ UNCHANGED rb

ReadBack(r) ==
  /\ phase = "compiled" /\ outcome = "ok"
  /\ Valid(r)
  /\ rb' = r /\ phase' = "read" /\ UNCHANGED <<outcome, sinkFailAt>>

Probe(res) ==
  /\ phase = "read"
  /\ res = "ok"                               \* loads and analyses text without failure
  /\ phase' = "probed" /\ UNCHANGED <<outcome, sinkFailAt, rb>>

Reset == phase' = "idle" /\ outcome' = "none" /\ sinkFailAt' = -1 /\ rb' = <<>>
=============================================================================
