------------------------------- MODULE MC_DictIndex -------------------------------
(* Bounded instance: all lexicons of <= MaxRows rows over KeySet x {indexed, not    *)
(* indexed}, split into <= MaxLayers layers; texts TextSet; every byte offset.      *)
EXTENDS DictIndex, Json

CONSTANTS MaxRows, MaxLayers

\* UTF-8 bytes of: a=97 b=98 c=99 あ=E3 81 82  𠮷=F0 A0 AE B7
A == <<97>>  B == <<98>>  C == <<99>>  HA == <<227, 129, 130>>  YO == <<240, 160, 174, 183>>
KeySet == { A, A \o B, A \o B \o C, B, HA, HA \o A, YO, A \o HA, <<227, 129>> \o <<130, 97, 98>> }
NUL == <<0>>
TextSet == { NUL \o A \o B, A \o NUL \o B \o C, HA \o NUL \o A, A \o B \o C, A \o B \o A, HA \o A \o B, YO \o A, A \o HA \o B, B \o B, HA \o HA, A \o B \o C \o A \o B }

NRows == LET RECURSIVE S(_) S(d) == IF d = 0 THEN 0 ELSE Len(layers[d]) + S(d - 1) IN S(Len(layers))

MAdd == /\ NRows < MaxRows /\ \E k \in KeySet, lid \in {0, -1, -2} : AddRow(k, lid)
MLayer == Len(layers) < MaxLayers /\ NewLayer
MBuild == Len(layers[Len(layers)]) > 0 /\ Build
MNext == MAdd \/ MLayer \/ MBuild
MSpec == Init /\ [][MNext]_dvars

AllLookupsOK == built => \A t \in TextSet : LookupOK(t)

SetToSeq(S) == LET RECURSIVE G(_, _) G(r, acc) == IF r = {} THEN acc ELSE LET x == CHOOSE x \in r : TRUE IN G(r \ {x}, Append(acc, x)) IN G(S, <<>>)

Emit == built =>
  PrintT(<<"REPLAY", ToJson([layers |-> layers,
        expect |-> [i \in 1..Cardinality(TextSet) |->
            LET t == SetToSeq(TextSet)[i] IN
            [text |-> t, at |-> [o \in 1..(Len(t) + 1) |-> SetToSeq(Matches(layers, t, o - 1))],
             exact |-> SetToSeq(ExactMatches(layers, t))]]])>>)
=============================================================================
