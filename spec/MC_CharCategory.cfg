SPECIFICATION Spec
CONSTANTS
  MaxCp = 4
  Classes = {1, 2}
  DEFAULT = 0
  MaxLines = 2
INVARIANTS TypeOK UnionOfCovering CompiledShape Emit
CHECK_DEADLOCK FALSE
