SPECIFICATION TSpec
CONSTANTS
  SysPos <- TSys
  MaxUser = 14
INVARIANTS PosStraight
POSTCONDITION Report
CHECK_DEADLOCK FALSE
