------------------------------------- MODULE Cli -------------------------------------
(***************************************************************************)
(* C19 (command-line half): `sudachi [-m MODE] [-a] [-w] [--split-sentences=yes|no|only]` *)
(* reading standard input or a file, writing standard output or a file (-o),            *)
(* as a stream processor (sudachi-cli/src/main.rs main loop, analysis.rs, output.rs).   *)
(*                                                                         *)
(* The input is a sequence of code points.  One step takes the next LINE off the input  *)
(* (up to and including the next LF, or the unterminated rest), strips its terminator   *)
(* (LF, and a CR directly before it), hands the stripped line to the analysis and       *)
(* appends what the output format writes.  The core library is an oracle:               *)
(*   libSent[line]       the sentences of a line (sentence splitter with the lexicon)   *)
(*   libTok[<<s, mode>>] the morphemes of a sentence / line                             *)
(***************************************************************************)
EXTENDS Integers, Sequences, TLC

LF == 10
CR == 13
TAB == 9
SP == 32

VARIABLES rest, outp       \* unread input, output written so far
cvars == <<rest, outp>>

\* ---------------------------------------------------------------- reading lines
RECURSIVE IndexOfLF(_, _)
IndexOfLF(s, i) == IF i > Len(s) THEN 0 ELSE IF s[i] = LF THEN i ELSE IndexOfLF(s, i + 1)

\* BufRead::read_line: through the first LF, or everything when there is none
NextLine(s) == LET k == IndexOfLF(s, 1) IN IF k = 0 THEN s ELSE SubSeq(s, 1, k)
AfterLine(s) == LET k == IndexOfLF(s, 1) IN IF k = 0 THEN <<>> ELSE SubSeq(s, k + 1, Len(s))

\* the line without its terminator: (CR)? LF at the end
StripEol(ln) ==
  IF Len(ln) > 0 /\ ln[Len(ln)] = LF
  THEN LET a == SubSeq(ln, 1, Len(ln) - 1) IN
       IF Len(a) > 0 /\ a[Len(a)] = CR THEN SubSeq(a, 1, Len(a) - 1) ELSE a
  ELSE ln

\* ---------------------------------------------------------------- output formats (output.rs)
RECURSIVE Join(_, _)
Join(ss, sep) == IF ss = <<>> THEN <<>> ELSE IF Len(ss) = 1 THEN ss[1] ELSE ss[1] \o sep \o Join(Tail(ss), sep)

RECURSIVE Digits(_)
Digits(n) == IF n < 10 THEN <<48 + n>> ELSE Digits(n \div 10) \o <<48 + (n % 10)>>
Dec(n) == IF n < 0 THEN <<45>> \o Digits(-n) ELSE Digits(n)

\* Rust's {:?} of a slice of integers: [] / [1, 2]
DebugList(xs) == <<91>> \o Join([i \in 1..Len(xs) |-> Dec(xs[i])], <<44, 32>>) \o <<93>>

Basic(m) == m.surface \o <<TAB>> \o Join(m.pos, <<44>>) \o <<TAB>> \o m.norm
Extended(m) == <<TAB>> \o m.dform \o <<TAB>> \o m.reading \o <<TAB>> \o Dec(m.dic) \o <<TAB>> \o DebugList(m.syn)
               \o (IF m.oov THEN <<TAB, 40, 79, 79, 86, 41>> ELSE <<>>)           \* "\t(OOV)"
EOS == <<69, 79, 83, LF>>

RECURSIVE Rows(_, _)
Rows(ms, all) == IF ms = <<>> THEN <<>> ELSE Basic(ms[1]) \o (IF all THEN Extended(ms[1]) ELSE <<>>) \o <<LF>> \o Rows(Tail(ms), all)

Simple(ms, all) == Rows(ms, all) \o EOS
Wakati(ms) == IF ms = <<>> THEN <<LF>> ELSE Join([i \in 1..Len(ms) |-> ms[i].surface], <<SP>>) \o <<LF>>
Format(args, ms) == IF args.wakati THEN Wakati(ms) ELSE Simple(ms, args.all)

\* ---------------------------------------------------------------- analysis of one stripped line (analysis.rs)
RECURSIVE Sentences(_, _, _, _)
Sentences(ss, args, libTok, k) == IF k > Len(ss) THEN <<>> ELSE Format(args, libTok[<<ss[k], args.mode>>].ms) \o Sentences(ss, args, libTok, k + 1)

\* --split-sentences=only: the sentences of the line are written one after the other, nothing between or after them
\* (analysis.rs SplitSentencesOnly::analyze writes the bytes of every sentence and no separator)
RECURSIVE Flatten(_)
Flatten(ss) == IF ss = <<>> THEN <<>> ELSE ss[1] \o Flatten(Tail(ss))

Analyse(line, args, libSent, libTok) ==
  IF args.only THEN Flatten(libSent[line]) ELSE
  IF args.split THEN Sentences(libSent[line], args, libTok, 1)     \* no sentence (an empty line): nothing is written
                ELSE Format(args, libTok[<<line, args.mode>>].ms)

\* ---------------------------------------------------------------- the machine
CInit(input) == rest = input /\ outp = <<>>

ProcessLine(args, libSent, libTok) ==
  /\ rest # <<>>
  /\ outp' = outp \o Analyse(StripEol(NextLine(rest)), args, libSent, libTok)
  /\ rest' = AfterLine(rest)

\* the whole run as a function (the fixpoint of ProcessLine)
RECURSIVE Run(_, _, _, _)
Run(input, args, libSent, libTok) ==
  IF input = <<>> THEN <<>>
  ELSE Analyse(StripEol(NextLine(input)), args, libSent, libTok) \o Run(AfterLine(input), args, libSent, libTok)

\* the stripped lines of an input, in order (what the oracle is asked about)
RECURSIVE StrippedLines(_)
StrippedLines(input) == IF input = <<>> THEN <<>> ELSE <<StripEol(NextLine(input))>> \o StrippedLines(AfterLine(input))
=============================================================================
