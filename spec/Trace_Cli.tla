---------------------------------- MODULE Trace_Cli ----------------------------------
(* Trace validation for C19, command-line half.                                                        *)
(*   lib{op: "sentences", text, sents} / lib{op: "tok", text, mode, ms}    the oracle (core library)   *)
(*   cli{args: {mode, all, wakati, split, only, files}, input, stdout, console, exit}   one real run   *)
(*   (files: the input is given as a file argument and the output goes to -o FILE; stdout is then the   *)
(*    content of that file and console what the process wrote to its standard output)                  *)
(* stdout must be exactly Run(input): every line without its terminator, split into the library's       *)
(* sentences, each analysed by the library and written in the documented format.                        *)
EXTENDS Cli, TraceIO

VARIABLES l, libSent, libTok
Ev == Rec[l]
Fn0 == [x \in {} |-> 0]
Put(f, k, v) == [x \in DOMAIN f \cup {k} |-> IF x = k THEN v ELSE f[x]]
TInit == l = 1 /\ libSent = Fn0 /\ libTok = Fn0 /\ rest = <<>> /\ outp = <<>>

TrLib == /\ l <= NRec /\ Ev.ev = "lib"
         /\ IF Ev.op = "sentences" THEN libSent' = Put(libSent, Ev.text, Ev.sents) /\ UNCHANGED libTok
                                   ELSE libTok' = Put(libTok, <<Ev.text, Ev.mode>>, [ms |-> Ev.ms]) /\ UNCHANGED libSent
         /\ UNCHANGED cvars /\ l' = l + 1

\* every question the run asks has an answer in the trace (otherwise the trace is incomplete, not wrong)
Answered(input, args) ==
  LET ls == StrippedLines(input) IN
  \A i \in 1..Len(ls) :
     IF args.only THEN ls[i] \in DOMAIN libSent ELSE
     IF args.split THEN /\ ls[i] \in DOMAIN libSent
                        /\ \A k \in 1..Len(libSent[ls[i]]) : <<libSent[ls[i]][k], args.mode>> \in DOMAIN libTok
                   ELSE <<ls[i], args.mode>> \in DOMAIN libTok

TrCli == /\ l <= NRec /\ Ev.ev = "cli"
         /\ Ev.exit = 0
         /\ Answered(Ev.input, Ev.args)
         /\ Ev.stdout = Run(Ev.input, Ev.args, libSent, libTok)      \* with -o: the content of the output file
         /\ Ev.args.files => Ev.console = <<>>                        \* and nothing on standard output
         /\ rest' = <<>> /\ outp' = Ev.stdout
         /\ UNCHANGED <<libSent, libTok>> /\ l' = l + 1

TSpec == TInit /\ [][TrLib \/ TrCli]_<<cvars, l, libSent, libTok>>
=============================================================================
