SPECIFICATION MSpec
CONSTANTS
  MaxRows = 2
  MaxLayers = 2
INVARIANTS AllLookupsOK Emit
CHECK_DEADLOCK FALSE
