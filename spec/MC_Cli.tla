----------------------------------- MODULE MC_Cli -----------------------------------
(* Bounded instance of Cli: every input of <= MaxLen code points over {x, CR, LF} x the output formats,   *)
(* over a fabricated oracle (a non-empty text is one sentence and one morpheme).  Checked:                 *)
(*   - the machine that takes one line per step writes exactly Run(input);                                 *)
(*   - no analysed line contains LF, and a line terminated by CR LF is analysed without the CR;            *)
(*   - a blank line contributes nothing (sentence splitting) or exactly one empty analysis (none).         *)
(* Every input is emitted and fed to the real binary with real text for x (S->I).                          *)
EXTENDS Cli, Json, FiniteSets

CONSTANTS MaxLen

X == 120
Alphabet == {X, CR, LF}
RECURSIVE SeqsUpTo(_)
SeqsUpTo(n) == IF n = 0 THEN {<<>>} ELSE LET S == SeqsUpTo(n - 1) IN S \cup {Append(s, c) : s \in {t \in S : Len(t) = n - 1}, c \in Alphabet}
Inputs == SeqsUpTo(MaxLen)

M(s) == [surface |-> s, pos |-> <<<<80>>>>, norm |-> s, dform |-> s, reading |-> s, dic |-> 0, syn |-> <<>>, oov |-> FALSE]
\* every substring without LF can be asked
Texts == {IF a > b \/ b > Len(i) THEN <<>> ELSE SubSeq(i, a, b) : i \in Inputs, a \in 1..(MaxLen + 1), b \in 0..MaxLen}
Sent == [t \in Texts |-> IF t = <<>> THEN <<>> ELSE <<t>>]
Tok == [k \in Texts \X {2} |-> [ms |-> IF k[1] = <<>> THEN <<>> ELSE <<M(k[1])>>]]

VARIABLES input, args, analysed
mvars == <<cvars, input, args, analysed>>

ArgSet == {[mode |-> 2, all |-> a, wakati |-> w, split |-> s, only |-> o, files |-> FALSE] : a \in {FALSE}, w \in BOOLEAN, s \in BOOLEAN, o \in BOOLEAN}

MInit == /\ input \in Inputs /\ args \in ArgSet /\ CInit(input) /\ analysed = <<>>
MStep == /\ ProcessLine(args, Sent, Tok)
         /\ analysed' = Append(analysed, [raw |-> NextLine(rest), line |-> StripEol(NextLine(rest))])
         /\ UNCHANGED <<input, args>>
MSpec == MInit /\ [][MStep]_mvars

Has(s, c) == \E i \in 1..Len(s) : s[i] = c
NoTerminatorAnalysed == \A i \in 1..Len(analysed) :
    LET a == analysed[i] IN
    /\ ~Has(a.line, LF)
    /\ (Len(a.raw) >= 2 /\ a.raw[Len(a.raw)] = LF /\ a.raw[Len(a.raw) - 1] = CR) => a.line = SubSeq(a.raw, 1, Len(a.raw) - 2)
    /\ (Len(a.raw) >= 1 /\ a.raw[Len(a.raw)] = LF /\ (Len(a.raw) = 1 \/ a.raw[Len(a.raw) - 1] # CR)) => a.line = SubSeq(a.raw, 1, Len(a.raw) - 1)
    /\ (a.raw = <<>> \/ a.raw[Len(a.raw)] # LF) => a.line = a.raw
MachineIsRun == rest = <<>> => outp = Run(input, args, Sent, Tok)
BlankLineEmpty == (rest = <<>> /\ input \in {<<LF>>, <<CR, LF>>}) =>
                    outp = (IF args.only \/ args.split THEN <<>> ELSE IF args.wakati THEN <<LF>> ELSE EOS)
\* sentence splitting alone loses nothing: with an oracle whose sentences tile the line, the output is the input without its line terminators
OnlyKeepsText == (rest = <<>> /\ args.only) => outp = Flatten(StrippedLines(input))

Emit == (rest = <<>> /\ args = [mode |-> 2, all |-> FALSE, wakati |-> FALSE, split |-> TRUE, only |-> FALSE, files |-> FALSE]) => PrintT(<<"REPLAY", ToJson([input |-> input])>>)
=============================================================================
