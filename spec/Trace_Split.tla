--------------------------------- MODULE Trace_Split ---------------------------------
(* Trace validation for C09 (`vh c09-record`).                                          *)
(*  world{dict}   declared dictionaries: dict[d+1][w+1] = [key (bytes), a, b]             *)
(*  modes{C, A, B, api}   the same text analysed in the three modes (tokens with byte      *)
(*        offsets b,e in the rewritten text, ob,oe in the original text, dic, word) and    *)
(*        the on-demand split of every mode-C token: api[{i, mode, returned, nodes}]       *)
EXTENDS Split, TraceIO

VARIABLES l
Ev == Rec[l]
TInit == l = 1 /\ dict = <<>>

TrWorld == /\ l <= NRec /\ Ev.ev = "world" /\ dict' = Ev.dict /\ l' = l + 1

TrModes == /\ l <= NRec /\ Ev.ev = "modes"
           /\ ~HasField(Ev, "err")
           /\ Refines(Ev.C, Ev.A, "A") /\ Refines(Ev.C, Ev.B, "B")
           /\ \A k \in 1..Len(Ev.api) :
                 LET x == Ev.api[k] IN
                 SplitApiOK(Ev.C[x.i + 1], x.mode, x.returned, x.nodes, IF x.mode = "A" THEN Ev.A ELSE Ev.B)
           /\ l' = l + 1 /\ UNCHANGED dict

TNext == TrWorld \/ TrModes
TSpec == TInit /\ [][TNext]_<<l, dict>>
=============================================================================
