----------------------------------- MODULE Bindings -----------------------------------
(***************************************************************************)
(* C19 (Python half): the Python API as a state machine over named objects.          *)
(*                                                                         *)
(* The core library is an ORACLE: libTok[<<text, mode>>] and libLookup[text] are the   *)
(* results of the Rust library for the same dictionary and configuration (in a trace   *)
(* they are recorded from the real library, in the bounded model they are a small      *)
(* fabricated table).  The specification says which library result every Python        *)
(* object must show after every call:                                                  *)
(*   - tokenize(text, mode=m, out=L) shows libTok[text, m or the tokenizer's mode];    *)
(*     the override never changes the tokenizer's mode, not even when the call fails;  *)
(*   - only the target list of a call changes; a failed call changes nothing;          *)
(*   - Morpheme.split / Dictionary.lookup likewise;                                    *)
(*   - a Morpheme object is (list, index) and shows whatever that list holds now.      *)
(* One action per API call (python/src/tokenizer.rs tokenize, morpheme.rs split,       *)
(* dictionary.rs create / lookup).                                                     *)
(***************************************************************************)
EXTENDS Integers, Sequences, FiniteSets, TLC

None == -1
AllFields == {"surface", "pos", "normalized_form", "dictionary_form", "reading_form", "word_structure", "split_a", "split_b", "synonym_group_id"}

VARIABLES libTok, libLookup,   \* the oracle (functions; their domains grow as results are learned)
          tks,                 \* tokenizer id -> [mode, fields, proj]
          lists,               \* list id -> [ms, proj, fields, inp, valid, text]
          handles,             \* handle id -> [list, idx]
          nextInp              \* identities of the analysed-text objects that lists share
bvars == <<libTok, libLookup, tks, lists, handles, nextInp>>

Fn0 == [x \in {} |-> 0]        \* the empty function
Put(f, k, v) == [x \in DOMAIN f \cup {k} |-> IF x = k THEN v ELSE f[x]]

BInit == /\ libTok = Fn0 /\ libLookup = Fn0 /\ tks = Fn0 /\ lists = Fn0 /\ handles = Fn0 /\ nextInp = 1

\* ---------------------------------------------------------------- surface projections (python/src/projection.rs)
Conjugating(m) == m.pos[1] \in {<<21205, 35422>>, <<24418, 23481, 35422>>, <<21161, 21205, 35422>>}   \* 動詞 形容詞 助動詞
Proj(p, m) ==
  CASE p = "surface" -> m.surface
    [] p = "normalized" -> m.norm
    [] p = "reading" -> m.reading
    [] p = "dictionary" -> m.dform
    [] p = "dictionary_and_surface" -> IF Conjugating(m) THEN m.surface ELSE m.dform
    [] p = "normalized_and_surface" -> IF Conjugating(m) THEN m.surface ELSE m.norm
    [] p = "normalized_nouns" -> IF m.pos[6] = <<42>> THEN m.norm ELSE m.surface
Projections == {"surface", "normalized", "reading", "dictionary", "dictionary_and_surface", "normalized_and_surface", "normalized_nouns"}

Required(p) == CASE p \in {"normalized", "normalized_and_surface", "normalized_nouns"} -> {"normalized_form"}
                  [] p = "reading" -> {"reading_form"}
                  [] p \in {"dictionary", "dictionary_and_surface"} -> {"dictionary_form"}
                  [] OTHER -> {}

\* analysing in mode A / B loads the unit lists of that mode; StatefulTokenizer::set_mode never unloads them again
ModeField(m) == IF m = 0 THEN {"split_a"} ELSE IF m = 1 THEN {"split_b"} ELSE {}

\* ---------------------------------------------------------------- actions
(* A list refers to an analysed-text object (`inp`) that it may SHARE with the lists split off it.        *)
(* Writing a new analysis into a list replaces the content of that shared object: the other lists that    *)
(* share it are invalidated, as the documentation of the out parameter says; what they show afterwards    *)
(* is unspecified (but it is never a crash).                                                              *)
Invalidate(ls, inp, except) == [l \in DOMAIN ls |-> IF ls[l].inp = inp /\ l # except THEN [ls[l] EXCEPT !.valid = FALSE] ELSE ls[l]]
Create(tk, mode, fields, proj) ==
  /\ LET m == IF mode = None THEN 2 ELSE mode IN
     tks' = Put(tks, tk, [mode |-> m, fields |-> fields \cup Required(proj) \cup ModeField(m), proj |-> proj])
  /\ UNCHANGED <<libTok, libLookup, lists, handles, nextInp>>

\* tokenize(text, mode = ov, out = out): `target` is out, or the fresh id `new`
Tokenize(tk, text, ov, out, new, res) ==
  LET eff == IF ov = None THEN tks[tk].mode ELSE ov
      F == tks[tk].fields \cup ModeField(eff)          \* the fields the analysis loads: the oracle is asked for the same
      r == libTok[<<text, eff, F>>]
      target == IF out = None THEN new ELSE out
  IN /\ tk \in DOMAIN tks /\ <<text, eff, F>> \in DOMAIN libTok
     /\ out # None => out \in DOMAIN lists
     /\ res = r.res
     /\ IF r.res = "ok"
        THEN IF out = None
             THEN /\ lists' = Put(lists, new, [ms |-> r.ms, proj |-> tks[tk].proj, fields |-> F, inp |-> nextInp, valid |-> TRUE, text |-> text])
                  /\ nextInp' = nextInp + 1
             ELSE /\ lists' = Put(Invalidate(lists, lists[out].inp, out), out,
                                  [ms |-> r.ms, proj |-> lists[out].proj, fields |-> F, inp |-> lists[out].inp, valid |-> TRUE, text |-> text])
                  /\ UNCHANGED nextInp
        ELSE UNCHANGED <<lists, nextInp>>               \* a failed call leaves the out list alone
     /\ tks' = [tks EXCEPT ![tk].fields = F]             \* the tokenizer's own MODE is never changed by the override, even by a failing call
     /\ UNCHANGED <<libTok, libLookup, handles>>

\* list[idx].split(mode, out = out, add_single = add)
Split(l, idx, mode, out, new, add, res) ==
  /\ l \in DOMAIN lists
  /\ out # None => out \in DOMAIN lists
  /\ LET target == IF out = None THEN new ELSE out IN
     IF ~lists[l].valid
     THEN \* splitting a morpheme of an invalidated list: unspecified, whatever comes back is invalid too
          IF res = "ok" THEN lists' = Put(lists, target, [ms |-> <<>>, proj |-> "surface", fields |-> {}, inp |-> lists[l].inp, valid |-> FALSE, text |-> <<>>])
                        ELSE UNCHANGED lists
     ELSE IF idx >= Len(lists[l].ms) \/ out = l
     THEN res = "err" /\ UNCHANGED lists          \* IndexError / "out was used twice"
     ELSE LET m == lists[l].ms[idx + 1]
              units == m.splits[mode + 1]
              splitted == Len(units) > 0               \* the oracle was asked with the same fields: no units when they are not loaded
              content == IF splitted THEN units ELSE IF add THEN <<m>> ELSE <<>>
          IN /\ res = "ok"
             \* the target now refers to the text of l (out = None: an empty clone of l; otherwise it is re-pointed)
             /\ lists' = Put(lists, target, [ms |-> content, proj |-> IF out = None THEN lists[l].proj ELSE lists[out].proj, fields |-> lists[l].fields,
                                              inp |-> IF content = <<>> /\ out # None THEN lists[out].inp ELSE lists[l].inp, valid |-> TRUE, text |-> lists[l].text])
  /\ UNCHANGED <<libTok, libLookup, tks, handles, nextInp>>

\* Dictionary.lookup(surface, out = out): all fields, the dictionary's projection
Lookup(text, out, new, res) ==
  LET r == libLookup[text]
      target == IF out = None THEN new ELSE out
  IN /\ text \in DOMAIN libLookup
     /\ out # None => out \in DOMAIN lists
     /\ res = r.res
     /\ IF r.res = "ok"
        THEN IF out = None
             THEN /\ lists' = Put(lists, new, [ms |-> r.ms, proj |-> "surface", fields |-> AllFields, inp |-> nextInp, valid |-> TRUE, text |-> text])
                  /\ nextInp' = nextInp + 1
             ELSE /\ lists' = Put(Invalidate(lists, lists[out].inp, out), out,
                                  [ms |-> r.ms, proj |-> lists[out].proj, fields |-> AllFields, inp |-> lists[out].inp, valid |-> TRUE, text |-> text])
                  /\ UNCHANGED nextInp
        ELSE UNCHANGED <<lists, nextInp>>
     /\ UNCHANGED <<libTok, libLookup, tks, handles>>

Hold(h, l, idx, res) ==
  /\ l \in DOMAIN lists
  /\ IF ~lists[l].valid THEN (IF res = "ok" THEN handles' = Put(handles, h, [list |-> l, idx |-> idx]) ELSE UNCHANGED handles)
     ELSE IF idx < Len(lists[l].ms) THEN res = "ok" /\ handles' = Put(handles, h, [list |-> l, idx |-> idx])
                                    ELSE res = "err" /\ UNCHANGED handles
  /\ UNCHANGED <<libTok, libLookup, tks, lists, nextInp>>

\* ---------------------------------------------------------------- what an observer must see
\* one morpheme as shown through the Python accessors: `o` observed, `m` the library's
Shows(o, m, fields, proj) ==
  /\ o.surface = m.surface /\ o.begin = m.begin /\ o.end = m.end          \* raw surface and code point offsets
  /\ o.len = m.end - m.begin
  /\ o.wid = m.wid /\ o.dic = m.dic /\ o.oov = m.oov
  /\ o.pos = m.pos /\ o.pos_id = m.pos_id                                \* the oracle analysed with the same field request
  /\ o.norm = m.norm /\ o.dform = m.dform /\ o.reading = m.reading /\ o.syn = m.syn
  /\ o.psurface = Proj(proj, m) /\ o.str = o.psurface
  \* Morpheme.get_word_info(): the word information object shows what the library's accessors show (ids as raw numbers)
  /\ LET w == o.winfo  v == m.winfo IN
       /\ w.surface = v.surface /\ w.hwl = v.hwl /\ w.length = v.hwl /\ w.pos_id = v.pos_id /\ w.norm = v.norm /\ w.dfwid = v.dfwid
       /\ w.dform = v.dform /\ w.reading = v.reading /\ w.a = v.a /\ w.b = v.b /\ w.ws = v.ws /\ w.syn = v.syn

\* text[begin:end] is the raw surface (offsets are code points of the analysed text)
SliceOK(text, o) == o.begin <= o.end /\ o.end <= Len(text) /\ SubSeq(text, o.begin + 1, o.end) = o.surface

ListShows(ol, l) ==
  lists[l].valid =>
  /\ ol.res = "ok" /\ ol.iter_ok /\ ol.size = Len(lists[l].ms)
  /\ Len(ol.ms) = Len(lists[l].ms)
  /\ \A i \in 1..Len(ol.ms) : Shows(ol.ms[i], lists[l].ms[i], lists[l].fields, lists[l].proj) /\ SliceOK(lists[l].text, ol.ms[i])

HandleShows(oh, h) ==
  LET l == handles[h].list  i == handles[h].idx IN
  IF ~lists[l].valid THEN TRUE ELSE
  IF i < Len(lists[l].ms) THEN oh.res = "ok" /\ Shows(oh.m, lists[l].ms[i + 1], lists[l].fields, lists[l].proj)
                          ELSE oh.res = "err"       \* an exception, not a crash

\* ---------------------------------------------------------------- properties of the design
\* the mode a tokenizer was created with is the mode it keeps
ModeIsStable == [][\A tk \in DOMAIN tks : tks'[tk].mode = tks[tk].mode]_bvars
\* a call changes at most one list
OneTarget == [][/\ DOMAIN lists \subseteq DOMAIN lists'
                /\ Cardinality({l \in DOMAIN lists : lists'[l].valid /\ lists[l].valid /\ lists'[l] # lists[l]}) <= 1]_bvars
=============================================================================
