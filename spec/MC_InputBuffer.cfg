SPECIFICATION MCSpec
CONSTANTS
  MaxLen = 49149
  ReallyMaxLen = 65535
  Alphabet = {97, 12354, 134071}
  MaxChars = 2
  MaxEdits = 2
  MaxBatches = 2
  Repl <- ReplSet
  GenHist = FALSE
INVARIANTS TypeOK MapOK AnyTilingPartitions Emit
CHECK_DEADLOCK FALSE
