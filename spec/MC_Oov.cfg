SPECIFICATION MSpec
CONSTANTS
  MaxLen = 3
INVARIANTS RunsTile RunsShareAClass RunsMaximal PrefixStable EveryPositionCovered Emit
CHECK_DEADLOCK FALSE
