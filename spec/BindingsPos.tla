--------------------------------- MODULE BindingsPos ---------------------------------
(* The part-of-speech matchers of the Python API as objects next to those of Bindings:            *)
(* Dictionary.pos_matcher(patterns | predicate), | & - ~, matcher(morpheme), len, iteration.       *)
EXTENDS Bindings, PosMatcher

VARIABLES matchers,      \* matcher id -> set of POS ids
          posList,       \* the dictionary's POS list (oracle)
          pretoks        \* pre-tokenizer id -> [mode, fields, proj, handler]
pvars == <<matchers, posList, pretoks>>

PInit == matchers = Fn0 /\ posList = <<>> /\ pretoks = Fn0

\* pos_matcher([patterns]): an error when some pattern matches nothing (nothing is created then)
MatcherNew(mid, pats, res) ==
  /\ IF PatternsOK(posList, pats) THEN res = "ok" /\ matchers' = Put(matchers, mid, FromPatterns(posList, pats))
                                  ELSE res = "err" /\ UNCHANGED matchers
  /\ UNCHANGED <<posList, pretoks>>
\* pos_matcher(lambda pos: pos[field] == value)
MatcherFn(mid, field, value, res) ==
  /\ res = "ok" /\ matchers' = Put(matchers, mid, { id \in Ids(posList) : posList[id + 1][field + 1] = value })
  /\ UNCHANGED <<posList, pretoks>>
MatcherOp(mid, kind, a, b, res) ==
  /\ a \in DOMAIN matchers /\ (kind # "inv" => b \in DOMAIN matchers)
  /\ res = "ok"
  /\ matchers' = Put(matchers, mid, CASE kind = "or" -> Union(matchers[a], matchers[b])
                                      [] kind = "and" -> Inter(matchers[a], matchers[b])
                                      [] kind = "sub" -> Diff(matchers[a], matchers[b])
                                      [] kind = "inv" -> Compl(posList, matchers[a]))
  /\ UNCHANGED <<posList, pretoks>>

\* ---------------------------------------------------------------- HuggingFace pre-tokenizer (python/src/pretokenizer.rs)
\* Dictionary.pre_tokenizer(mode, fields, handler, projection): without a handler only the projection's fields are loaded
PreTokNew(pt, mode, fields, proj, handler) ==
  /\ LET m == IF mode = None THEN 2 ELSE mode IN
     pretoks' = Put(pretoks, pt, [mode |-> m, proj |-> proj, handler |-> handler,
                                  fields |-> (IF handler THEN fields ELSE {}) \cup Required(proj) \cup ModeField(m)])
  /\ UNCHANGED <<matchers, posList>>

\* pretok(index, string): the tokens are the slices of the GIVEN string at the morphemes' code point ranges (= raw surfaces),
\* the projected strings when a projection is configured, or whatever the handler makes of the morpheme list
\* (the driver's handler returns begin, end and normalized form of every morpheme)
PreTokCall(pt, text, res, val) ==
  LET p == pretoks[pt]
      r == libTok[<<text, p.mode, p.fields>>]
  IN /\ pt \in DOMAIN pretoks /\ <<text, p.mode, p.fields>> \in DOMAIN libTok
     /\ res = r.res
     /\ r.res = "ok" =>
          /\ Len(val) = Len(r.ms)
          /\ \A i \in 1..Len(val) :
                LET m == r.ms[i] IN
                IF p.handler THEN val[i] = <<m.begin, m.end, m.norm>>
                ELSE val[i] = (IF p.proj = "surface" THEN m.surface ELSE Proj(p.proj, m))
     /\ UNCHANGED pvars

\* what a matcher shows: its size, its POS tuples in id order, and its verdict on every morpheme of every valid list
MatcherShows(om, mid) ==
  /\ om.res = "ok" /\ om.len = Cardinality(matchers[mid])
  /\ om.items = Items(posList, matchers[mid])
  /\ \A k \in 1..Len(om.hits) :
        LET l == om.hits[k][1]  hs == om.hits[k][2] IN
        (l \in DOMAIN lists /\ lists[l].valid) =>
           /\ Len(hs) = Len(lists[l].ms)
           /\ \A i \in 1..Len(hs) : hs[i] = (lists[l].ms[i].pos_id \in matchers[mid])
=============================================================================
