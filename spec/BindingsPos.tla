--------------------------------- MODULE BindingsPos ---------------------------------
(* The part-of-speech matchers of the Python API as objects next to those of Bindings:            *)
(* Dictionary.pos_matcher(patterns | predicate), | & - ~, matcher(morpheme), len, iteration.       *)
EXTENDS Bindings, PosMatcher

VARIABLES matchers,      \* matcher id -> set of POS ids
          posList        \* the dictionary's POS list (oracle)
pvars == <<matchers, posList>>

PInit == matchers = Fn0 /\ posList = <<>>

\* pos_matcher([patterns]): an error when some pattern matches nothing (nothing is created then)
MatcherNew(mid, pats, res) ==
  /\ IF PatternsOK(posList, pats) THEN res = "ok" /\ matchers' = Put(matchers, mid, FromPatterns(posList, pats))
                                  ELSE res = "err" /\ UNCHANGED matchers
  /\ UNCHANGED posList
\* pos_matcher(lambda pos: pos[field] == value)
MatcherFn(mid, field, value, res) ==
  /\ res = "ok" /\ matchers' = Put(matchers, mid, { id \in Ids(posList) : posList[id + 1][field + 1] = value })
  /\ UNCHANGED posList
MatcherOp(mid, kind, a, b, res) ==
  /\ a \in DOMAIN matchers /\ (kind # "inv" => b \in DOMAIN matchers)
  /\ res = "ok"
  /\ matchers' = Put(matchers, mid, CASE kind = "or" -> Union(matchers[a], matchers[b])
                                      [] kind = "and" -> Inter(matchers[a], matchers[b])
                                      [] kind = "sub" -> Diff(matchers[a], matchers[b])
                                      [] kind = "inv" -> Compl(posList, matchers[a]))
  /\ UNCHANGED posList

\* what a matcher shows: its size, its POS tuples in id order, and its verdict on every morpheme of every valid list
MatcherShows(om, mid) ==
  /\ om.res = "ok" /\ om.len = Cardinality(matchers[mid])
  /\ om.items = Items(posList, matchers[mid])
  /\ \A k \in 1..Len(om.hits) :
        LET l == om.hits[k][1]  hs == om.hits[k][2] IN
        (l \in DOMAIN lists /\ lists[l].valid) =>
           /\ Len(hs) = Len(lists[l].ms)
           /\ \A i \in 1..Len(hs) : hs[i] = (lists[l].ms[i].pos_id \in matchers[mid])
=============================================================================
