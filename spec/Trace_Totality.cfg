SPECIFICATION TSpec
CONSTANTS
  MaxLen = 49149
  ReallyMax = 65535
POSTCONDITION Report
CHECK_DEADLOCK FALSE
