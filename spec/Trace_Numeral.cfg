SPECIFICATION TSpec
CONSTANTS
  Strict = FALSE
POSTCONDITION Report
CHECK_DEADLOCK FALSE
