---------------------------------- MODULE MC_Split ----------------------------------
(* C09 on the model: a dictionary with nested split declarations (units of different   *)
(* byte widths, a user layer referencing system and own words); every mode-C path of up  *)
(* to MaxTokens words; SplitPath in modes A and B must refine it with the declared units. *)
EXTENDS Split

CONSTANTS MaxTokens
X == <<120>>  Y == <<121>>  Z == <<122>>  HA == <<227, 129, 130>>  YO == <<240, 160, 174, 183>>
\* system: 0 x, 1 y, 2 z, 3 あ, 4 𠮷, 5 xy (A: x/y), 6 xyz (B: xy/z, A: x/y/z), 7 あx (A: あ/x), 8 𠮷あ (A: 𠮷/あ, B: 𠮷/あ)
Sys == << [key |-> X, a |-> <<>>, b |-> <<>>], [key |-> Y, a |-> <<>>, b |-> <<>>], [key |-> Z, a |-> <<>>, b |-> <<>>],
          [key |-> HA, a |-> <<>>, b |-> <<>>], [key |-> YO, a |-> <<>>, b |-> <<>>],
          [key |-> X \o Y, a |-> << <<0, 0>>, <<0, 1>> >>, b |-> <<>>],
          [key |-> X \o Y \o Z, a |-> << <<0, 0>>, <<0, 1>>, <<0, 2>> >>, b |-> << <<0, 5>>, <<0, 2>> >>],
          [key |-> HA \o X, a |-> << <<0, 3>>, <<0, 0>> >>, b |-> <<>>],
          [key |-> YO \o HA, a |-> << <<0, 4>>, <<0, 3>> >>, b |-> << <<0, 4>>, <<0, 3>> >>] >>
\* user layer 1: 0 zz, 1 xyzz (A: x/y/z/z? no - A: sys xyz / own zz is B; A: x y z zz), 2 あxzz (B: sys あx / own zz)
Usr == << [key |-> Z \o Z, a |-> <<>>, b |-> <<>>],
          [key |-> X \o Y \o Z \o Z \o Z, a |-> << <<0, 0>>, <<0, 1>>, <<0, 2>>, <<1, 0>> >>, b |-> << <<0, 6>>, <<1, 0>> >>],
          [key |-> HA \o X \o Z \o Z, a |-> <<>>, b |-> << <<0, 7>>, <<1, 0>> >>] >>
MDict == <<Sys, Usr>>

VARIABLES pc
MInit == dict = MDict /\ pc = <<>>
AllWords == { <<d, w>> : d \in {0, 1}, w \in 0..8 } \cap { p \in {0, 1} \X (0..8) : p[2] + 1 <= Len(MDict[p[1] + 1]) }
End(p) == IF Len(p) = 0 THEN 0 ELSE p[Len(p)].e
MGrow == /\ Len(pc) < MaxTokens
         /\ \E u \in AllWords \cup { <<-1, 0>> } :
              LET len == IF u[1] = -1 THEN 1 ELSE Len(MDict[u[1] + 1][u[2] + 1].key) IN
              pc' = Append(pc, [b |-> End(pc), e |-> End(pc) + len, ob |-> End(pc), oe |-> End(pc) + len, dic |-> u[1], word |-> u[2]])
         /\ UNCHANGED dict
MSpec == MInit /\ [][MGrow]_<<dict, pc>>

RefinesA == Refines(pc, SplitPath(pc, 1, "A"), "A")
RefinesB == Refines(pc, SplitPath(pc, 1, "B"), "B")
ModeCIdentity == SplitPath(pc, 1, "C") = pc
ApiAgrees == \A i \in 1..Len(pc) : \A m \in {"A", "B"} :
                LET us == Units(pc[i], m) IN
                SplitApiOK(pc[i], m, Len(us) > 0, IF Len(us) > 0 THEN Proj(SplitFrom(pc[i], us, 1, pc[i].b)) ELSE <<>>, SplitPath(pc, 1, m))
=============================================================================
