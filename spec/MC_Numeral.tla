-------------------------------- MODULE MC_Numeral --------------------------------
(* C15 on the model: for every string up to MaxLen over the numeral alphabet, the     *)
(* transcribed parser (NumericParser) accepts every well-formed numeral with its      *)
(* decimal value and refuses every malformed grouping.                                *)
EXTENDS Numeral, Json
P == INSTANCE NumericParser

CONSTANTS MaxLen
Alphabet == {48, 49, 53, 12295, 20108, 21313, 30334, 21315, 19975, 20740, 20806, 44, 46}   \* 0 1 5 〇 二 十 百 千 万 億 兆 , .
VARIABLES s, res
MInit == s = <<>> /\ res = [accepted |-> FALSE, norm |-> <<>>, err |-> "NONE"]
\* strings grow one character at a time, so that every string up to MaxLen is a state
MPick == /\ Len(s) < MaxLen /\ \E c \in Alphabet : s' = Append(s, c) /\ res' = P!Parse(Append(s, c))
MSpec == MInit /\ [][MPick]_<<s, res>>

WellFormedAccepted == (Len(s) > 0 /\ WellFormed(s)) => (res.accepted /\ res.norm = Decimal(s))
\* the value of the same numeral with its stray separators ignored (commas, and points not between two digits)
\* "never joined into a wrong value": whenever the parser joins a string, the value is the additive reading of the
\* string with its stray separators ignored (commas, and points not between two digits); where that reading does
\* not exist (a decimal position would be written twice, a unit has no coefficient ...) the string is refused
Filter(t, keep) == [k \in 1..Cardinality(keep) |-> t[CHOOSE i \in keep : Cardinality({ j \in keep : j < i }) = k - 1]]
NoCommasOf(t) == Filter(t, { i \in 1..Len(t) : t[i] # Comma })
NoDangling(t) == Filter(t, { i \in 1..Len(t) : t[i] = Point => (i > 1 /\ i < Len(t) /\ IsDigit(t[i-1]) /\ IsDigit(t[i+1])) })
Lenient(t) == NoDangling(NoCommasOf(t))
NeverWrongValue == (Len(s) > 0 /\ res.accepted) =>
   LET t == Lenient(s) IN ~AddValue(t).bad /\ res.norm = AddDecimal(t)
\* the named malformed groupings that have no additive reading at all are refused
MalformedRefused == (Len(s) > 0 /\ Malformed(s) /\ AddValue(Lenient(s)).bad) => ~res.accepted
ToleratedJoin == Len(s) > 0 /\ Malformed(s) /\ res.accepted
Consistent == ~(Len(s) > 0 /\ WellFormed(s) /\ Malformed(s))

Class == IF WellFormed(s) THEN "wf" ELSE IF Malformed(s) THEN "malformed" ELSE "other"
Expect == IF WellFormed(s) THEN Decimal(s)
          ELSE IF ~AddValue(Lenient(s)).bad THEN AddDecimal(Lenient(s)) ELSE <<>>
Emit == Len(s) > 0 => PrintT(<<"REPLAY", ToJson([s |-> s, class |-> Class, accepted |-> res.accepted, norm |-> res.norm, err |-> res.err,
                                                 decimal |-> Expect])>>)
=============================================================================
