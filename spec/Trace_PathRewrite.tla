----------------------------- MODULE Trace_PathRewrite -----------------------------
(* Trace validation for C14 (hook H3): the path before the path-rewrite plugins, after  *)
(* each of them, and the analysis of the same text without any such plugin.             *)
(*  rules{rules}                   the configured plugins: [kind, pos, normalize]       *)
(*  path{stage, i, nodes}          stage "best" | "rewrite" (i = plugin index)          *)
(*  noplugin{bounds}               boundaries of the same analysis without the plugins  *)
EXTENDS PathRewrite, TraceIO

VARIABLES l, rules, cur, best
Ev == Rec[l]
tvars == <<l, rules, cur, best>>
TInit == l = 1 /\ rules = <<>> /\ cur = <<>> /\ best = <<>>

NodeOf(n) == [b |-> n.b, e |-> n.e, bb |-> n.bb, eb |-> n.eb, surface |-> n.surface, norm |-> n.norm, pos |-> n.pos,
              id |-> <<n.dic, n.word, n.dform, n.reading, n.total>>]
PathOf(ns) == [i \in 1..Len(ns) |-> NodeOf(ns[i])]

TrRules == /\ l <= NRec /\ Ev.ev = "rules" /\ rules' = Ev.rules /\ cur' = <<>> /\ best' = <<>> /\ l' = l + 1

TrBest == /\ l <= NRec /\ Ev.ev = "path" /\ Ev.stage = "best"
          /\ cur' = PathOf(Ev.nodes) /\ best' = PathOf(Ev.nodes)
          /\ l' = l + 1 /\ UNCHANGED rules

\* after plugin i the path is a merge of the path before it
TrRewrite == /\ l <= NRec /\ Ev.ev = "path" /\ Ev.stage = "rewrite"
             /\ Ev.i + 1 <= Len(rules)
             /\ IsMerge(cur, PathOf(Ev.nodes), rules[Ev.i + 1])
             /\ cur' = PathOf(Ev.nodes)
             /\ l' = l + 1 /\ UNCHANGED <<rules, best>>

\* "the token boundaries are a subset of the boundaries obtained with those plugins disabled"
Bounds(p) == { p[i].b : i \in 1..Len(p) } \cup { p[i].e : i \in 1..Len(p) }
TrNoPlugin == /\ l <= NRec /\ Ev.ev = "noplugin"
              /\ Bounds(cur) \subseteq SeqToSet(Ev.bounds)
              /\ Bounds(best) = SeqToSet(Ev.bounds)
              /\ l' = l + 1 /\ UNCHANGED <<rules, cur, best>>

TNext == TrRules \/ TrBest \/ TrRewrite \/ TrNoPlugin
TSpec == TInit /\ [][TNext]_tvars
=============================================================================
