----------------------------- MODULE Trace_PathRewrite -----------------------------
(* Trace validation for C14 (hook H3): the path before the path-rewrite plugins, after  *)
(* each of them, and the analysis of the same text without any such plugin.             *)
(*  rules{rules}                   the configured plugins: [kind, pos, normalize]       *)
(*  path{stage, i, nodes}          stage "best" | "rewrite" (i = plugin index) | "split" *)
(*  noplugin{bounds}               boundaries of the same analysis without the plugins  *)
EXTENDS PathRewrite, TraceIO

VARIABLES l, rules, cur, best, final
Ev == Rec[l]
tvars == <<l, rules, cur, best, final>>
TInit == l = 1 /\ rules = <<>> /\ cur = <<>> /\ best = <<>> /\ final = <<>>

NodeOf(n) == [b |-> n.b, e |-> n.e, bb |-> n.bb, eb |-> n.eb, surface |-> n.surface, norm |-> n.norm, pos |-> n.pos,
              id |-> <<n.dic, n.word, n.dform, n.reading, n.total>>]
PathOf(ns) == [i \in 1..Len(ns) |-> NodeOf(ns[i])]

TrRules == /\ l <= NRec /\ Ev.ev = "rules" /\ rules' = Ev.rules /\ cur' = <<>> /\ best' = <<>> /\ final' = <<>> /\ l' = l + 1

TrBest == /\ l <= NRec /\ Ev.ev = "path" /\ Ev.stage = "best"
          /\ cur' = PathOf(Ev.nodes) /\ best' = PathOf(Ev.nodes) /\ final' = <<>>
          /\ l' = l + 1 /\ UNCHANGED rules

\* after plugin i the path is a merge of the path before it
TrRewrite == /\ l <= NRec /\ Ev.ev = "path" /\ Ev.stage = "rewrite"
             /\ Ev.i + 1 <= Len(rules)
             /\ IsMerge(cur, PathOf(Ev.nodes), rules[Ev.i + 1])
             /\ cur' = PathOf(Ev.nodes)
             /\ l' = l + 1 /\ UNCHANGED <<rules, best, final>>

\* the A/B split that follows the plugins: "never moved, split or dropped" - a token made by a merge has no
\* declared units and is reported as it was merged, whatever the first merged token declared
Joined(n) == ~\E i \in 1..Len(best) : best[i].b = n.b /\ best[i].e = n.e
TrSplit == /\ l <= NRec /\ Ev.ev = "path" /\ Ev.stage = "split"
           /\ LET q == PathOf(Ev.nodes) IN
              /\ \A i \in 1..Len(cur) : Joined(cur[i]) => \E j \in 1..Len(q) : q[j] = cur[i]
              /\ final' = q
           /\ l' = l + 1 /\ UNCHANGED <<rules, cur, best>>

\* "the token boundaries are a subset of the boundaries obtained with those plugins disabled"
Bounds(p) == { p[i].b : i \in 1..Len(p) } \cup { p[i].e : i \in 1..Len(p) }
TrNoPlugin == /\ l <= NRec /\ Ev.ev = "noplugin"
              /\ Bounds(final) \subseteq SeqToSet(Ev.bounds)                 \* the reported tokens, in the mode of the analysis
              /\ Ev.mode = 2 => (Bounds(cur) \subseteq SeqToSet(Ev.bounds) /\ Bounds(best) = SeqToSet(Ev.bounds))
              /\ l' = l + 1 /\ UNCHANGED <<rules, cur, best, final>>

TNext == TrRules \/ TrBest \/ TrRewrite \/ TrSplit \/ TrNoPlugin
TSpec == TInit /\ [][TNext]_tvars
=============================================================================
