--------------------------------- MODULE DictLayers ---------------------------------
(***************************************************************************)
(* Layered dictionaries (dic/dictionary.rs from_cfg_storage,                 *)
(* merge_user_dictionary; dic/lexicon_set.rs; dic/grammar.rs; the user       *)
(* dictionary builder's POS table).                                          *)
(*                                                                         *)
(* gpos     the grammar's POS list: system POS, then POS registered by        *)
(*          plugins while loading, then the user-only POS of each merged user *)
(*          dictionary (appended WITHOUT deduplication).                      *)
(* stack    merged user dictionaries: [own, off, words]; own = the dictionary's*)
(*          user-only POS in first-occurrence order, off = Len(gpos) at merge  *)
(*          time, words = [pos, refs] with refs to own words or system words.  *)
(*                                                                         *)
(* A user dictionary is compiled against the bare system dictionary: a word's  *)
(* stored POS id is the system id when the POS is a system POS, else            *)
(* n0 + (index in own).  At read time ids >= n0 are rebased: id - n0 + off.     *)
(*                                                                         *)
(* C12: every word reports its layer number and exactly its declared POS;      *)
(* references of layer d resolve into {d, 0}; a 15th user dictionary is         *)
(* refused.                                                                    *)
(***************************************************************************)
EXTENDS Naturals, Sequences, FiniteSets, TLC

CONSTANTS SysPos,       \* sequence of the system dictionary's POS names
          MaxUser       \* 14: number of user dictionaries a dictionary can hold

VARIABLES gpos, stack, phase, refused
lvars == <<gpos, stack, phase, refused>>

n0 == Len(SysPos)
Index(seq, x) == CHOOSE i \in 1..Len(seq) : seq[i] = x
InSeq(seq, x) == \E i \in 1..Len(seq) : seq[i] = x

\* user-only POS of a word list, first-occurrence order (build/lexicon.rs pos_of after preload_pos)
RECURSIVE OwnPos(_, _, _)
OwnPos(words, i, acc) ==
  IF i > Len(words) THEN acc
  ELSE IF InSeq(SysPos, words[i].pos) \/ InSeq(acc, words[i].pos) THEN OwnPos(words, i + 1, acc)
  ELSE OwnPos(words, i + 1, Append(acc, words[i].pos))

StoredPosId(own, p) == IF InSeq(SysPos, p) THEN Index(SysPos, p) - 1 ELSE n0 + Index(own, p) - 1

\* lexicon_set.rs get_word_info_subset: rebase user-defined POS ids
ReportedPos(d, w) ==          \* d >= 1: user layer, w: 1-based word index
  LET u == stack[d]
      id == StoredPosId(u.own, u.words[w].pos)
      rid == IF id >= n0 THEN id - n0 + u.off ELSE id
  IN gpos[rid + 1]

\* update_dict_id: references to non-system words are stamped with the owning layer
ReportedRef(d, ref) == IF ref.own THEN <<d, ref.w>> ELSE <<0, ref.w>>

Init == gpos = SysPos /\ stack = <<>> /\ phase = "plugins" /\ refused = FALSE

\* a plugin with user POS allowed registers its POS unless the grammar already has it
RegisterPos(p) == /\ phase = "plugins"
                  /\ gpos' = IF InSeq(gpos, p) THEN gpos ELSE Append(gpos, p)
                  /\ UNCHANGED <<stack, phase, refused>>

PluginsDone == phase = "plugins" /\ phase' = "merging" /\ UNCHANGED <<gpos, stack, refused>>

MergeUser(words) ==
  /\ phase = "merging" /\ ~refused
  /\ IF Len(stack) >= MaxUser
     THEN refused' = TRUE /\ UNCHANGED <<gpos, stack, phase>>          \* TooManyDictionaries
     ELSE LET own == OwnPos(words, 1, <<>>) IN
          /\ stack' = Append(stack, [own |-> own, off |-> Len(gpos), words |-> words])
          /\ gpos' = gpos \o own
          /\ UNCHANGED <<phase, refused>>

Freeze == phase = "merging" /\ phase' = "frozen" /\ UNCHANGED <<gpos, stack, refused>>

\* C12 on the model
PosStraight == \A d \in 1..Len(stack) : \A w \in 1..Len(stack[d].words) : ReportedPos(d, w) = stack[d].words[w].pos
SystemPosUntouched == \A i \in 1..n0 : gpos[i] = SysPos[i]
AtMostMax == Len(stack) <= MaxUser
=============================================================================
