---------------------------- MODULE Trace_DictIndex ----------------------------
(* Trace validation for C04: lookups on really compiled + loaded layered         *)
(* dictionaries (`vh c04-record`) against the meaning Matches/ExactMatches.      *)
(*  dict{layers, res}   lookup{text, off, res[[dic,word,end]]}   exact{text, n, res[[dic,word]]} *)
EXTENDS DictIndex, TraceIO

VARIABLES l, loaded
tvars == <<dvars, l, loaded>>
Ev == Rec[l]

TInit == Init /\ l = 1 /\ loaded = FALSE

TrDict == /\ l <= NRec /\ Ev.ev = "dict"
          /\ layers' = Ev.layers
          /\ loaded' = (Ev.res = "ok")       \* a refused lexicon is C06's business
          /\ built' = TRUE /\ table' = <<>> /\ trie' = <<>>
          /\ l' = l + 1

TrLookup == /\ l <= NRec /\ Ev.ev = "lookup" /\ loaded
            /\ ~HasField(Ev, "panic")
            /\ LET want == Matches(layers, Ev.text, Ev.off)
                   got  == { [dic |-> Ev.res[i][1], word |-> Ev.res[i][2], end |-> Ev.res[i][3]] : i \in 1..Len(Ev.res) }
               IN got = want /\ Len(Ev.res) = Cardinality(want)
            /\ l' = l + 1 /\ UNCHANGED <<dvars, loaded>>

TrExact == /\ l <= NRec /\ Ev.ev = "exact" /\ loaded
           /\ ~HasField(Ev, "panic")
           /\ LET want == { [dic |-> m.dic, word |-> m.word] : m \in ExactMatches(layers, Ev.text) }
                  got  == { [dic |-> Ev.res[i][1], word |-> Ev.res[i][2]] : i \in 1..Len(Ev.res) }
              IN got = want /\ Len(Ev.res) = Cardinality(want) /\ Ev.n = Cardinality(want)
           /\ l' = l + 1 /\ UNCHANGED <<dvars, loaded>>

TNext == TrDict \/ TrLookup \/ TrExact
TSpec == TInit /\ [][TNext]_tvars
=============================================================================
