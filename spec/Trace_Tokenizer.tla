------------------------------- MODULE Trace_Tokenizer -------------------------------
(* Trace validation for C10 (`vh c10-run`): operation histories on one real tokenizer and  *)
(* one reused result list; every analysis is logged together with the result of a fresh     *)
(* tokenizer that has the same mode and field request.                                      *)
(*  create{plain}  set_mode{m}  set_subset{bits}                                            *)
(*  analyse{nchars, toolong, res, fresh{res, ms}}   collect{res, ms}                        *)
EXTENDS Tokenizer, TraceIO

VARIABLES l, freshOf, reqOf, plain
xvars == <<tvars, l, freshOf, reqOf, plain>>
Ev == Rec[l]
Order == <<"SURFACE", "HWL", "POS", "NORM", "DICFORM", "READING", "SPLIT_A", "SPLIT_B", "WSTRUCT", "SYN">>
BitsToFields(b) == { Order[i] : i \in { i \in 1..10 : (b \div (2 ^ (i - 1))) % 2 = 1 } }

TInit == Init /\ l = 1 /\ freshOf = <<>> /\ reqOf = <<>> /\ plain = TRUE

TrCreate == /\ l <= NRec /\ Ev.ev = "create"
            /\ gen' = 0 /\ rows' = <<>> /\ size' = 0 /\ tables' = 0 /\ scratch' = {} /\ path' = 0 /\ lst' = 0
            /\ mode' = "C" /\ raw' = Fields /\ loaded' = Fields /\ reads' = {} /\ outcome' = "none"
            /\ freshOf' = <<>> /\ reqOf' = <<>> /\ plain' = Ev.plain /\ l' = l + 1

TrMode == /\ l <= NRec /\ Ev.ev = "set_mode" /\ SetMode(Ev.m)
          /\ l' = l + 1 /\ UNCHANGED <<freshOf, reqOf, plain>>
TrSubset == /\ l <= NRec /\ Ev.ev = "set_subset" /\ SetSubset(BitsToFields(Ev.bits))
            /\ l' = l + 1 /\ UNCHANGED <<freshOf, reqOf, plain>>

\* the outcome of an analysis does not depend on history either: it is the fresh tokenizer's outcome
TrAnalyse == /\ l <= NRec /\ Ev.ev = "analyse"
             /\ Ev.res = Ev.fresh.res /\ Ev.res \in {"ok", "err"}
             /\ (Ev.toolong => Ev.res = "err")
             /\ LET empty == Ev.res = "ok" /\ Len(Ev.fresh.ms) = 0
                IN Analyse(IF empty THEN 0 ELSE Ev.nchars, Ev.res = "err")
             /\ freshOf' = Append(freshOf, IF Ev.res = "ok" THEN Ev.fresh.ms ELSE <<>>)
             /\ reqOf' = Append(reqOf, Req)
             /\ l' = l + 1 /\ UNCHANGED plain

\* "exactly what a freshly created tokenizer with the same mode and field request yields":
\* boundaries, word identities and every requested field
Comparable(r) == plain \/ {"SURFACE", "POS", "NORM"} \subseteq r
Same(m, f, r) == /\ m.begin = f.begin /\ m.end = f.end /\ m.dic = f.dic /\ m.word = f.word
                 /\ \A fld \in r : m[fld] = f[fld]
TrCollect == /\ l <= NRec /\ Ev.ev = "collect"
             /\ Ev.res = "ok"
             /\ Collect
             /\ IF lst' = 0 THEN Ev.ms = <<>>
                ELSE Comparable(reqOf[lst']) =>
                       /\ Len(Ev.ms) = Len(freshOf[lst'])
                       /\ \A i \in 1..Len(Ev.ms) : Same(Ev.ms[i], freshOf[lst'][i], reqOf[lst'])
             /\ l' = l + 1 /\ UNCHANGED <<freshOf, reqOf, plain>>

TNext == TrCreate \/ TrMode \/ TrSubset \/ TrAnalyse \/ TrCollect
TSpec == TInit /\ [][TNext]_xvars
=============================================================================
