SPECIFICATION MSpec
CONSTANTS
  MaxLen = 3
INVARIANTS Complete VisitedReachable
CHECK_DEADLOCK FALSE
