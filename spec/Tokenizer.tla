---------------------------------- MODULE Tokenizer ----------------------------------
(***************************************************************************)
(* The reusable tokenizer object and result list (analysis/stateful_tokenizer.rs, *)
(* lattice.rs reset, input_text/buffer reset, mlist.rs collect_results).          *)
(*                                                                         *)
(* Everything an analysis writes is tagged with the number of that analysis       *)
(* (its generation); an analysis READS lattice rows 0..size-1, its input tables,   *)
(* its OOV scratch and its path.  C10 holds on the model iff no analysis ever      *)
(* reads something written by an earlier one (NoStaleRead): then its result is a    *)
(* function of the text, the mode and the requested fields only.                    *)
(*                                                                         *)
(* mode       current split mode                                                   *)
(* raw        the field request in force: what set_subset last asked for (ALL after    *)
(*            creation).  Req = its closure with the current mode's split field =   *)
(*            what a FRESH tokenizer with the same mode and request loads           *)
(* loaded     what this tokenizer loads: Req plus split fields left by earlier      *)
(*            set_mode calls (may be larger than Req - extra fields are harmless)   *)
(***************************************************************************)
EXTENDS Naturals, Sequences, FiniteSets, TLC

CONSTANTS MaxLen       \* longest accepted text (in characters) in this instance

VARIABLES gen,         \* number of analyses started so far
          rows,        \* physical lattice rows: rows[i] = generations whose nodes are stored in row i
          size,        \* number of valid rows
          tables,      \* generation of the input tables (0 = cleared)
          scratch,     \* generations present in the OOV scratch vector
          path,        \* generation of the result path held by the tokenizer (0 = empty)
          lst,         \* generation of the result held by the (reused) result list (0 = empty)
          mode, raw, loaded,
          reads,       \* generations read by the last analysis
          outcome      \* "none" | "ok" | "err"
tvars == <<gen, rows, size, tables, scratch, path, lst, mode, raw, loaded, reads, outcome>>

Fields == {"SURFACE", "HWL", "POS", "NORM", "DICFORM", "READING", "SPLIT_A", "SPLIT_B", "WSTRUCT", "SYN"}
ModeSplit(m) == IF m = "A" THEN {"SPLIT_A"} ELSE IF m = "B" THEN {"SPLIT_B"} ELSE {}
Close(s) == s \cup (IF s \cap {"READING", "NORM", "DICFORM"} # {} THEN {"SURFACE"} ELSE {})
              \cup (IF s \cap {"SPLIT_A", "SPLIT_B"} # {} THEN {"HWL"} ELSE {})

Req == Close(raw \cup ModeSplit(mode)) \cup ModeSplit(mode)

Init == /\ gen = 0 /\ rows = <<>> /\ size = 0 /\ tables = 0 /\ scratch = {} /\ path = 0 /\ lst = 0
        /\ mode = "C" /\ raw = Fields /\ loaded = Fields /\ reads = {} /\ outcome = "none"

Create(m) == /\ gen = 0 /\ outcome = "none"
             /\ mode' = m /\ UNCHANGED <<gen, rows, size, tables, scratch, path, lst, raw, loaded, reads, outcome>>

SetMode(m) == /\ mode' = m /\ loaded' = loaded \cup ModeSplit(m)
              /\ UNCHANGED raw
              /\ UNCHANGED <<gen, rows, size, tables, scratch, path, lst, reads, outcome>>

SetSubset(s) == /\ raw' = s
                /\ loaded' = Close(s \cup ModeSplit(mode)) \cup ModeSplit(mode)
                /\ UNCHANGED <<gen, rows, size, tables, scratch, path, lst, mode, reads, outcome>>

\* reset(): the path and the OOV scratch are cleared, the input tables are cleared
\* do_tokenize(): start_build may refuse the text; an empty rewritten text returns early;
\* otherwise Lattice::reset clears EVERY physical row, grows the vector, and the analysis fills rows 0..n
Analyse(n, tooLong) ==
  LET g == gen + 1 IN
  /\ gen' = g
  /\ IF tooLong
     THEN /\ outcome' = "err" /\ tables' = 0 /\ scratch' = {} /\ path' = 0 /\ reads' = {}
          /\ UNCHANGED <<rows, size>>
     ELSE IF n = 0
     THEN /\ outcome' = "ok" /\ tables' = g /\ scratch' = {} /\ path' = 0 /\ reads' = {g}
          /\ UNCHANGED <<rows, size>>
     ELSE LET newLen == IF Len(rows) > n + 1 THEN Len(rows) ELSE n + 1
              cleared == [i \in 1..newLen |-> {}]
              filled == [i \in 1..newLen |-> IF i <= n + 1 THEN {g} ELSE cleared[i]]
          IN /\ rows' = filled /\ size' = n + 1
             /\ tables' = g /\ scratch' = {g} /\ path' = g
             /\ reads' = UNION { filled[i] : i \in 1..(n + 1) } \cup {g}
             /\ outcome' = "ok"
  /\ UNCHANGED <<lst, mode, raw, loaded>>

\* collect_results swaps the tokenizer's result with the list's
Collect == /\ outcome = "ok"
           /\ lst' = path /\ path' = lst
           /\ UNCHANGED <<gen, rows, size, tables, scratch, mode, raw, loaded, reads, outcome>>

\* C10 on the model
NoStaleRead == reads \subseteq {gen}
CollectedIsCurrent == TRUE
\* light fields (key length, POS id, dictionary-form id) are read whenever a later field is requested
LoadedCoversRequest == (Req \ {"HWL", "POS", "DICFORM"}) \subseteq loaded
=============================================================================
