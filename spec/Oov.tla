------------------------------------ MODULE Oov ------------------------------------
(***************************************************************************)
(* Unknown-word candidates (input_text/buffer/mod.rs build, fill_cat_continuity; *)
(* plugin/oov/{mecab,simple,regex}_oov; LatticeBuilder::build_lattice).           *)
(*                                                                         *)
(* cats[i]    class set of the i-th character of the rewritten text (1-based);   *)
(*            "NOOOVBOW" / "NOOOVBOW2" are members like any other class.          *)
(* info[c]    [invoke, group, length] of class c (the character-definition file);*)
(* unk[c]     sequence of unknown-word definitions [lid, rid, cost, pos] of c.    *)
(* providers  sequence of [kind |-> "mecab"] | [kind |-> "simple", lid, rid, cost,*)
(*            pos] | [kind |-> "regex", set, max, strict, lid, rid, cost, pos]    *)
(*                                                                         *)
(* C13: candidates at a position are exactly what these definitions prescribe;  *)
(* class runs are determined greedily from the start of the text.               *)
(***************************************************************************)
EXTENDS Naturals, Sequences, FiniteSets, TLC

VARIABLES cats, info, unk, providers
ovars == <<cats, info, unk, providers>>

N == Len(cats)
Min2(a, b) == IF a <= b THEN a ELSE b

-----------------------------------------------------------------------------
(* Class runs, as the property defines them: the text is cut greedily from its   *)
(* start; a segment is the longest stretch whose running intersection of class   *)
(* sets stays non-empty.                                                         *)
RECURSIVE SegEndOf(_, _, _, _)
SegEndOf(cs, s, e, common) ==      \* segment starting at s currently covers s..e
  IF e + 1 <= Len(cs) /\ (common \cap cs[e + 1]) # {} THEN SegEndOf(cs, s, e + 1, common \cap cs[e + 1]) ELSE e
RECURSIVE SegStartsOf(_, _, _)
SegStartsOf(cs, s, acc) == IF s > Len(cs) THEN acc ELSE SegStartsOf(cs, SegEndOf(cs, s, s, cs[s]) + 1, Append(acc, s))
Starts == SegStartsOf(cats, 1, <<>>)
SegOf(i) == CHOOSE k \in 1..Len(Starts) : Starts[k] <= i /\ (k = Len(Starts) \/ i < Starts[k + 1])
SegLast(i) == IF SegOf(i) = Len(Starts) THEN N ELSE Starts[SegOf(i) + 1] - 1
RunLen(i) == SegLast(i) - i + 1

(* Word-start permission (InputBuffer::build) *)
NonStarting == {"ALPHA", "GREEK", "CYRILLIC"}
RECURSIVE BowFrom(_, _, _, _)
BowFrom(i, nextBow, prev, acc) ==
  IF i > N THEN acc
  ELSE LET c == cats[i] IN
       IF ~nextBow THEN BowFrom(i + 1, TRUE, c, Append(acc, FALSE))
       ELSE IF "NOOOVBOW2" \in c THEN BowFrom(i + 1, FALSE, c, Append(acc, FALSE))
       ELSE IF "NOOOVBOW" \in c THEN BowFrom(i + 1, TRUE, c, Append(acc, FALSE))
       ELSE IF (c \cap NonStarting) # {} THEN BowFrom(i + 1, TRUE, c, Append(acc, (c \cap prev) = {}))
       ELSE BowFrom(i + 1, TRUE, c, Append(acc, TRUE))
CanBow == BowFrom(1, TRUE, {}, <<>>)

\* length (in characters) from i to the next permissible word start
NextBowLen(i) == LET later == { j \in (i + 1)..N : CanBow[j] } IN
                 IF later = {} THEN N - i + 1 ELSE (CHOOSE j \in later : \A k \in later : j <= k) - i

-----------------------------------------------------------------------------
Node(i, len, d) == [b |-> i - 1, e |-> i - 1 + len, lid |-> d.lid, rid |-> d.rid, cost |-> d.cost, pos |-> d.pos]

\* MeCab-style provider: per class of the character
MecabClass(i, c, hasWords) ==
  IF c \notin DOMAIN info \/ c \notin DOMAIN unk THEN {}
  ELSE LET ci == info[c]
           run == RunLen(i)
       IN IF ~ci.invoke /\ hasWords THEN {}
          ELSE LET grouped == IF ci.group THEN { Node(i, run, unk[c][k]) : k \in 1..Len(unk[c]) } ELSE {}
                   limit == IF ci.group THEN run - 1 ELSE run
                   lens == { Min2(k, N - i + 1) : k \in { k \in 1..ci.length : \A j \in 1..k : Min2(j, N - i + 1) <= limit } }
               IN grouped \cup { Node(i, len, unk[c][k]) : len \in lens, k \in 1..Len(unk[c]) }
MecabCands(i, hasWords) == UNION { MecabClass(i, c, hasWords) : c \in cats[i] }

SimpleCands(p, i, hasWords) == IF hasWords THEN {} ELSE { Node(i, NextBowLen(i), p) }

\* regex provider for expressions of the shape [set]+
RECURSIVE MatchLen(_, _, _, _)
MatchLen(i, k, set, text) == IF i + k <= Len(text) /\ text[i + k] \in set THEN MatchLen(i, k + 1, set, text) ELSE k
RegexCands(p, i, lens, text) ==
  IF p.strict /\ i > 1 /\ RunLen(i) + 1 = RunLen(i - 1) THEN {}
  ELSE LET window == SubSeq(text, 1, Min2(N, i - 1 + p.max))
           m == MatchLen(i, 0, p.set, window)
       IN IF m = 0 \/ m \in lens THEN {} ELSE { Node(i, m, p) }

Provide(p, i, lens, text) ==
  CASE p.kind = "mecab"  -> MecabCands(i, lens # {})
    [] p.kind = "simple" -> SimpleCands(p, i, lens # {})
    [] p.kind = "regex"  -> RegexCands(p, i, lens, text)

NoBow(i) == ("NOOOVBOW" \in cats[i]) \/ ("NOOOVBOW2" \in cats[i])

\* the provider loop at one position: lens = lengths of the dictionary words found there.
\* Result: sequence of [provider index, fallback flag, nodes] calls the loop makes.
RECURSIVE CallsFrom(_, _, _, _, _)
CallsFrom(i, k, lens, text, acc) ==
  IF k > Len(providers) THEN [calls |-> acc, lens |-> lens]
  ELSE LET ns == Provide(providers[k], i, lens, text)
       IN CallsFrom(i, k + 1, lens \cup { n.e - n.b : n \in ns }, text, Append(acc, [provider |-> k - 1, fallback |-> FALSE, nodes |-> ns]))

PositionCalls(i, dictLens, text) ==
  LET first == IF NoBow(i) THEN [calls |-> <<>>, lens |-> dictLens] ELSE CallsFrom(i, 1, dictLens, text, <<>>)
  IN IF first.lens = {}
     THEN LET ns == Provide(providers[Len(providers)], i, {}, text)
          IN [calls |-> Append(first.calls, [provider |-> Len(providers) - 1, fallback |-> TRUE, nodes |-> ns]),
              lens |-> { n.e - n.b : n \in ns }]
     ELSE first

-----------------------------------------------------------------------------
\* structural facts about class runs (checked by TLC on the bounded model)
RunsTile == N > 0 => /\ Starts[1] = 1
                     /\ \A k \in 1..(Len(Starts) - 1) : Starts[k] < Starts[k + 1]
RECURSIVE Common(_, _)
Common(s, e) == IF s = e THEN cats[s] ELSE cats[e] \cap Common(s, e - 1)
RunsShareAClass == \A i \in 1..N : Common(i, SegLast(i)) # {}
\* "a base character is never separated from following marks merely because of what follows them":
\* appending text never changes how the text before it is cut
PrefixStable == N > 1 =>
  LET sp == SegStartsOf(SubSeq(cats, 1, N - 1), 1, <<>>)
  IN { sp[k] : k \in 1..Len(sp) } = { Starts[k] : k \in { k \in 1..Len(Starts) : Starts[k] <= N - 1 } }
RunsMaximal == \A k \in 1..(Len(Starts) - 1) :
                  (Common(Starts[k], Starts[k + 1] - 1) \cap cats[Starts[k + 1]]) = {}
=============================================================================
