-------------------------------- MODULE Trace_Analysis --------------------------------
(* Trace validation of the lattice-building loop (hook events of whole analyses, regrouped per run by the      *)
(* check script of C02):                                                                                      *)
(*   world{dicts}          the lexicon sources: per dictionary the keys and left ids, in CSV row order          *)
(*   tables{mod, bow}      the rewritten text and the word-start table the buffer reports (validated by C13)    *)
(*   pos_begin{p}  lat_ins{b, e, dic, word}  pos_done{p}  lat_eos{res}                                          *)
EXTENDS Analysis, TraceIO

VARIABLES l
Ev == Rec[l]
TInit == AInit /\ l = 1

TrWorld == /\ l <= NRec /\ Ev.ev = "world"
           /\ dicts' = Ev.dicts /\ mod' = <<>> /\ bow' = <<>> /\ reach' = {} /\ cur' = -1 /\ lastDone' = -1
           /\ dictIns' = {} /\ oovIns' = {} /\ cands' = {} /\ phase' = "idle" /\ l' = l + 1
TrTables == /\ l <= NRec /\ Ev.ev = "tables" /\ Start(Ev.mod, Ev.bow) /\ l' = l + 1
TrPos == /\ l <= NRec /\ Ev.ev = "pos_begin" /\ PosBegin(Ev.p) /\ l' = l + 1
TrIns == /\ l <= NRec /\ Ev.ev = "lat_ins" /\ Ev.b = cur
         /\ IF Ev.dic = 15 THEN InsOov(Ev.e, Ev.word) ELSE InsDict(Ev.dic, Ev.word, Ev.e)
         /\ l' = l + 1
TrDone == /\ l <= NRec /\ Ev.ev = "pos_done" /\ Ev.p = cur /\ PosDone /\ l' = l + 1
TrEos == /\ l <= NRec /\ Ev.ev = "lat_eos" /\ Close(Ev.res = "ok") /\ l' = l + 1

TNext == TrWorld \/ TrTables \/ TrPos \/ TrIns \/ TrDone \/ TrEos
TSpec == TInit /\ [][TNext]_<<avars, l>>
=============================================================================
