----------------------------- MODULE MC_InputBuffer -----------------------------
(* Bounded instance: all original texts up to MaxChars over Alphabet, all batches *)
(* of at most MaxEdits well-formed edits with replacements from Repl, at most      *)
(* MaxBatches batches.  hist is part of the state so that every TRANSITION is      *)
(* emitted for replay into the real InputBuffer.                                   *)
EXTENDS InputBuffer, Json

CONSTANTS Alphabet, MaxChars, MaxEdits, MaxBatches, Repl, GenHist

VARIABLES nb, hist
mcvars == <<ibvars, nb, hist>>

Texts == UNION { [1..n -> Alphabet] : n \in 0..MaxChars }

Ranges(t) == { <<s, e>> \in Boundaries(t) \X Boundaries(t) : s < e }

\* all well-formed edit lists of length <= MaxEdits
RECURSIVE EditListsFrom(_, _, _)
EditListsFrom(t, from, k) ==
  IF k = 0 THEN { <<>> }
  ELSE { <<>> } \cup
       UNION { { <<[s |-> r[1], e |-> r[2], w |-> w]>> \o rest : rest \in EditListsFrom(t, r[2], k - 1) }
               : r \in { r \in Ranges(t) : r[1] >= from }, w \in Repl }
EditLists(t) == EditListsFrom(t, 0, MaxEdits) \ { <<>> }

ReplSet == { <<>>, <<98>>, <<12356>>, <<98, 134072>> }

MCInit == /\ st = "clean" /\ orig = <<>> /\ mod = <<>> /\ m2o = <<>> /\ tags = <<>>
          /\ nb = 0 /\ hist = <<>>

MCStart == \E t \in Texts : /\ StartBuild(t) /\ nb' = 0
                            /\ hist' = IF GenHist THEN <<[text |-> t]>> ELSE <<>>

MCCommit == /\ nb < MaxBatches
            /\ \E ops \in EditLists(mod) :
                 /\ Commit(ops)
                 /\ nb' = nb + 1
                 /\ hist' = IF GenHist
                            THEN Append(hist, [ops |-> ops, mod |-> mod', st |-> st',
                                               mb |-> IF st' = "rw" THEN MapAtBoundaries(mod', m2o') ELSE <<>>])
                            ELSE <<>>

MCNext == MCStart \/ MCCommit
MCSpec == MCInit /\ [][MCNext]_mcvars

Emit == (GenHist /\ nb >= 1) =>
          PrintT(<<"REPLAY", ToJson([hist |-> hist,
                                     oc |-> IF st = "rw" /\ Len(mod) > 0 THEN OrigCharAtBoundaries ELSE <<>>])>>)
=============================================================================
