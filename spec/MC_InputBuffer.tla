----------------------------- MODULE MC_InputBuffer -----------------------------
(* Bounded instance: all original texts up to MaxChars over Alphabet, all batches *)
(* of at most MaxEdits well-formed edits with replacements from Repl, at most      *)
(* MaxBatches batches.  hist is part of the state so that every TRANSITION is      *)
(* emitted for replay into the real InputBuffer.                                   *)
EXTENDS InputBuffer, Json, SequencesExt

CONSTANTS Alphabet, MaxChars, MaxEdits, MaxBatches, Repl, GenHist

VARIABLES nb, hist
mcvars == <<ibvars, nb, hist>>

Texts == UNION { [1..n -> Alphabet] : n \in 0..MaxChars }

Ranges(t) == { <<s, e>> \in Boundaries(t) \X Boundaries(t) : s < e }

\* all well-formed edit lists of length <= MaxEdits
RECURSIVE EditListsFrom(_, _, _)
EditListsFrom(t, from, k) ==
  IF k = 0 THEN { <<>> }
  ELSE { <<>> } \cup
       UNION { { <<[s |-> r[1], e |-> r[2], w |-> w]>> \o rest : rest \in EditListsFrom(t, r[2], k - 1) }
               : r \in { r \in Ranges(t) : r[1] >= from }, w \in Repl }
EditLists(t) == EditListsFrom(t, 0, MaxEdits) \ { <<>> }

ReplSet == { <<>>, <<98>>, <<12356>>, <<98, 134072>> }

MCInit == /\ st = "clean" /\ orig = <<>> /\ mod = <<>> /\ m2o = <<>> /\ tags = <<>>
          /\ nb = 0 /\ hist = <<>>

MCStart == \E t \in Texts : /\ StartBuild(t) /\ nb' = 0
                            /\ hist' = IF GenHist THEN <<[text |-> t]>> ELSE <<>>

MCCommit == /\ nb < MaxBatches
            /\ \E ops \in EditLists(mod) :
                 /\ Commit(ops)
                 /\ nb' = nb + 1
                 /\ hist' = IF GenHist
                            THEN Append(hist, [ops |-> ops, mod |-> mod', st |-> st',
                                               mb |-> IF st' = "rw" THEN MapAtBoundaries(mod', m2o') ELSE <<>>])
                            ELSE <<>>

MCNext == MCStart \/ MCCommit
MCSpec == MCInit /\ [][MCNext]_mcvars

\* expected view of the tiling of mod by single characters (what morphemes covering one
\* character each must report): original byte range and surface
CharTiles == LET mb == MapAtBoundaries(mod, m2o)
             IN [i \in 1..Len(mod) |-> [b |-> mb[i], e |-> mb[i+1], s |-> SubByBytes(orig, mb[i], mb[i+1])]]

Emit == (GenHist /\ nb >= 1) =>
          PrintT(<<"REPLAY", ToJson([hist |-> hist,
                                     oc |-> IF st = "rw" /\ Len(mod) > 0 THEN OrigCharAtBoundaries ELSE <<>>,
                                     tiles |-> IF st = "rw" /\ Len(mod) > 0 THEN CharTiles ELSE <<>>])>>)

\* C01 on the model: EVERY tiling of the rewritten text by tokens on character boundaries
\* maps to a partition of the original text whose surfaces concatenate to it.
SortedCuts(S) == SetToSortSeq(S, LAMBDA a, b : a < b)
RECURSIVE Concat(_, _)
Concat(ss, i) == IF i > Len(ss) THEN <<>> ELSE ss[i] \o Concat(ss, i + 1)
AnyTilingPartitions ==
  (st = "rw" /\ Len(mod) > 0) =>
    LET mb == MapAtBoundaries(mod, m2o)
        n  == Len(mod)
    IN \A cuts \in SUBSET (2..n) :
         LET cs == SortedCuts(cuts \cup {1, n + 1})            \* sorted cut indices into mb
             k  == Len(cs) - 1
             rng == [j \in 1..k |-> [b |-> mb[cs[j]], e |-> mb[cs[j+1]]]]
         IN /\ rng[1].b = 0 /\ rng[k].e = ByteLen(orig)
            /\ \A j \in 1..(k - 1) : rng[j].e = rng[j+1].b
            /\ \A j \in 1..k : rng[j].b <= rng[j].e /\ IsBoundary(orig, rng[j].b) /\ IsBoundary(orig, rng[j].e)
            /\ Concat([j \in 1..k |-> SubByBytes(orig, rng[j].b, rng[j].e)], 1) = orig
=============================================================================
