SPECIFICATION TSpec
CONSTANTS
  Threads <- TraceThreads
  Texts <- TraceTexts
  MaxReads = 1
  MaxRuns = 1
  Variant = "sound"
INVARIANTS EveryResultSequential DictImmutable
POSTCONDITION Report
CHECK_DEADLOCK FALSE
