------------------------------- MODULE Trace_Bindings -------------------------------
(* Trace validation for C19, Python half (pydrv/c19_py.py + `vh c19-lib`).                              *)
(*   lib{op, cfg, text, mode, res, ms}      a result of the core library (the oracle)                   *)
(*   sess{cfg}                               a fresh interpreter-level session: no objects              *)
(*   call{op, args, res, same_object}        one Python API call and whether it raised                  *)
(*   obs{modes, lists, handles}              what every live object shows right after the call          *)
(* The driver logs no state of the specification: which library result a list must show is inferred by   *)
(* the actions of Bindings from the history of calls.                                                    *)
EXTENDS BindingsPos, TraceIO

VARIABLES l, cfg
Ev == Rec[l]
TInit == BInit /\ PInit /\ l = 1 /\ cfg = ""
tvars == <<bvars, pvars, l, cfg>>

Res(r) == IF r = "ok" THEN "ok" ELSE "err"      \* a panic of the library is an exception in Python

TrLibPos == /\ l <= NRec /\ Ev.ev = "lib" /\ Ev.op = "pos"
            /\ posList' = Ev.list /\ UNCHANGED <<bvars, matchers, pretoks, cfg>> /\ l' = l + 1

TrLib == /\ l <= NRec /\ Ev.ev = "lib" /\ Ev.op # "pos"
         /\ IF Ev.op = "tok"
            THEN libTok' = Put(libTok, <<Ev.text, Ev.mode, SeqToSet(Ev.fields)>>, [res |-> Res(Ev.res), ms |-> Ev.ms]) /\ UNCHANGED libLookup
            ELSE libLookup' = Put(libLookup, Ev.text, [res |-> Res(Ev.res), ms |-> Ev.ms]) /\ UNCHANGED libTok
         /\ UNCHANGED <<tks, lists, handles, nextInp, cfg, pvars>> /\ l' = l + 1

TrSess == /\ l <= NRec /\ Ev.ev = "sess"
          /\ tks' = Fn0 /\ lists' = Fn0 /\ handles' = Fn0 /\ nextInp' = 1 /\ cfg' = Ev.cfg
          /\ libTok' = Fn0 /\ libLookup' = Fn0 /\ matchers' = Fn0 /\ posList' = <<>> /\ pretoks' = Fn0 /\ l' = l + 1        \* the oracle's results for this session follow

Fields(a) == IF a.all_fields THEN AllFields ELSE SeqToSet(a.fields)

IsPosOp == Ev.op \in {"matcher", "matcher_fn", "mop", "pretok_new", "pretok_call"}

TrPosCall == /\ l <= NRec /\ Ev.ev = "call" /\ IsPosOp
             /\ LET a == Ev.args IN
                CASE Ev.op = "matcher" -> MatcherNew(a.mid, a.pats, Ev.res)
                  [] Ev.op = "matcher_fn" -> MatcherFn(a.mid, a.field, a.value, Ev.res)
                  [] Ev.op = "mop" -> MatcherOp(a.mid, a.kind, a.a, a.b, Ev.res)
                  [] Ev.op = "pretok_new" -> Ev.res = "ok" /\ PreTokNew(a.pt, a.mode, Fields(a), a.projection, a.handler)
                  [] Ev.op = "pretok_call" -> PreTokCall(a.pt, a.text, Ev.res, Ev.val)
             /\ UNCHANGED <<bvars, cfg>> /\ l' = l + 1

TrCall == /\ l <= NRec /\ Ev.ev = "call" /\ ~IsPosOp
          /\ LET a == Ev.args IN
             CASE Ev.op = "create"   -> Ev.res = "ok" /\ Create(a.tk, a.mode, Fields(a), a.projection)
               [] Ev.op = "tokenize" -> /\ Tokenize(a.tk, a.text, a.mode, a.out, a.new, Ev.res)
                                        /\ (Ev.res = "ok" /\ a.out # None) => Ev.same_object
               [] Ev.op = "split"    -> /\ Split(a.list, a.idx, a.mode, a.out, a.new, a.add_single, Ev.res)
                                        /\ (Ev.res = "ok" /\ a.out # None) => Ev.same_object
               [] Ev.op = "lookup"   -> /\ Lookup(a.text, a.out, a.new, Ev.res)
                                        /\ (Ev.res = "ok" /\ a.out # None) => Ev.same_object
               [] Ev.op = "hold"     -> Hold(a.h, a.list, a.idx, Ev.res)
          /\ UNCHANGED <<cfg, pvars>> /\ l' = l + 1

TrObs == /\ l <= NRec /\ Ev.ev = "obs"
         /\ \A i \in 1..Len(Ev.modes) : tks[Ev.modes[i][1]].mode = Ev.modes[i][2]     \* the creation mode, whatever was overridden
         /\ {Ev.lists[i][1] : i \in 1..Len(Ev.lists)} = DOMAIN lists
         /\ \A i \in 1..Len(Ev.lists) : ListShows(Ev.lists[i][2], Ev.lists[i][1])
         /\ \A i \in 1..Len(Ev.handles) : HandleShows(Ev.handles[i][2], Ev.handles[i][1])
         /\ {Ev.matchers[i][1] : i \in 1..Len(Ev.matchers)} = DOMAIN matchers
         /\ \A i \in 1..Len(Ev.matchers) : MatcherShows(Ev.matchers[i][2], Ev.matchers[i][1])
         /\ UNCHANGED <<bvars, pvars, cfg>> /\ l' = l + 1

TNext == TrLib \/ TrLibPos \/ TrSess \/ TrCall \/ TrPosCall \/ TrObs
TSpec == TInit /\ [][TNext]_tvars
=============================================================================
