-------------------------------- MODULE Trace_UserCost --------------------------------
(* Trace validation of user-dictionary cost computation (`vh c02-usercost`, load-time hook events).         *)
(*   declare{dic, word, key, cost}     a row of a user lexicon source                                       *)
(*   inner{text, totals}               the result of an analysis made while loading (regrouped from the     *)
(*                                     path event of its last stage)                                        *)
(*   set_cost{dic, word, cost}         hook at WordParams::set_cost                                         *)
(*   final{dic, word, cost}            get_word_param of the loaded dictionary                              *)
(*   reset                             a new dictionary stack                                               *)
EXTENDS UserCost, TraceIO

VARIABLES l
Ev == Rec[l]
TInit == UInit /\ l = 1

TrReset == /\ l <= NRec /\ Ev.ev = "reset" /\ stage' = 0 /\ inner' = <<>> /\ assigned' = Fn0 /\ declared' = Fn0 /\ l' = l + 1
TrDeclare == /\ l <= NRec /\ Ev.ev = "declare" /\ Declare(Ev.dic, Ev.word, Ev.key, Ev.cost) /\ l' = l + 1
TrInner == /\ l <= NRec /\ Ev.ev = "inner" /\ InnerAnalysis(Ev.text, Ev.totals) /\ l' = l + 1
TrSetCost == /\ l <= NRec /\ Ev.ev = "set_cost" /\ SetCost(Ev.dic, Ev.word, Ev.cost) /\ l' = l + 1
TrFinal == /\ l <= NRec /\ Ev.ev = "final" /\ FinalCostOK(Ev.dic, Ev.word, Ev.cost) /\ UNCHANGED uvars /\ l' = l + 1

TSpec == TInit /\ [][TrReset \/ TrDeclare \/ TrInner \/ TrSetCost \/ TrFinal]_<<uvars, l>>
=============================================================================
