SPECIFICATION Spec
CONSTANTS
  t1 = t1
  t2 = t2
  t3 = t3
  Threads <- MCThreads
  Texts = {"x", "y"}
  MaxReads = 2
  MaxRuns = 2
  Variant = "guarded_shared"
CONSTRAINT Bounded
INVARIANTS EveryResultSequential DictImmutable
CHECK_DEADLOCK FALSE
