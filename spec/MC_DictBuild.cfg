SPECIFICATION MSpec
CONSTANTS
  MaxDefects = 2
INVARIANTS NoPanicType Emit
CHECK_DEADLOCK FALSE
