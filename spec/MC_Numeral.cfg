SPECIFICATION MSpec
CONSTANTS
  MaxLen = 5
INVARIANTS Consistent WellFormedAccepted NeverWrongValue MalformedRefused
CHECK_DEADLOCK FALSE
