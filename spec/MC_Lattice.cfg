SPECIFICATION MSpec
CONSTANTS
  INF = 2147483647
  MaxN = 3
  MaxNodes = 3
  Ids = {0, 1}
  Costs <- CostSetQ
  WhichConn = 1
INVARIANTS ViterbiInv EosOptimal Emit
CHECK_DEADLOCK FALSE
