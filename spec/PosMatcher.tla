---------------------------------- MODULE PosMatcher ----------------------------------
(***************************************************************************)
(* Part-of-speech matchers of the Python API (python/src/pos_matcher.rs over          *)
(* sudachi/src/pos.rs): a matcher IS a set of POS ids of one dictionary.               *)
(*   from patterns: the ids whose POS agrees with some pattern on every given,         *)
(*                  non-None component; a pattern that matches nothing is an error     *)
(*   from a predicate: the ids whose POS satisfies it                                  *)
(*   | & - ~ : union, intersection, difference, complement within the dictionary       *)
(*   m(morpheme) <=> the morpheme's POS id is in the set; len; iteration in id order   *)
(***************************************************************************)
EXTENDS Integers, Sequences, FiniteSets

\* posList: sequence of POS (each a sequence of 6 strings / code point sequences); id = index - 1
Ids(posList) == 0..(Len(posList) - 1)

\* a pattern: sequence of <= 6 components, a component is a value or "None"
MatchesPattern(pos, pat) == \A i \in 1..Len(pat) : pat[i] = "None" \/ pat[i] = pos[i]
FromPattern(posList, pat) == { id \in Ids(posList) : MatchesPattern(posList[id + 1], pat) }

\* ok iff every pattern matches something
PatternsOK(posList, pats) == \A k \in 1..Len(pats) : FromPattern(posList, pats[k]) # {}
FromPatterns(posList, pats) == UNION { FromPattern(posList, pats[k]) : k \in 1..Len(pats) }

Union(a, b) == a \cup b
Inter(a, b) == a \cap b
Diff(a, b) == a \ b
Compl(posList, a) == Ids(posList) \ a

\* iteration yields the POS tuples in increasing id order
RECURSIVE SortedSeq(_)
SortedSeq(S) == IF S = {} THEN <<>> ELSE LET m == CHOOSE x \in S : \A y \in S : x <= y IN <<m>> \o SortedSeq(S \ {m})
Items(posList, a) == LET ids == SortedSeq(a) IN [i \in 1..Len(ids) |-> posList[ids[i] + 1]]

\* the algebra a user relies on (checked by TLC over a small universe in MC_PosMatcher)
Laws(posList, a, b) ==
  /\ Compl(posList, Compl(posList, a)) = a
  /\ Diff(a, b) = Inter(a, Compl(posList, b))
  /\ Compl(posList, Union(a, b)) = Inter(Compl(posList, a), Compl(posList, b))
  /\ Cardinality(Union(a, b)) + Cardinality(Inter(a, b)) = Cardinality(a) + Cardinality(b)
=============================================================================
