------------------------------ MODULE Trace_DumpFrontEnd ------------------------------
(* libdump{job, pos, nl, nr, conn, words}   fe_dump{job, part, exit, out}   (out: code points of the written file) *)
EXTENDS DumpFrontEnd, TraceIO
VARIABLES l
Ev == Rec[l]
TInit == DInit /\ l = 1
TrLib == /\ l <= NRec /\ Ev.ev = "libdump" /\ LibDump(Ev.job, [pos |-> Ev.pos, nl |-> Ev.nl, nr |-> Ev.nr, conn |-> Ev.conn, words |-> Ev.words]) /\ l' = l + 1
TrFe == /\ l <= NRec /\ Ev.ev = "fe_dump" /\ FrontEndDump(Ev.job, Ev.part, Ev.exit, Ev.out) /\ l' = l + 1
TSpec == TInit /\ [][TrLib \/ TrFe]_<<dvars, l>>
=============================================================================
