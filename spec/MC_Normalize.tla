------------------------------- MODULE MC_Normalize -------------------------------
(* Bounded instance for C07: every rewrite table over prefix-related keys, every     *)
(* text up to MaxLen over letters chosen for their structure:                        *)
(*   p plain, Q upper-case, fullwidth k (NFKC 1->1), U+337F (NFKC 1->4),             *)
(*   U+2162 roman numeral three (exempt, upper-case, NFKC-changing),                 *)
(*   U+01C5 (title-case: lower-casing changes it, not upper-case), a b c (keys).     *)
EXTENDS Normalize, Json

CONSTANTS MaxLen

P == 112  Q == 81  FK == 65355  KK == 13183  R3 == 8546  TC == 453
A == 97  B == 98  C == 99
Letters == {P, Q, FK, KK, R3, TC, A, B, C}

\* two rules map a key to itself (<<A, B>> and <<Q>>): such a rule changes nothing but still takes part in longest-match and shields its span
AllKeys == { <<A>>, <<A, B>>, <<A, B, C>>, <<B>>, <<B, C>>, <<C, A>>, <<Q>>, <<KK, A>>, <<P, KK>> }
MValueOf(k) == CASE k = <<A>> -> <<49>> [] k = <<A, B>> -> <<A, B>> [] k = <<A, B, C>> -> <<52>> [] k = <<B>> -> <<53>>
                 [] k = <<B, C>> -> <<54, 55>> [] k = <<C, A>> -> <<56>> [] k = <<Q>> -> <<Q>> [] k = <<P, KK>> -> <<FK>> [] OTHER -> <<48, Q>>
MExempt == {R3}
MLowerOf(c) == CASE c = Q -> <<113>> [] c = R3 -> <<8562>> [] c = TC -> <<454>> [] OTHER -> <<c>>
NfkcChar(c) == CASE c = FK -> <<107>> [] c = KK -> <<26666, 24335, 20250, 31038>> [] c = R3 -> <<73, 73, 73>>
                 [] c = 8562 -> <<105, 105, 105>> [] c = 454 -> <<100, 382>> [] c = TC -> <<68, 382>> [] OTHER -> <<c>>
RECURSIVE MNfkcOf(_)
MNfkcOf(s) == IF Len(s) = 0 THEN <<>> ELSE NfkcChar(s[1]) \o MNfkcOf(Tail(s))
MQuickYes(c) == NfkcChar(c) = <<c>>

VARIABLES text, out, stage
mvars == <<nvars, text, out, stage>>

SetToSeq(S) == LET RECURSIVE G(_, _) G(r, acc) == IF r = {} THEN acc ELSE LET x == CHOOSE x \in r : TRUE IN G(r \ {x}, Append(acc, x)) IN G(S, <<>>)
\* the Unicode data of the letters in play (checked against the libraries by the replayer at start-up)
MUni == LET ls == SetToSeq(Letters) IN [i \in 1..Len(ls) |-> <<ls[i], MLowerOf(ls[i]), MNfkcOf(MLowerOf(ls[i])), MQuickYes(ls[i])>>]

Texts == UNION { [1..n -> Letters] : n \in 0..MaxLen }

MInit == keys = {} /\ vals = <<>> /\ exempt = MExempt /\ uni = MUni /\ text = <<>> /\ out = <<>> /\ stage = "load"
MLoad == /\ stage = "load"
         /\ \E K \in SUBSET AllKeys : keys' = K /\ vals' = LET ks == SetToSeq(K) IN [i \in 1..Len(ks) |-> <<ks[i], MValueOf(ks[i])>>]
         /\ stage' = "ready" /\ UNCHANGED <<exempt, uni, text, out>>
MRewrite == stage = "ready" /\ \E t \in Texts : text' = t /\ out' = Rewrite(t) /\ stage' = "done" /\ UNCHANGED nvars
MNext == MLoad \/ MRewrite
MSpec == MInit /\ [][MNext]_mvars

\* C07
IsNorm == stage = "done" => out = Norm(text)
\* "the optimised and the general code path agree": the general path alone yields the meaning,
\* and the optimised path yields it whenever it is the one chosen
PathsAgree == stage = "done" => Slow(text) = Norm(text) /\ (~NeedSlow(text) => Fast(text) = Norm(text))

Emit == stage = "done" => PrintT(<<"REPLAY", ToJson([keys |-> SetToSeq(keys), text |-> text, out |-> out])>>)
=============================================================================
