---------------------------------- MODULE MC_Oov ----------------------------------
(* Bounded instance for C13: texts up to MaxLen over class-set letters (single class, *)
(* two classes, combining = ALL|NOOOVBOW, joiner = ALL|NOOOVBOW2), several            *)
(* invoke/group/length definitions (one class with two unknown-word definitions),     *)
(* three provider stacks.                                                             *)
EXTENDS Oov, Json

CONSTANTS MaxLen, MaxLen2

AllC == {"DEFAULT", "KANJI", "HIRAGANA", "ALPHA", "NUMERIC", "KATAKANA"}
LK == {"KANJI"}  LH == {"HIRAGANA"}  LA == {"ALPHA"}  LN == {"NUMERIC"}  LT == {"KATAKANA"}
LM == AllC \cup {"NOOOVBOW"}  LJ == AllC \cup {"NOOOVBOW2"}  LD == {"KANJI", "NUMERIC"}  LO == {"DEFAULT"}
LE == {"KANJI", "NUMERIC", "KATAKANA"}
Letters == <<LK, LH, LA, LN, LM, LJ, LD, LO, LT, LE>>
\* a code point per letter, for the regex provider and for the replayer's generated char.def
CpOf(k) == 57344 + k

Def(l, r, c, p) == [lid |-> l, rid |-> r, cost |-> c, pos |-> p]
Infos == <<
  \* the shipped shape
  [DEFAULT |-> [invoke |-> FALSE, group |-> TRUE, length |-> 0], KANJI |-> [invoke |-> FALSE, group |-> FALSE, length |-> 2],
   HIRAGANA |-> [invoke |-> FALSE, group |-> TRUE, length |-> 2], ALPHA |-> [invoke |-> TRUE, group |-> TRUE, length |-> 0],
   NUMERIC |-> [invoke |-> TRUE, group |-> TRUE, length |-> 0], KATAKANA |-> [invoke |-> TRUE, group |-> TRUE, length |-> 2]],
  \* everything inverted
  [DEFAULT |-> [invoke |-> TRUE, group |-> FALSE, length |-> 1], KANJI |-> [invoke |-> TRUE, group |-> TRUE, length |-> 1],
   HIRAGANA |-> [invoke |-> TRUE, group |-> FALSE, length |-> 0], ALPHA |-> [invoke |-> FALSE, group |-> FALSE, length |-> 2],
   NUMERIC |-> [invoke |-> FALSE, group |-> TRUE, length |-> 1]] >>
Unks == [DEFAULT |-> <<Def(0, 0, 100, 0)>>, KANJI |-> <<Def(1, 1, 200, 1), Def(0, 1, 250, 2)>>, HIRAGANA |-> <<Def(1, 0, 300, 1)>>,
         ALPHA |-> <<Def(0, 0, 400, 1)>>, NUMERIC |-> <<Def(1, 1, 500, 3)>>, KATAKANA |-> <<Def(0, 1, 600, 1)>>]
Simple == [kind |-> "simple", lid |-> 1, rid |-> 0, cost |-> 900, pos |-> 0]
Regex(strict) == [kind |-> "regex", set |-> {CpOf(3), CpOf(4)}, max |-> 3, strict |-> strict, lid |-> 0, rid |-> 0, cost |-> 50, pos |-> 3]
Stacks == << << [kind |-> "mecab"], Simple >>, << Simple >>, << [kind |-> "mecab"], Regex(TRUE), Simple >>, << Regex(FALSE), Simple >> >>

VARIABLES text, which
mvars == <<ovars, text, which>>

MInit == cats = <<>> /\ info = Infos[1] /\ unk = Unks /\ providers = Stacks[1] /\ text = <<>> /\ which = <<0, 0>>
MPick == /\ which = <<0, 0>>
         /\ \E n \in 1..MaxLen : \E t \in [1..n -> 1..Len(Letters)] : \E a \in 1..Len(Infos), b \in 1..Len(Stacks) :
              /\ cats' = [i \in 1..n |-> Letters[t[i]]]
              /\ text' = [i \in 1..n |-> CpOf(t[i])]
              /\ info' = Infos[a] /\ providers' = Stacks[b] /\ which' = <<a, b>> /\ UNCHANGED unk
\* every pair of invoke / group / length settings for the two classes of the double letter (and the first two of the triple letter):
\* what one class of a character does to the candidates of the next (texts over K, N, combining, K+N, K+N+T; MeCab + simple)
Settings == {[invoke |-> i, group |-> g, length |-> n] : i \in BOOLEAN, g \in BOOLEAN, n \in 0..2}
SIdx(x) == (IF x.invoke THEN 6 ELSE 0) + (IF x.group THEN 3 ELSE 0) + x.length
MPick2 == /\ which = <<0, 0>>
          /\ \E n \in 1..MaxLen2 : \E t \in [1..n -> {1, 4, 5, 7, 10}] : \E a \in Settings, b \in Settings :
              /\ cats' = [i \in 1..n |-> Letters[t[i]]]
              /\ text' = [i \in 1..n |-> CpOf(t[i])]
              /\ info' = [Infos[1] EXCEPT !.KANJI = a, !.NUMERIC = b]
              /\ providers' = Stacks[1] /\ which' = <<100 + 12 * SIdx(a) + SIdx(b), 1>> /\ UNCHANGED unk
MNext == MPick \/ MPick2
MSpec == MInit /\ [][MNext]_mvars

\* with a fallback provider every position gets a candidate
EveryPositionCovered == \A i \in 1..N : PositionCalls(i, {}, text).lens # {}

SetToSeq(S) == LET RECURSIVE G(_, _) G(r, acc) == IF r = {} THEN acc ELSE LET x == CHOOSE x \in r : TRUE IN G(r \ {x}, Append(acc, x)) IN G(S, <<>>)
CallsJson(cs) == [k \in 1..Len(cs) |-> [provider |-> cs[k].provider, fallback |-> cs[k].fallback, nodes |-> SetToSeq(cs[k].nodes)]]
Emit == N > 0 =>
  PrintT(<<"REPLAY", ToJson([letters |-> [i \in 1..N |-> text[i] - 57344], info |-> which[1], stack |-> which[2],
      classes |-> [k \in 1..Len(Letters) |-> SetToSeq(Letters[k])],
      infodef |-> [c \in DOMAIN info |-> info[c]], unkdef |-> [c \in DOMAIN info |-> unk[c]],
      providers |-> [k \in 1..Len(providers) |-> IF providers[k].kind = "regex" THEN [providers[k] EXCEPT !.set = SetToSeq(@)] ELSE providers[k]],
      cont |-> [i \in 1..N |-> RunLen(i)], bow |-> CanBow,
      empty |-> [i \in 1..N |-> CallsJson(PositionCalls(i, {}, text).calls)],
      one |-> [i \in 1..N |-> CallsJson(PositionCalls(i, {1}, text).calls)]])>>)
=============================================================================
