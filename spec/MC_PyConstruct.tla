--------------------------------- MODULE MC_PyConstruct ---------------------------------
(* every scenario (irrelevant fields pinned), the documented promises checked on each, each emitted for the real constructor (S->I) *)
EXTENDS PyConstruct, Json
VARIABLES s, done
mvars == <<s, done>>
Names == {NoneV, "B", "nofile"} \cup Kinds
Scenarios == { x \in [how : {"none", "config", "config_path", "both"}, form : {"json", "file", "missing", "obj", "int"},
                     fsys : {"absent", "A", "nofile", "dir"} \cup Kinds, dict : Names, dictType : {NoneV, "B", "full", "nofile"},
                     installed : {{}, {"core"}, {"small", "full"}, Kinds}, resdir : BOOLEAN] :
                 /\ (x.how = "none") => (x.form = "json" /\ x.fsys = "absent")
                 /\ (x.how = "both") => (x.form \in {"json", "file"} /\ x.fsys = "absent" /\ x.dict = NoneV /\ x.dictType = NoneV)
                 /\ (x.form \in {"missing", "int"}) => x.fsys = "absent"
                 /\ (x.how = "config_path") => x.form \in {"file", "missing", "json"}
                 /\ x.resdir => (x.dictType = NoneV /\ x.installed = Kinds) }
MInit == s \in Scenarios /\ done = FALSE
MNext == ~done /\ done' = TRUE /\ UNCHANGED s
MSpec == MInit /\ [][MNext]_mvars
Props == ArgumentWins(s) /\ DefaultIsCore(s) /\ NeverBoth(s) /\ OnlyInstalled(s)
Emit == done => PrintT(<<"REPLAY", ToJson([s |-> [s EXCEPT !.installed = IF "core" \in @ THEN (IF "small" \in @ THEN "all" ELSE "core") ELSE (IF "small" \in @ THEN "smallfull" ELSE "nothing")],
                                             want |-> Construct(s)])>>)
=============================================================================
