SPECIFICATION TSpec
CONSTANTS
  MaxLen = 100000
INVARIANTS NoStaleRead LoadedCoversRequest
POSTCONDITION Report
CHECK_DEADLOCK FALSE
