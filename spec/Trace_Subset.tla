------------------------------ MODULE Trace_Subset ------------------------------
(* Trace validation for C11 on the repository's dictionaries.                     *)
(*  wsub{dic,w,bits,res,req,full}   word w read with the (closed) subset `bits`:  *)
(*        req = the requested fields as read, full = the same fields of a full load*)
(*  tsub{plain,mode,bits,order,text,nbytes,res,ms,fres,full}  an analysis under a *)
(*        field subset (ms) and the full-field analysis of the same text (full);  *)
(*        morphemes as <<begin,end,dic,word>>; req = the requested fields of every  *)
(*        morpheme as its word information shows them, freq = the same fields in   *)
(*        the full-field analysis, lreq = the same fields of the same word read     *)
(*        from the lexicon with every field loaded ({none}: OOV, or a configuration   *)
(*        whose plugins merge tokens); order = which sequence of set_mode /         *)
(*        set_subset calls (and analyses in other modes) led to the request          *)
EXTENDS Naturals, Integers, Sequences, FiniteSets, TLC, TraceIO

VARIABLES l
Ev == Rec[l]
TInit == l = 1

\* "each requested field ... has the same value as when all fields are loaded"
TrWord == /\ l <= NRec /\ Ev.ev = "wsub"
          /\ Ev.res = "ok"
          /\ Ev.req = Ev.full
          /\ l' = l + 1

Bit(bits, k) == (bits \div (2 ^ k)) % 2 = 1
CoversPlugins(bits) == Bit(bits, 0) /\ Bit(bits, 2) /\ Bit(bits, 3)     \* surface, part of speech, normalised form

Tiles(ms, n) == /\ (Len(ms) = 0) => TRUE
                /\ Len(ms) > 0 => ms[1][1] = 0 /\ ms[Len(ms)][2] = n
                /\ \A i \in 1..(Len(ms) - 1) : ms[i][2] = ms[i+1][1]
                /\ \A i \in 1..Len(ms) : ms[i][1] <= ms[i][2]

TrTok == /\ l <= NRec /\ Ev.ev = "tsub"
         /\ Ev.fres = "ok" => Ev.res = "ok"
         /\ Ev.res = "ok" =>
              /\ Tiles(Ev.ms, Ev.nbytes)                                   \* surfaces always partition the input
              /\ (Len(Ev.ms) = 0) <=> (Len(Ev.full) = 0)
              /\ (Ev.plain \/ CoversPlugins(Ev.bits)) => Ev.ms = Ev.full    \* boundaries and word identities
              \* "each requested field - read through its public accessor - has the same value as when all fields are loaded",
              \* whatever calls led to the request and whichever mode produced the token
              /\ (Ev.fres = "ok" /\ Ev.ms = Ev.full) => Ev.req = Ev.freq
              /\ \A i \in 1..Len(Ev.lreq) : "none" \notin DOMAIN Ev.lreq[i] => Ev.req[i] = Ev.lreq[i]
         /\ l' = l + 1

TNext == TrWord \/ TrTok
TSpec == TInit /\ [][TNext]_l
=============================================================================
