------------------------------ MODULE Trace_Subset ------------------------------
(* Trace validation for C11 on the repository's dictionaries.                     *)
(*  wsub{dic,w,bits,res,req,full}   word w read with the (closed) subset `bits`:  *)
(*        req = the requested fields as read, full = the same fields of a full load*)
(*  tsub{plain,mode,bits,order,text,nbytes,res,ms,fres,full}  an analysis under a *)
(*        field subset (ms) and the full-field analysis of the same text (full);  *)
(*        morphemes as <<begin,end,dic,word>>                                      *)
EXTENDS Naturals, Integers, Sequences, FiniteSets, TLC, TraceIO

VARIABLES l
Ev == Rec[l]
TInit == l = 1

\* "each requested field ... has the same value as when all fields are loaded"
TrWord == /\ l <= NRec /\ Ev.ev = "wsub"
          /\ Ev.res = "ok"
          /\ Ev.req = Ev.full
          /\ l' = l + 1

Bit(bits, k) == (bits \div (2 ^ k)) % 2 = 1
CoversPlugins(bits) == Bit(bits, 0) /\ Bit(bits, 2) /\ Bit(bits, 3)     \* surface, part of speech, normalised form

Tiles(ms, n) == /\ (Len(ms) = 0) => TRUE
                /\ Len(ms) > 0 => ms[1][1] = 0 /\ ms[Len(ms)][2] = n
                /\ \A i \in 1..(Len(ms) - 1) : ms[i][2] = ms[i+1][1]
                /\ \A i \in 1..Len(ms) : ms[i][1] <= ms[i][2]

TrTok == /\ l <= NRec /\ Ev.ev = "tsub"
         /\ Ev.fres = "ok" => Ev.res = "ok"
         /\ Ev.res = "ok" =>
              /\ Tiles(Ev.ms, Ev.nbytes)                                   \* surfaces always partition the input
              /\ (Len(Ev.ms) = 0) <=> (Len(Ev.full) = 0)
              /\ (Ev.plain \/ CoversPlugins(Ev.bits)) => Ev.ms = Ev.full    \* boundaries and word identities
         /\ l' = l + 1

TNext == TrWord \/ TrTok
TSpec == TInit /\ [][TNext]_l
=============================================================================
