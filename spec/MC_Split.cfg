SPECIFICATION MSpec
CONSTANTS
  MaxTokens = 3
INVARIANTS RefinesA RefinesB ModeCIdentity ApiAgrees
CHECK_DEADLOCK FALSE
