-------------------------- MODULE Trace_CharCategory --------------------------
(* Trace validation for C17: executions of the real CharacterCategory recorded  *)
(* by `vh c17-record` are checked to be behaviours of CharCategory.             *)
(*  cdef{defs, res}   a definition file was offered to from_reader              *)
(*  crun{lo,hi,cats}  get_category_types returned cats for every scalar lo..hi  *)
(*  cend{}            the runs covered every Unicode scalar value               *)
EXTENDS CharCategory, TraceIO

VARIABLES l,        \* index of the next event
          nextCp,   \* first scalar value not yet covered by a crun of this definition
          loaded    \* whether the current definition file loaded

tvars == <<vars, l, nextCp, loaded>>

Top == 1114111                     \* 0x10FFFF
SkipGap(cp) == IF cp = 55296 THEN 57344 ELSE cp    \* 0xD800 -> 0xE000

LineOf(d) == [lo |-> d.lo, hi |-> d.hi, cats |-> SeqToSet(d.cats)]

TInit == /\ Init /\ l = 1 /\ nextCp = 0 /\ loaded = FALSE

\* The loader may reject a file (C17 speaks of files that load); it must not panic.
TrDef ==
  /\ l <= NRec /\ Rec[l].ev = "cdef"
  /\ Rec[l].res \in {"ok", "err"}
  /\ LET ds == [i \in 1..Len(Rec[l].defs) |-> LineOf(Rec[l].defs[i])]
         c  == CompileDefs(ds)
     IN /\ defs' = ds
        /\ bounds' = c.bs /\ cats' = c.cs
  /\ phase' = "compiled"
  /\ loaded' = (Rec[l].res = "ok")
  /\ nextCp' = 0
  /\ l' = l + 1

\* Between two consecutive boundaries of the definition the meaning is constant, so it
\* suffices to evaluate it at the ends of the run and at every boundary inside it.
CheckPoints(lo, hi) == {lo, hi} \cup { b \in BoundarySet(defs) : lo <= b /\ b <= hi }
                             \cup { b - 1 : b \in { b \in BoundarySet(defs) : lo < b /\ b <= hi } }

TrRun ==
  /\ l <= NRec /\ Rec[l].ev = "crun"
  /\ loaded
  /\ Rec[l].lo = nextCp /\ Rec[l].lo <= Rec[l].hi /\ Rec[l].hi <= Top
  /\ \A cp \in CheckPoints(Rec[l].lo, Rec[l].hi) :
        SeqToSet(Rec[l].cats) = Expected(defs, cp)            \* C17
  /\ nextCp' = SkipGap(Rec[l].hi + 1)
  /\ l' = l + 1
  /\ UNCHANGED <<vars, loaded>>

TrEnd ==
  /\ l <= NRec /\ Rec[l].ev = "cend"
  /\ nextCp = Top + 1
  /\ l' = l + 1
  /\ UNCHANGED <<vars, nextCp, loaded>>

TNext == TrDef \/ TrRun \/ TrEnd
TSpec == TInit /\ [][TNext]_tvars

\* the transcribed compile()/bisection agrees with the meaning on every boundary of the
\* current definition (ties the trace run to the model-checked algorithm)
CompiledAgrees ==
  phase = "compiled" =>
    \A b \in BoundarySet(defs) : \A cp \in {b, IF b > 0 THEN b - 1 ELSE 0} :
        LookupIn(bounds, cats, cp) = Expected(defs, cp)
=============================================================================
