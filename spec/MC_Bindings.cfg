SPECIFICATION MSpec
CONSTANTS
  MaxCalls = 3
INVARIANTS ModesKept ValidListsHoldAnswers InvalidOnlyByShare Emit
PROPERTIES ModeIsStable OneTarget
CHECK_DEADLOCK FALSE
