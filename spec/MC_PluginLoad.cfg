SPECIFICATION MSpec
CONSTANTS
  Full = FALSE
INVARIANTS AcceptedIsSafe Emit
CHECK_DEADLOCK FALSE
