-------------------------------- MODULE MC_Tokenizer --------------------------------
(* All histories of up to MaxOps operations over set_mode / set_subset / analyse (empty, *)
(* short, longer, too long) / collect; each history is emitted and run on a real         *)
(* tokenizer + result list next to fresh twins (`vh c10-run`).                            *)
EXTENDS Tokenizer, Json

CONSTANTS MaxOps
VARIABLES hist
mvars == <<tvars, hist>>

Subsets == << {}, {"SURFACE", "POS", "NORM"}, {"DICFORM", "READING"}, {"SPLIT_A", "SYN"}, Fields >>
Lens == {0, 1, 2, MaxLen}

MInit == Init /\ hist = <<>>
MMode == Len(hist) < MaxOps /\ \E m \in {"A", "B", "C"} : SetMode(m) /\ hist' = Append(hist, [op |-> "mode", m |-> m])
MSub == Len(hist) < MaxOps /\ \E k \in 1..Len(Subsets) : SetSubset(Subsets[k]) /\ hist' = Append(hist, [op |-> "subset", k |-> k])
MAna == Len(hist) < MaxOps /\ \E n \in Lens : Analyse(n, FALSE) /\ hist' = Append(hist, [op |-> "analyse", n |-> n])
MLong == Len(hist) < MaxOps /\ Analyse(0, TRUE) /\ hist' = Append(hist, [op |-> "toolong"])
MCollect == Len(hist) < MaxOps /\ Collect /\ hist' = Append(hist, [op |-> "collect"])
MNext == MMode \/ MSub \/ MAna \/ MLong \/ MCollect
MSpec == MInit /\ [][MNext]_mvars

Emit == (Len(hist) > 0 /\ hist[Len(hist)].op \in {"analyse", "toolong"}) => PrintT(<<"REPLAY", ToJson(hist)>>)
=============================================================================
