//! C04 - dictionary lookup.  S->I replay of TLC-enumerated layered lexicons through the real
//! compiler + loader + LexiconSet::lookup / MorphemeList::lookup, and an I->S recorder over
//! generated lexicons of realistic shape.
use crate::dicts;
use crate::util::*;
use serde_json::{json, Value};
use std::collections::BTreeSet;
use sudachi::analysis::stateless_tokenizer::DictionaryAccess;
use sudachi::dic::dictionary::JapaneseDictionary;
use sudachi::dic::subset::InfoSubset;
use sudachi::prelude::MorphemeList;

const MATRIX1: &[u8] = b"1 1\n0 0 0\n";
const OOV: &str = r#"{"class":"com.worksap.nlp.sudachi.SimpleOovPlugin","oovPOS":["名詞","普通名詞","一般","*","*","*"],"userPOS":"allow","leftId":0,"rightId":0,"cost":1000}"#;

fn bytes_of(v: &Value) -> Vec<u8> {
    v.as_array().unwrap().iter().map(|x| x.as_u64().unwrap() as u8).collect()
}

fn csv_escape(key: &str) -> String {
    // the lexicon format has its own \u escapes; use them for anything that could confuse the CSV layer
    let mut s = String::new();
    for c in key.chars() {
        if c == ',' || c == '"' || c == '\\' || c == '\n' || c == '\r' || (c as u32) < 0x20 {
            s.push_str(&format!("\\u{{{:x}}}", c as u32));
        } else {
            s.push(c);
        }
    }
    s
}

pub fn row_csv(key: &str, lid: i64) -> String {
    let k = csv_escape(key);
    format!("{k},{lid},0,100,{k},名詞,普通名詞,一般,*,*,*,ヨミ,{k},*,A,*,*,*,*\n", k = k, lid = lid)
}

pub fn load_layers(layers: &[Vec<(String, i64)>]) -> Result<JapaneseDictionary, String> {
    let res = dicts::resource_dir("c04", &[("char.def", "/repo/sudachi/tests/resources/char.def")]);
    let mut csv = String::new();
    for (k, lid) in &layers[0] {
        csv.push_str(&row_csv(k, *lid));
    }
    let sys = dicts::build_system(csv.as_bytes(), MATRIX1).map_err(|e| format!("system: {:?}", e))?;
    let mut users = Vec::new();
    for l in &layers[1..] {
        let mut csv = String::new();
        for (k, lid) in l {
            csv.push_str(&row_csv(k, *lid));
        }
        users.push(dicts::build_user(&sys, csv.as_bytes()).map_err(|e| format!("user: {:?}", e))?);
    }
    let cfg = format!(r#"{{"characterDefinitionFile":"char.def","oovProviderPlugin":[{}]}}"#, OOV);
    dicts::load(&cfg, &res, sys, users).map_err(|e| format!("load: {:?}", e))
}

fn lookup_set(dict: &JapaneseDictionary, text: &[u8], off: usize) -> (Vec<(i64, i64, i64)>, usize) {
    let mut v: Vec<(i64, i64, i64)> = dict.lexicon().lookup(text, off).map(|e| (e.word_id.dic() as i64, e.word_id.word() as i64, e.end as i64)).collect();
    let n = v.len();
    v.sort();
    (v, n)
}

fn triple_set(v: &Value) -> Vec<(i64, i64, i64)> {
    let mut out: Vec<(i64, i64, i64)> = v.as_array().unwrap().iter().map(|m| (m["dic"].as_i64().unwrap(), m["word"].as_i64().unwrap(), m["end"].as_i64().unwrap())).collect();
    out.sort();
    out
}

pub fn replay(args: &[String]) -> i32 {
    quiet_panics();
    let path = args.last().unwrap();
    let lines = read_replay_lines(path);
    let mut mismatches: Vec<Value> = Vec::new();
    let mut build_fail = 0usize;
    let mut lookups = 0usize;
    for (li, v) in lines.iter().enumerate() {
        let layers: Vec<Vec<(String, i64)>> = v["layers"].as_array().unwrap().iter().map(|l| {
            l.as_array().unwrap().iter().map(|r| (String::from_utf8(bytes_of(&r["key"])).expect("keys are valid UTF-8"), r["lid"].as_i64().unwrap())).collect()
        }).collect();
        // compiling/loading is C05/C06's business: a refusal (or crash) there is not judged here
        let dict = match catch(std::panic::AssertUnwindSafe(|| load_layers(&layers))) {
            Ok(Ok(d)) => d,
            _ => {
                build_fail += 1;
                continue;
            }
        };
        let r = catch(std::panic::AssertUnwindSafe(|| -> Result<Option<Value>, String> {
            for ex in v["expect"].as_array().unwrap() {
                let text = bytes_of(&ex["text"]);
                for (off, want) in ex["at"].as_array().unwrap().iter().enumerate() {
                    lookups += 1;
                    let want = triple_set(want);
                    let (got, n) = lookup_set(&dict, &text, off);
                    if got != want || n != want.len() {
                        return Ok(Some(json!({"what": "lookup", "text": ex["text"], "off": off, "expected": want, "got": got, "reported": n})));
                    }
                }
                // exact-surface lookup through the public MorphemeList API
                let q = String::from_utf8(text.clone()).unwrap();
                let mut ml = MorphemeList::empty(&dict);
                let n = ml.lookup(&q, InfoSubset::all()).map_err(|e| format!("{:?}", e))?;
                let mut got: Vec<(i64, i64, i64)> = ml.iter().map(|m| (m.word_id().dic() as i64, m.word_id().word() as i64, q.len() as i64)).collect();
                got.sort();
                let want = triple_set(&ex["exact"]);
                if got != want || n != want.len() {
                    return Ok(Some(json!({"what": "exact lookup", "text": ex["text"], "expected": want, "got": got, "reported": n})));
                }
            }
            Ok(None)
        }));
        match r {
            Ok(Ok(None)) => {}
            Ok(Ok(Some(mut m))) => {
                m["line"] = json!(li);
                m["abstract"] = v.clone();
                mismatches.push(m);
            }
            Ok(Err(_)) => build_fail += 1, // the compiler refused the lexicon (e.g. no indexable row): not C04's business
            Err(msg) => mismatches.push(json!({"line": li, "what": "panic", "got": msg, "abstract": v})),
        }
        if mismatches.len() >= 20 {
            break;
        }
    }
    println!("{}", json!({"behaviours": lines.len(), "lookups": lookups, "build_rejected": build_fail, "mismatches": mismatches}));
    0
}

// ------------------------------------------------------------------ I->S recorder
const ALPHA: [&str; 14] = ["a", "b", "c", "あ", "い", "う", "東", "京", "都", "ア", "ｱ", "𠮷", "é", "1"];

fn rand_key(rng: &mut Rng, pool: &Vec<String>) -> String {
    // share prefixes: extend an existing key with probability 1/2
    let mut s = if !pool.is_empty() && rng.chance(1, 2) { rng.pick(pool).clone() } else { String::new() };
    let n = 1 + rng.below(3);
    for _ in 0..n {
        s.push_str(rng.pick_str(&ALPHA));
    }
    s
}

pub fn record(args: &[String]) -> i32 {
    quiet_panics();
    let out = &args[0];
    let seed = arg_u64(args, "--seed", 1);
    let nworlds = arg_u64(args, "--worlds", 6) as usize;
    let nkeys = arg_u64(args, "--keys", 150) as usize;
    let nlook = arg_u64(args, "--lookups", 120) as usize;
    let mut tr = Trace::create(out);
    let mut rng = Rng::new(seed);
    let mut run = 0usize;
    for wi in 0..nworlds {
        let nlayers = match wi % 4 { 0 => 1, 1 => 2, 2 => 3, _ => 15 };
        let mut layers: Vec<Vec<(String, i64)>> = Vec::new();
        let mut pool: Vec<String> = Vec::new();
        for l in 0..nlayers {
            let n = if l == 0 { nkeys } else { 3 + rng.below(nkeys / 8 + 1) };
            let mut rows = Vec::new();
            let mut count: std::collections::HashMap<String, usize> = Default::default();
            for _ in 0..n {
                let k = rand_key(&mut rng, &pool);
                pool.push(k.clone());
                let lid = if rng.chance(1, 10) { *rng.pick(&[-1i64, -1, -2, -7, -32768]) } else { 0 }; // every negative left id means "not indexed"
                if lid >= 0 {
                    let c = count.entry(k.clone()).or_default();
                    if *c >= 127 {
                        continue;
                    }
                    *c += 1;
                }
                rows.push((k.clone(), lid));
                // homographs: up to exactly 127 ids on one key, so that table offsets cross 255 / 65535
                if lid >= 0 && rng.chance(1, 40) {
                    let reps = if rng.chance(1, 3) { 127 } else { 2 + rng.below(20) };
                    let c = count.get_mut(&k).unwrap();
                    while *c < reps.min(127) {
                        rows.push((k.clone(), 0));
                        *c += 1;
                    }
                }
            }
            if !rows.iter().any(|r| r.1 >= 0) {
                rows.push((rand_key(&mut rng, &pool), 0));
            }
            layers.push(rows);
        }
        run += 1;
        let jl: Vec<Value> = layers.iter().map(|l| json!(l.iter().map(|(k, lid)| json!({"key": k.as_bytes(), "lid": lid})).collect::<Vec<_>>())).collect();
        let dict = match catch(std::panic::AssertUnwindSafe(|| load_layers(&layers))) {
            Ok(Ok(d)) => d,
            Ok(Err(e)) => {
                tr.emit(json!({"ev": "dict", "run": run, "layers": jl, "res": "err", "msg": e}));
                continue;
            }
            Err(msg) => {
                tr.emit(json!({"ev": "dict", "run": run, "layers": jl, "res": "panic", "msg": msg}));
                continue;
            }
        };
        tr.emit(json!({"ev": "dict", "run": run, "layers": jl, "res": "ok"}));
        for _ in 0..nlook {
            // texts made of keys and random letters
            let mut text = String::new();
            for _ in 0..(1 + rng.below(3)) {
                if rng.chance(2, 3) { text.push_str(rng.pick_str(&pool)); } else { text.push_str(rng.pick_str(&ALPHA)); }
            }
            // bytes no key contains (NUL is the terminator label of the double array), in front of and inside keys
            if rng.chance(1, 5) {
                let cs: Vec<char> = text.chars().collect();
                let at = rng.below(cs.len() + 1);
                let ins = *rng.pick(&['\u{0}', '\u{0}', '\u{1}', '\u{7f}']);
                text = cs[..at].iter().chain(std::iter::once(&ins)).chain(cs[at..].iter()).collect();
            }
            let bytes = text.as_bytes().to_vec();
            let off = rng.below(bytes.len() + 1);
            let r = catch(std::panic::AssertUnwindSafe(|| {
                dict.lexicon().lookup(&bytes, off).map(|e| json!([e.word_id.dic(), e.word_id.word(), e.end])).collect::<Vec<Value>>()
            }));
            match r {
                Ok(res) => tr.emit(json!({"ev": "lookup", "run": run, "text": bytes, "off": off, "res": res})),
                Err(msg) => tr.emit(json!({"ev": "lookup", "run": run, "text": bytes, "off": off, "panic": msg})),
            }
            if rng.chance(1, 4) {
                let q = rng.pick(&pool).clone();
                let mut ml = MorphemeList::empty(&dict);
                let r = catch(std::panic::AssertUnwindSafe(|| ml.lookup(&q, InfoSubset::all()).map(|n| (n, ml.iter().map(|m| json!([m.word_id().dic(), m.word_id().word()])).collect::<Vec<Value>>()))));
                match r {
                    Ok(Ok((n, ids))) => tr.emit(json!({"ev": "exact", "run": run, "text": q.as_bytes(), "n": n, "res": ids})),
                    _ => tr.emit(json!({"ev": "exact", "run": run, "text": q.as_bytes(), "panic": "lookup failed"})),
                }
            }
        }
        // systematically: every node of the index reached by a prefix of a key, followed by every symbol of the alphabet
        // (a byte that is not a child of the node must end the walk, whatever happens to be stored in the slot it selects)
        let nsys = arg_u64(args, "--prefix-keys", 40) as usize;
        for _ in 0..nsys {
            let key: Vec<char> = rng.pick(&pool).chars().collect();
            for plen in 0..=key.len() {
                let prefix: String = key[..plen].iter().collect();
                for sym in ALPHA.iter() {
                    let text = format!("{}{}{}", prefix, sym, if plen % 2 == 0 { "" } else { "a" });
                    let bytes = text.as_bytes().to_vec();
                    let r = catch(std::panic::AssertUnwindSafe(|| {
                        dict.lexicon().lookup(&bytes, 0).map(|e| json!([e.word_id.dic(), e.word_id.word(), e.end])).collect::<Vec<Value>>()
                    }));
                    match r {
                        Ok(res) => tr.emit(json!({"ev": "lookup", "run": run, "text": bytes, "off": 0, "res": res})),
                        Err(msg) => tr.emit(json!({"ev": "lookup", "run": run, "text": bytes, "off": 0, "panic": msg})),
                    }
                }
            }
        }
    }
    let n = tr.finish();
    println!("{}", json!({"events": n, "runs": run}));
    0
}

pub fn why(args: &[String]) -> i32 {
    let lines = read_replay_lines(args.last().unwrap());
    let mut reasons: std::collections::BTreeMap<String, usize> = Default::default();
    for v in lines.iter() {
        let layers: Vec<Vec<(String, i64)>> = v["layers"].as_array().unwrap().iter().map(|l| {
            l.as_array().unwrap().iter().map(|r| (String::from_utf8(bytes_of(&r["key"])).unwrap(), r["lid"].as_i64().unwrap())).collect()
        }).collect();
        quiet_panics();
        let r = match catch(std::panic::AssertUnwindSafe(|| load_layers(&layers))) { Ok(Ok(_)) => "ok".to_string(), Ok(Err(e)) => e.chars().take(90).collect(), Err(m) => format!("panic {}", m) };
        *reasons.entry(r).or_default() += 1;
    }
    println!("{:#?}", reasons);
    0
}
