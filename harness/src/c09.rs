//! C09 - modes A and B refine mode C with exactly the dictionary's split units.  I->S recorder:
//! dictionaries with well-formed split declarations (system->system, user->system, user->user,
//! units of different byte widths, headwords whose width differs from their key), every text in
//! the three modes plus the on-demand split API, with fresh and mode-switched tokenizers.
use crate::dicts;
use crate::util::*;
use serde_json::{json, Value};
use std::rc::Rc;
use sudachi::analysis::node::{LatticeNode, ResultNode};
use sudachi::analysis::stateful_tokenizer::StatefulTokenizer;
use sudachi::dic::dictionary::JapaneseDictionary;
use sudachi::dic::subset::InfoSubset;
use sudachi::input_text::InputBuffer;
use sudachi::prelude::*;

#[derive(Clone)]
struct W { key: String, head: String, a: Vec<(usize, usize)>, b: Vec<(usize, usize)> }

fn csv(layer: usize, words: &[W]) -> String {
    let mut s = String::new();
    let r = |v: &Vec<(usize, usize)>| if v.is_empty() { "*".to_string() } else { v.iter().map(|(d, w)| if *d == 0 { w.to_string() } else { format!("U{}", w) }).collect::<Vec<_>>().join("/") };
    let _ = layer;
    for w in words {
        let cost = if w.a.is_empty() && w.b.is_empty() { 3000 } else { -2000 * w.key.chars().count() as i64 };
        s.push_str(&format!("{k},0,0,{c},{h},名詞,普通名詞,一般,*,*,*,ヨミ,{k},*,{m},{a},{b},*,*\n", k = w.key, h = w.head, c = cost,
            m = if w.a.is_empty() && w.b.is_empty() { "A" } else { "C" }, a = r(&w.a), b = r(&w.b)));
    }
    s
}

fn load(layers: &[Vec<W>]) -> Result<Rc<JapaneseDictionary>, String> {
    load_with(layers, "")
}

/// `rewrite`: JSON list items of path-rewrite plugins ("" for none)
fn load_with(layers: &[Vec<W>], rewrite: &str) -> Result<Rc<JapaneseDictionary>, String> {
    let res = dicts::resource_dir("c09", &[("char.def", "/repo/sudachi/tests/resources/char.def"), ("rewrite.def", "/repo/sudachi/tests/resources/rewrite.def")]);
    let sys = dicts::build_system(csv(0, &layers[0]).as_bytes(), b"1 1\n0 0 0\n").map_err(|e| format!("{:?}", e))?;
    let mut users = Vec::new();
    for (i, l) in layers.iter().enumerate().skip(1) { users.push(dicts::build_user(&sys, csv(i, l).as_bytes()).map_err(|e| format!("{:?}", e))?); }
    let cfg = r#"{"characterDefinitionFile":"char.def","inputTextPlugin":[{"class":"com.worksap.nlp.sudachi.DefaultInputTextPlugin"}],"oovProviderPlugin":[{"class":"com.worksap.nlp.sudachi.SimpleOovPlugin","oovPOS":["名詞","普通名詞","一般","*","*","*"],"leftId":0,"rightId":0,"cost":20000}],"pathRewritePlugin":[REWRITE]}"#;
    let cfg = cfg.replace("REWRITE", rewrite);
    dicts::load(&cfg, &res, sys, users).map(Rc::new).map_err(|e| format!("{:?}", e))
}

fn world_json(layers: &[Vec<W>]) -> Value {
    // references as (layer, word): "U" references of layer d point into layer d
    json!(layers.iter().enumerate().map(|(d, l)| l.iter().map(|w| {
        let rr = |v: &Vec<(usize, usize)>| v.iter().map(|(own, x)| json!([if *own == 0 { 0 } else { d }, x])).collect::<Vec<_>>();
        json!({"key": w.key.as_bytes(), "a": rr(&w.a), "b": rr(&w.b)})
    }).collect::<Vec<_>>()).collect::<Vec<_>>())
}

fn analyse(tok: &mut StatefulTokenizer<Rc<JapaneseDictionary>>, dict: &Rc<JapaneseDictionary>, mode: Mode, text: &str) -> Result<(Vec<Value>, MorphemeList<Rc<JapaneseDictionary>>), String> {
    tok.set_mode(mode);
    tok.reset().push_str(text);
    tok.do_tokenize().map_err(|e| format!("{:?}", e))?;
    let mut input = InputBuffer::new();
    let mut nodes: Vec<ResultNode> = Vec::new();
    let mut subset = InfoSubset::all();
    tok.swap_result(&mut input, &mut nodes, &mut subset);
    let nb: Vec<(usize, usize)> = nodes.iter().map(|n| (n.begin_bytes(), n.end_bytes())).collect();
    let list = MorphemeList::from_components(dict.clone(), input, nodes, subset);
    let toks = list.iter().enumerate().map(|(i, m)| json!({"b": nb[i].0, "e": nb[i].1, "ob": m.begin(), "oe": m.end(),
        "dic": if m.is_oov() || m.word_id().dic() == 15 { -1 } else { m.word_id().dic() as i64 }, "word": if m.word_id().dic() == 15 { 0 } else { m.word_id().word() }})).collect();
    Ok((toks, list))
}

fn record_text(tr: &mut Trace, run: usize, dict: &Rc<JapaneseDictionary>, text: &str, switched: bool) {
    record_text_v(tr, run, dict, text, switched, 0)
}

/// `variant` > 0: every tokenizer is created in mode C, given a reduced field request and only then switched to its mode
/// (what a front end with a field list and a per-call mode does): 1 = surface + part of speech, 2 = nothing, 3 = surface only
fn record_text_v(tr: &mut Trace, run: usize, dict: &Rc<JapaneseDictionary>, text: &str, switched: bool, variant: usize) {
    let r = catch(std::panic::AssertUnwindSafe(|| -> Result<Value, String> {
        let sub = match variant { 1 => Some(InfoSubset::SURFACE | InfoSubset::POS_ID), 2 => Some(InfoSubset::empty()), 3 => Some(InfoSubset::SURFACE), _ => None };
        let mk = |m: Mode, extra: InfoSubset| { match sub { Some(s) => { let mut t = StatefulTokenizer::new(dict.clone(), Mode::C); t.set_subset(s | extra); t } None => StatefulTokenizer::new(dict.clone(), m) } };
        // the mode-C tokenizer is either fresh, or one that was used in mode A / B before (history must not matter); its result is split on
        // demand afterwards, so its field request names the split fields (a request without them leaves nothing to split with)
        let mut tc = mk(if switched { Mode::A } else { Mode::C }, InfoSubset::SPLIT_A | InfoSubset::SPLIT_B);
        if switched { let _ = analyse(&mut tc, dict, Mode::B, "xy")?; }
        let (c, clist) = analyse(&mut tc, dict, Mode::C, text)?;
        let mut ta = mk(Mode::A, InfoSubset::empty());
        let (a, _) = analyse(&mut ta, dict, Mode::A, text)?;
        let mut tb = mk(Mode::B, InfoSubset::empty());
        let (b, _) = analyse(&mut tb, dict, Mode::B, text)?;
        let mut api = Vec::new();
        for i in 0..clist.len() {
            for (mname, mode) in [("A", Mode::A), ("B", Mode::B)] {
                let mut out = MorphemeList::empty(dict.clone());
                let ret = clist.split_into(mode, i, &mut out).map_err(|e| format!("{:?}", e))?;
                let nodes: Vec<Value> = out.iter().map(|m| json!({"ob": m.begin(), "oe": m.end(), "dic": m.word_id().dic() as i64, "word": m.word_id().word()})).collect();
                api.push(json!({"i": i, "mode": mname, "returned": ret, "nodes": nodes}));
            }
        }
        Ok(json!({"ev": "modes", "run": run, "text": cps(text), "switched": switched, "variant": variant, "C": c, "A": a, "B": b, "api": api}))
    }));
    match r {
        Ok(Ok(v)) => tr.emit(v),
        Ok(Err(e)) => tr.emit(json!({"ev": "modes", "run": run, "text": cps(text), "err": e})),
        Err(m) => tr.emit(json!({"ev": "modes", "run": run, "text": cps(text), "err": format!("panic {}", m)})),
    }
}

pub fn record(args: &[String]) -> i32 {
    quiet_panics();
    let mut tr = Trace::create(&args[0]);
    let seed = arg_u64(args, "--seed", 1);
    let nworlds = arg_u64(args, "--worlds", 8) as usize;
    let ntexts = arg_u64(args, "--texts", 60) as usize;
    let mut rng = Rng::new(seed);
    let mut run = 0usize;
    let w = |k: &str, a: Vec<(usize, usize)>, b: Vec<(usize, usize)>| W { key: k.into(), head: k.into(), a, b };
    // (1) the dictionary of MC_Split, every text up to 4 characters over its letters
    let sys = vec![w("x", vec![], vec![]), w("y", vec![], vec![]), w("z", vec![], vec![]), w("あ", vec![], vec![]), w("𠮷", vec![], vec![]),
        w("xy", vec![(0, 0), (0, 1)], vec![]), w("xyz", vec![(0, 0), (0, 1), (0, 2)], vec![(0, 5), (0, 2)]), w("あx", vec![(0, 3), (0, 0)], vec![]), w("𠮷あ", vec![(0, 4), (0, 3)], vec![(0, 4), (0, 3)])];
    let usr = vec![w("zz", vec![], vec![]), w("xyzzz", vec![(0, 0), (0, 1), (0, 2), (1, 0)], vec![(0, 6), (1, 0)]), w("あxzz", vec![], vec![(0, 7), (1, 0)])];
    // a second user dictionary with references to its own words: the words with the same numbers in the first user dictionary have other lengths
    let usr2 = vec![w("あ𠮷", vec![], vec![]), w("zy", vec![], vec![]), w("zyあ𠮷", vec![(1, 1), (1, 0)], vec![(1, 1), (1, 0)]), w("xzyあ𠮷", vec![(0, 0), (1, 1), (1, 0)], vec![(0, 0), (1, 2)])];
    let layers = vec![sys, usr, usr2];
    match load(&layers) {
        Ok(dict) => {
            tr.emit(json!({"ev": "world", "run": run + 1, "dict": world_json(&layers)}));
            let letters = ["x", "y", "z", "あ", "𠮷", "X", "Ｙ"];
            let mut texts: Vec<String> = vec![String::new()];
            for _ in 0..4 { let mut next = Vec::new(); for t in texts.iter().filter(|t| t.chars().count() < 4) { for c in letters { next.push(format!("{}{}", t, c)); } } next.sort(); next.dedup(); texts.extend(next); texts.sort(); texts.dedup(); }
            let cap = arg_u64(args, "--exhaustive-cap", 800) as usize;
            let step = (texts.len() / cap).max(1);
            for (i, t) in texts.iter().enumerate() { if t.is_empty() || i % step != 0 { continue; } run += 1; record_text_v(&mut tr, run, &dict, t, i % 3 == 0, (i / step) % 4); }
            for t in ["xyzzz", "あxzz", "xyzzzあxzz", "ＸＹＺzz", "𠮷あxyz", "zyあ𠮷", "xzyあ𠮷", "zyあ𠮷xyzzz", "ＸＺＹあ𠮷z"] {
                for v in 0..4 { run += 1; record_text_v(&mut tr, run, &dict, t, v % 2 == 0, v); }
            }
        }
        Err(e) => { eprintln!("MC dictionary failed: {}", e); return 2; }
    }
    // (1b) a compound with declared units at the start of a run that a path-rewrite plugin merges: the merged token declares nothing
    {
        let sys = vec![w("アイ", vec![], vec![]), w("アイウ", vec![], vec![]), w("アイウアイ", vec![(0, 1), (0, 0)], vec![(0, 1), (0, 0)]), w("x", vec![], vec![]),
            w("xアイ", vec![(0, 3), (0, 0)], vec![])];
        let layers = vec![sys];
        let rewrite = r#"{"class":"com.worksap.nlp.sudachi.JoinKatakanaOovPlugin","oovPOS":["名詞","普通名詞","一般","*","*","*"],"minLength":3}"#;
        match load_with(&layers, rewrite) {
            Ok(dict) => {
                tr.emit(json!({"ev": "world", "run": run + 1, "dict": world_json(&layers)}));
                for (i, t) in ["アイウアイエ", "アイウアイ", "エアイウアイ", "アイウアイァ", "アイウアイエxアイ", "xアイエ", "xアイ", "アイウアイx", "アイエ", "エアイ"].iter().enumerate() {
                    run += 1;
                    record_text(&mut tr, run, &dict, t, i % 2 == 0);
                }
            }
            Err(e) => { eprintln!("plugin dictionary failed: {}", e); return 2; }
        }
    }
    // (2) generated dictionaries
    let base_letters = ["a", "b", "c", "あ", "い", "東", "京", "1", "é"];
    for _ in 0..nworlds {
        let nb = 4 + rng.below(5);
        let mut sys: Vec<W> = Vec::new();
        for _ in 0..nb {
            let k: String = (0..1 + rng.below(2)).map(|_| rng.pick_str(&base_letters)).collect();
            if sys.iter().any(|x| x.key == k) { continue; }
            // sometimes the headword is written differently (other byte width) than the key
            let head = if rng.chance(1, 3) { k.chars().map(|c| match c { 'a' => 'Ａ', 'b' => 'Ｂ', 'c' => 'C', '1' => '１', o => o }).collect() } else { k.clone() };
            sys.push(W { key: k, head, a: vec![], b: vec![] });
        }
        let nbase = sys.len();
        for _ in 0..(2 + rng.below(4)) {
            let n = 2 + rng.below(2);
            let us: Vec<usize> = (0..n).map(|_| rng.below(sys.len())).collect();
            let key: String = us.iter().map(|u| sys[*u].key.clone()).collect();
            if sys.iter().any(|x| x.key == key) { continue; }
            // A units: flatten to base words; B units: the chosen (possibly compound) words
            let mut a: Vec<(usize, usize)> = Vec::new();
            for u in &us { if sys[*u].a.is_empty() { a.push((0, *u)); } else { a.extend(sys[*u].a.clone()); } }
            let b: Vec<(usize, usize)> = if us.iter().any(|u| *u >= nbase) { us.iter().map(|u| (0, *u)).collect() } else { vec![] };
            sys.push(W { key: key.clone(), head: key, a, b });
        }
        let mut usr: Vec<W> = Vec::new();
        usr.push(W { key: "うう".into(), head: "うう".into(), a: vec![], b: vec![] });
        for _ in 0..(1 + rng.below(3)) {
            let s = rng.below(sys.len());
            let key = format!("{}うう", sys[s].key);
            if usr.iter().any(|x| x.key == key) { continue; }
            let mut a: Vec<(usize, usize)> = if sys[s].a.is_empty() { vec![(0, s)] } else { sys[s].a.clone() };
            a.push((1, 0));
            usr.push(W { key: key.clone(), head: key, a, b: vec![(0, s), (1, 0)] });
        }
        // a second user dictionary: other base words first, then compounds of its own words and of system words
        let mut usr2: Vec<W> = Vec::new();
        usr2.push(W { key: "ええええ".into(), head: "ええええ".into(), a: vec![], b: vec![] });
        usr2.push(W { key: "お".into(), head: "お".into(), a: vec![], b: vec![] });
        for _ in 0..(1 + rng.below(3)) {
            let s = rng.below(sys.len());
            let own = rng.below(2);
            let key = format!("{}{}", usr2[own].key, sys[s].key);
            if usr2.iter().any(|x| x.key == key) { continue; }
            let mut a: Vec<(usize, usize)> = vec![(1, own)];
            if sys[s].a.is_empty() { a.push((0, s)); } else { a.extend(sys[s].a.clone()); }
            usr2.push(W { key: key.clone(), head: key, a, b: vec![(1, own), (0, s)] });
        }
        { let key = "おええええ".to_string(); usr2.push(W { key: key.clone(), head: key, a: vec![(1, 1), (1, 0)], b: vec![(1, 1), (1, 0)] }); }
        let layers = vec![sys.clone(), usr.clone(), usr2.clone()];
        let dict = match load(&layers) { Ok(d) => d, Err(_) => continue };
        tr.emit(json!({"ev": "world", "run": run + 1, "dict": world_json(&layers)}));
        for k in 0..ntexts {
            let mut t = String::new();
            for _ in 0..(1 + rng.below(4)) {
                let w = if rng.chance(1, 4) { rng.pick(&usr).key.clone() } else if rng.chance(1, 4) { rng.pick(&usr2).key.clone() } else { rng.pick(&sys).key.clone() };
                // write it with other widths / case: the original text differs from the key in byte length
                let w2: String = if rng.chance(1, 3) { w.chars().map(|c| match c { 'a' => 'Ａ', 'b' => 'B', 'c' => 'Ｃ', '1' => '１', o => o }).collect() } else { w };
                t.push_str(&w2);
                if rng.chance(1, 6) { t.push_str(rng.pick_str(&["。", "x", " "])); }
            }
            run += 1;
            record_text_v(&mut tr, run, &dict, &t, k % 2 == 0, (k / 2) % 4);
        }
    }
    let n = tr.finish();
    println!("{}", json!({"events": n, "runs": run}));
    0
}
