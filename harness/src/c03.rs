//! C03: outcomes of whole analyses over hostile inputs, limit ladders and extreme dictionaries.
//! One event per analysis; the text is given as a recipe so that the replay can rebuild it.
use crate::dicts;
use crate::gen::{self, GenDict, GWord};
use crate::tok::{self, World};
use crate::util::*;
use serde_json::{json, Value};
use std::rc::Rc;
use sudachi::analysis::node::ResultNode;
use sudachi::analysis::stateful_tokenizer::StatefulTokenizer;
use sudachi::dic::dictionary::JapaneseDictionary;
use sudachi::dic::subset::InfoSubset;
use sudachi::input_text::InputBuffer;
use sudachi::prelude::*;

const FDFA: char = '\u{FDFA}'; // NFKC form is 18 characters / 33 bytes
const FW_A: char = 'Ａ'; // 3 bytes, normalises to 1

/// recipe -> text.  {"k":"cps","cps":[..]} | {"k":"rep","unit":[cps],"n":N,"tail":[cps]} | {"k":"blocks","a":..,"s":..,"e":..,"order":0..3}
pub fn build_text(r: &Value) -> String {
    match r["k"].as_str().unwrap() {
        "cps" => from_cps(&r["cps"]),
        "rep" => {
            let unit = from_cps(&r["unit"]);
            let mut s = unit.repeat(r["n"].as_u64().unwrap() as usize);
            if r.get("tail").map(|t| t.is_array()).unwrap_or(false) {
                s.push_str(&from_cps(&r["tail"]));
            }
            s
        }
        "blocks" => {
            let a = r["a"].as_u64().unwrap() as usize;
            let s = r["s"].as_u64().unwrap() as usize;
            let e = r["e"].as_u64().unwrap() as usize;
            let (sa, ss, se) = ("a".repeat(a), FW_A.to_string().repeat(s), FDFA.to_string().repeat(e));
            match r["order"].as_u64().unwrap_or(0) {
                0 => format!("{}{}{}", se, ss, sa), // expansion first: every later edit sees a long intermediate text
                1 => format!("{}{}{}", ss, sa, se), // shrinking first
                2 => format!("{}{}{}", sa, se, ss),
                _ => {
                    // interleaved
                    let mut out = String::new();
                    let (mut ia, mut is, mut ie) = (0, 0, 0);
                    while ia < a || is < s || ie < e {
                        if ie < e { out.push(FDFA); ie += 1; }
                        for _ in 0..8 { if is < s { out.push(FW_A); is += 1; } }
                        for _ in 0..16 { if ia < a { out.push('a'); ia += 1; } }
                    }
                    out
                }
            }
        }
        k => panic!("recipe kind {}", k),
    }
}

/// Call everything a user can call on the result; a panic here is an outcome, not a harness failure.
fn touch_all(list: &MorphemeList<Rc<JapaneseDictionary>>) -> (usize, bool, usize) {
    let mut tiles = true;
    let mut at = 0usize;
    let mut n = 0usize;
    let mut sub = list.empty_clone();
    for m in list.iter() {
        n += 1;
        if m.begin() != at || m.end() < m.begin() { tiles = false; }
        at = m.end();
        let _ = (m.begin_c(), m.end_c(), m.surface().len(), m.part_of_speech().len(), m.part_of_speech_id());
        let _ = (m.dictionary_form().len(), m.reading_form().len(), m.normalized_form().len(), m.get_word_info().dictionary_form_word_id(), m.index());
        let _ = (m.word_id().as_raw(), m.dictionary_id(), m.is_oov(), m.total_cost(), m.synonym_group_ids().len());
        let _ = m.get_word_info().a_unit_split().len() + m.get_word_info().b_unit_split().len() + m.get_word_info().word_structure().len();
        let _ = format!("{:?}", m).len();
        for mode in [Mode::A, Mode::B, Mode::C] {
            sub.clear();
            if let Ok(true) = m.split_into(mode, &mut sub) {
                for x in sub.iter() {
                    let _ = (x.begin(), x.end(), x.surface().len(), x.reading_form().len(), x.part_of_speech().len());
                }
            }
        }
    }
    let _ = (list.surface().len(), list.len(), list.get_internal_cost());
    (n, tiles, at)
}

pub struct Sess {
    pub tok: StatefulTokenizer<Rc<JapaneseDictionary>>,
    /// the caller's reusable result list (what the Python binding and the CLI do): results are swapped in and out of it
    pub list: MorphemeList<Rc<JapaneseDictionary>>,
    pub uses: usize,
}
impl Sess {
    pub fn new(w: &World) -> Sess {
        Sess { tok: StatefulTokenizer::new(w.dict.clone(), Mode::C), list: MorphemeList::empty(w.dict.clone()), uses: 0 }
    }
}

pub fn run_case(tr: &mut Trace, run: usize, world: &World, sess: &mut Sess, mode: Mode, recipe: &Value, extra: Value) {
    sess.uses += 1;
    // three analyses out of four swap their result into the caller's reusable list, one takes it out into fresh vectors
    let reuse_list = extra.get("reuse").and_then(|r| r.as_bool()).unwrap_or(sess.uses % 4 != 1);
    let Sess { tok, list: plist, .. } = sess;
    let text = build_text(recipe);
    let nbytes = text.len();
    tok.set_mode(mode);
    let res = catch(std::panic::AssertUnwindSafe(|| {
        tok.reset().push_str(&text);
        tok.do_tokenize()
    }));
    let fallback = world.meta["has_fallback_oov"].as_bool().unwrap_or(false);
    let mut ev = json!({"ev": "tok", "run": run, "world": world.name, "mode": tok::mode_idx(mode), "fallback": fallback, "nbytes": nbytes,
        "final": 0, "final_known": true, "reuse": reuse_list, "res": "", "touch": "none", "tiles": true, "covered": 0, "n": 0, "recipe": recipe, "extra": extra, "msg": "", "loc": ""});
    match res {
        Err(msg) => {
            ev["res"] = json!("panic");
            ev["msg"] = json!(msg);
            ev["loc"] = json!(last_panic_location());
            *tok = StatefulTokenizer::new(world.dict.clone(), mode);
        }
        Ok(Err(e)) => {
            match e {
                SudachiError::InputTooLong(got, limit) => {
                    ev["res"] = json!("toolong");
                    ev["final"] = json!(got);
                    ev["limit"] = json!(limit);
                }
                other => {
                    ev["res"] = json!("err");
                    ev["msg"] = json!(format!("{:?}", other));
                }
            }
        }
        Ok(Ok(())) if reuse_list => {
            let r = catch(std::panic::AssertUnwindSafe(|| {
                plist.collect_results(tok).map(|_| touch_all(plist))
            }));
            ev["final_known"] = json!(false);
            match r {
                Ok(Ok((n, tiles, at))) => {
                    ev["res"] = json!("ok");
                    ev["touch"] = json!("ok");
                    ev["tiles"] = json!(tiles);
                    ev["covered"] = json!(at);
                    ev["n"] = json!(n);
                }
                Ok(Err(e)) => {
                    ev["res"] = json!("err");
                    ev["msg"] = json!(format!("collect_results: {:?}", e));
                }
                Err(msg) => {
                    ev["res"] = json!("ok");
                    ev["touch"] = json!("panic");
                    ev["msg"] = json!(msg);
                    ev["loc"] = json!(last_panic_location());
                    *tok = StatefulTokenizer::new(world.dict.clone(), mode);
                    *plist = MorphemeList::empty(world.dict.clone());
                }
            }
        }
        Ok(Ok(())) => {
            let mut input = InputBuffer::new();
            let mut nodes: Vec<ResultNode> = Vec::new();
            let mut subset = InfoSubset::all();
            let r = catch(std::panic::AssertUnwindSafe(|| {
                tok.swap_result(&mut input, &mut nodes, &mut subset);
                let fin = input.current().len();
                let list = MorphemeList::from_components(world.dict.clone(), input, nodes, subset);
                let t = touch_all(&list);
                (fin, t)
            }));
            match r {
                Ok((fin, (n, tiles, at))) => {
                    ev["res"] = json!("ok");
                    ev["final"] = json!(fin);
                    ev["touch"] = json!("ok");
                    ev["tiles"] = json!(tiles);
                    ev["covered"] = json!(at);
                    ev["n"] = json!(n);
                }
                Err(msg) => {
                    ev["res"] = json!("ok");
                    ev["touch"] = json!("panic");
                    ev["msg"] = json!(msg);
                    ev["loc"] = json!(last_panic_location());
                    *tok = StatefulTokenizer::new(world.dict.clone(), mode);
                }
            }
        }
    }
    tr.emit(ev);
}

fn rep(unit: &str, n: usize, tail: &str) -> Value {
    json!({"k": "rep", "unit": cps(unit), "n": n, "tail": cps(tail)})
}

const HOSTILE: [&str; 40] = [
    "\u{0}", "\u{1}", "\u{7f}", "\u{85}", "\u{a0}", "\u{ad}", "\u{200d}", "\u{200b}", "\u{feff}", "\u{fffd}", "\u{ffff}", "\u{fffe}",
    "\u{10ffff}", "\u{e0001}", "\u{378}", "\u{3099}", "\u{309a}", "\u{301}", "\u{20dd}", "\u{1f468}\u{200d}\u{1f469}\u{200d}\u{1f467}",
    "𠮷", "\u{1f600}", "ﷺ", "㍿", "㌖", "ǆ", "ß", "İ", "ſ", "ﬃ", "\r\n", "\n", "\t", "\u{2028}", "\u{3000}", "ー", "゛", "ﾞ", "ｶﾞ", "\u{1100}\u{1161}\u{11a8}",
];

/// worlds whose dictionaries are built to sit on a documented finding or on a cost extreme
fn vanishing_world() -> World {
    let res = dicts::resource_dir("fixture", &[("char.def", "/repo/sudachi/tests/resources/char.def"), ("rewrite.def", "/repo/sudachi/tests/resources/rewrite.def")]);
    let (sys, users) = dicts::test_dict_bytes(true);
    let cfg = r#"{"characterDefinitionFile":"char.def","inputTextPlugin":[{"class":"com.worksap.nlp.sudachi.DefaultInputTextPlugin"},{"class":"com.worksap.nlp.sudachi.ProlongedSoundMarkPlugin","prolongedSoundMarks":["ー","-","⁓","〜","〰"],"replacementSymbol":""},{"class":"com.worksap.nlp.sudachi.IgnoreYomiganaPlugin","leftBrackets":["(","（"],"rightBrackets":[")","）"],"maxYomiganaLength":4}],"oovProviderPlugin":[{"class":"com.worksap.nlp.sudachi.SimpleOovPlugin","oovPOS":["名詞","普通名詞","一般","*","*","*"],"leftId":8,"rightId":8,"cost":6000}],"pathRewritePlugin":[]}"#;
    let dict = dicts::load(cfg, &res, sys, users).expect("vanishing world");
    World { name: "vanishing".into(), dict: Rc::new(dict), meta: json!({"n_input_plugins": 3, "n_oov": 1, "n_path_rewrite": 0, "has_fallback_oov": true}) }
}

fn extreme_worlds() -> Vec<World> {
    let res = dicts::resource_dir("fixture", &[
        ("char.def", "/repo/sudachi/tests/resources/char.def"),
        ("unk2.def", "/repo/sudachi/tests/resources/unk2.def"),
        ("rewrite.def", "/repo/sudachi/tests/resources/rewrite.def"),
    ]);
    let mut out = Vec::new();
    let mk = |name: &str, conn: i16, wcost: i16, oovcost: i16, out: &mut Vec<World>| {
        let w = |k: &str, c: i16| GWord { key: k.to_string(), lid: 0, rid: 0, cost: c, pos: 0, split_a: vec![], split_b: vec![] };
        let d = GenDict { nl: 1, nr: 1, conn: vec![vec![conn]], words: vec![w("1", wcost), w("あ", wcost), w("11", wcost)], oov: (0, 0, oovcost) };
        let sys = d.build().expect("extreme dictionary");
        let cfg = format!(r#"{{"characterDefinitionFile":"char.def","inputTextPlugin":[],"oovProviderPlugin":[{}],"pathRewritePlugin":[]}}"#, d.simple_oov_json());
        let dict = dicts::load(&cfg, &res, sys, vec![]).expect("extreme world");
        out.push(World { name: name.to_string(), dict: Rc::new(dict), meta: json!({"has_fallback_oov": true}) });
    };
    mk("cost-max", 32767, 32767, 32767, &mut out);
    mk("cost-min", -32768, -32767, -32767, &mut out);
    mk("cost-mixed", -32768, 32767, 1, &mut out);
    out
}

fn random_worlds(rng: &mut Rng, n: usize) -> Vec<(World, GenDict)> {
    let res = dicts::resource_dir("fixture", &[("char.def", "/repo/sudachi/tests/resources/char.def")]);
    let mut out = Vec::new();
    let mut k = 0;
    while out.len() < n {
        k += 1;
        let d = GenDict::random(rng, &gen::LETTERS, 10);
        let sys = match d.build() { Ok(s) => s, Err(_) => continue };
        let cfg = format!(r#"{{"characterDefinitionFile":"char.def","inputTextPlugin":[],"oovProviderPlugin":[{}],"pathRewritePlugin":[]}}"#, d.simple_oov_json());
        if let Ok(dict) = dicts::load(&cfg, &res, sys, vec![]) {
            out.push((World { name: format!("gen{}", k), dict: Rc::new(dict), meta: json!({"has_fallback_oov": true}) }, d));
        }
    }
    out
}

/// worlds with generated character / unknown-word definitions: private-use letters that belong to one, two or three classes, every
/// class with its own invoke / group / length setting and one or two unk.def lines, the MeCab provider in front of the simple fallback
/// (one world without the fallback: "err" is allowed there, a panic never is).  The shipped fixture definitions give every character
/// of interest a single class with a fixed setting; the arithmetic on run lengths per class is only reached here.
fn oovdef_worlds(thorough: bool) -> Vec<World> {
    // (invoke, group, length) per class
    let settings: [(u8, u8, u8); 6] = [(1, 1, 0), (0, 1, 2), (1, 0, 1), (0, 0, 3), (1, 1, 3), (0, 0, 0)];
    let mut combos: Vec<[usize; 3]> = Vec::new();
    for a in 0..settings.len() { for b in 0..settings.len() { for c in 0..settings.len() {
        if thorough || (a * 7 + b * 3 + c) % 6 == 0 || (a == b && b == c) { combos.push([a, b, c]); }
    } } }
    let sys = dicts::build_system("東,0,0,100,東,名詞,普通名詞,一般,*,*,*,ヒガシ,東,*,A,*,*,*,*\n\u{E001}\u{E003},1,1,-50,\u{E001}\u{E003},名詞,普通名詞,一般,*,*,*,エー,\u{E001}\u{E003},*,A,*,*,*,*\n".as_bytes(),
        b"2 2\n0 0 0\n0 1 1\n1 0 -2\n1 1 3\n").expect("oovdef system dictionary");
    let mut out = Vec::new();
    for (k, combo) in combos.iter().enumerate() {
        let res = dicts::scratch_dir(&format!("c03oov{}", k % 8));
        let mut cd = String::from("0xE001 KANJI\n0xE002 HIRAGANA\n0xE003 KANJI HIRAGANA\n0xE004 KANJI HIRAGANA KATAKANA\n0xE005 KATAKANA\n0xE006 HIRAGANA KATAKANA\n0xE007 ALL NOOOVBOW\n0xE008 ALL NOOOVBOW2\n0x6771 KANJI\n");
        let names = ["KANJI", "HIRAGANA", "KATAKANA"];
        let mut ud = String::new();
        for (ci, name) in names.iter().enumerate() {
            let (i, g, l) = settings[combo[ci]];
            cd.push_str(&format!("{} {} {} {}\n", name, i, g, l));
            ud.push_str(&format!("{},{},{},{},名詞,普通名詞,一般,*,*,*\n", name, ci % 2, (ci + 1) % 2, 300 + 10 * ci as i32));
            if (k + ci) % 3 == 0 { ud.push_str(&format!("{},1,0,{},名詞,固有名詞,一般,*,*,*\n", name, 250 - 5 * ci as i32)); }
        }
        cd.push_str(&format!("DEFAULT {} {} {}\n", k % 2, (k / 2) % 2, k % 3));
        ud.push_str("DEFAULT,0,0,500,補助記号,一般,*,*,*,*\n");
        std::fs::write(res.join("char.def"), cd).unwrap();
        std::fs::write(res.join("unk.def"), ud).unwrap();
        let fallback = k % 9 != 4;
        let cfg = format!(r#"{{"characterDefinitionFile":"char.def","inputTextPlugin":[],"oovProviderPlugin":[{{"class":"com.worksap.nlp.sudachi.MeCabOovPlugin","charDef":"char.def","unkDef":"unk.def","userPOS":"allow"}}{}],"pathRewritePlugin":[]}}"#,
            if fallback { r#",{"class":"com.worksap.nlp.sudachi.SimpleOovPlugin","oovPOS":["名詞","普通名詞","一般","*","*","*"],"leftId":0,"rightId":0,"cost":9000,"userPOS":"allow"}"# } else { "" });
        match dicts::load(&cfg, &res, sys.clone(), vec![]) {
            Ok(dict) => out.push(World { name: format!("oovdef{}", k), dict: Rc::new(dict), meta: json!({"has_fallback_oov": fallback, "combo": combo.to_vec()}) }),
            Err(e) => panic!("oovdef world {}: {:?}", k, e),
        }
    }
    out
}

/// `vh c03-record <out> --seed S --tier quick|thorough`
pub fn record(args: &[String]) -> i32 {
    quiet_panics();
    let out = &args[0];
    let seed = arg_u64(args, "--seed", 1);
    let thorough = arg_val(args, "--tier").map(|t| t == "thorough").unwrap_or(false);
    let mut rng = Rng::new(seed);
    let mut tr = Trace::create(out);
    let mut run = 0usize;
    let worlds = tok::fixture_worlds();
    let mut toks: Vec<Sess> = worlds.iter().map(Sess::new).collect();

    // 0a. a configuration whose input plugins can rewrite a non-empty text to nothing (prolonged sound marks collapse to the empty string,
    //     readings in brackets are removed): texts that vanish entirely, almost, or not at all
    {
        let w = vanishing_world();
        let mut s = Sess::new(&w);
        for (k, t) in ["ーー", "ー〜ー", "--------", "aーー", "ーーa", "ーー。ーー", "ー", "〜〜〜〜〜〜〜〜〜〜〜〜〜〜〜〜〜〜〜〜", "漢(かな)ーー", "", "ーー", "東京ーー都"].iter().enumerate() {
            run += 1;
            run_case(&mut tr, run, &w, &mut s, tok::mode_of(k), &json!({"k": "cps", "cps": cps(t)}), json!({"part": "vanishing", "reuse": false}));
        }
    }
    // 0b. tokenizers with the debug dump switched on (what `sudachi -d` uses), reused for longer and shorter texts
    for wi in [3usize, 0] {
        let w = &worlds[wi];
        let mut s = Sess { tok: StatefulTokenizer::create(w.dict.clone(), true, Mode::C), list: MorphemeList::empty(w.dict.clone()), uses: 0 };
        for (k, t) in ["東京都に行った。京都にも行く", "京都", "", "に", "東京都に行った。京都にも行くｶﾞｷﾞｸﾞ", "a", "ーー", "東京"].iter().enumerate() {
            run += 1;
            s.tok.set_debug(true);
            run_case(&mut tr, run, w, &mut s, tok::mode_of(k / 3), &json!({"k": "cps", "cps": cps(t)}), json!({"part": "debug"}));
        }
    }
    // 1. every hostile unit alone, doubled, between Japanese, in every world
    for (hi, h) in HOSTILE.iter().enumerate() {
        for (wi, w) in worlds.iter().enumerate() {
            for (vi, t) in [h.to_string(), format!("{}{}", h, h), format!("東京{}都", h), format!("{}1", h)].iter().enumerate() {
                run += 1;
                run_case(&mut tr, run, w, &mut toks[wi], tok::mode_of(hi + wi + vi), &json!({"k": "cps", "cps": cps(t)}), json!({"part": "hostile"}));
            }
        }
    }
    // 1b. inputs that are or become empty, right after non-empty analyses on the same tokenizer and list
    for (wi, w) in worlds.iter().enumerate() {
        for (k, t) in ["東京都に行った", "", "", "京都。", "", "東京", " ", "", "(あ)", "", "\u{0}", ""].iter().enumerate() {
            run += 1;
            run_case(&mut tr, run, w, &mut toks[wi], tok::mode_of(k), &json!({"k": "cps", "cps": cps(t)}), json!({"part": "empty"}));
        }
    }
    // 2. Unicode scalar sweep: alone and doubled (thorough: every scalar; quick: a stride plus all block edges)
    let stride = if thorough { 1 } else { 61 };
    let sweep_worlds: Vec<usize> = if thorough { vec![1, 3, 4] } else { vec![3] };
    let mut c = (seed as u32) % stride;
    while c <= 0x10FFFF {
        if let Some(ch) = char::from_u32(c) {
            for &wi in &sweep_worlds {
                run += 1;
                let t = if c % 2 == 0 { ch.to_string() } else { format!("{}{}", ch, ch) };
                run_case(&mut tr, run, &worlds[wi], &mut toks[wi], Mode::C, &json!({"k": "cps", "cps": cps(&t)}), json!({"part": "sweep"}));
            }
        }
        c += stride;
    }
    // 3. random mixtures of hostile units and Japanese
    let nmix = if thorough { 6000 } else { 600 };
    for _ in 0..nmix {
        let n = 1 + rng.below(12);
        let mut t = String::new();
        for _ in 0..n {
            if rng.chance(1, 2) { t.push_str(rng.pick_str(&HOSTILE)); } else { t.push_str(rng.pick_str(&crate::texts::FIXTURE_SENTENCES)); }
        }
        let wi = rng.below(worlds.len());
        run += 1;
        run_case(&mut tr, run, &worlds[wi], &mut toks[wi], tok::mode_of(rng.below(3)), &json!({"k": "cps", "cps": cps(&t)}), json!({"part": "mix"}));
    }
    // 4. length ladder: repeated units whose byte length is just below, on and above the limit
    let units = ["a", "あ", "Ａ", "𠮷", "\u{0}", "1", "京都", "ー", "\u{3099}", "\u{200d}", "ｶﾞ", "ﷺ", "㍿", "一", "(あ)", "ア", "A", "東京都"];
    for (ui, u) in units.iter().enumerate() {
        let per = u.len();
        let base = 49149 / per;
        let counts: Vec<(usize, &str)> = vec![(base, ""), (base + 1, ""), (base, "a"), (base.saturating_sub(1), "aa"), (base / 2, ""), (300, "")];
        for (ci, (n, tail)) in counts.iter().enumerate() {
            let wis: Vec<usize> = if thorough { (0..worlds.len()).collect() } else { vec![(ui + ci) % worlds.len(), 3] };
            for wi in wis {
                run += 1;
                run_case(&mut tr, run, &worlds[wi], &mut toks[wi], tok::mode_of(ui + ci), &rep(u, *n, tail), json!({"part": "ladder"}));
            }
        }
    }
    // 5. dictionaries at the cost extremes and random generated dictionaries, short and very long texts
    let ext = extreme_worlds();
    for w in ext.iter() {
        let mut t = Sess::new(w);
        for (u, n) in [("1", 10usize), ("1", 30000), ("1", 49149), ("あ", 16383), ("x", 49149), ("1あx", 7000), ("11", 24574)] {
            run += 1;
            run_case(&mut tr, run, w, &mut t, Mode::C, &rep(u, n, ""), json!({"part": "extreme"}));
        }
    }
    let nrand = if thorough { 60 } else { 12 };
    for (w, d) in random_worlds(&mut rng, nrand).iter() {
        let mut t = Sess::new(w);
        for k in 0..6 {
            let unit = if k % 2 == 0 { d.words[rng.below(d.words.len())].key.clone() } else { crate::c02::gen_text(&mut rng, d, &gen::LETTERS, 6) };
            if unit.is_empty() { continue; }
            let n = match k { 0 | 1 => 1 + rng.below(5), 2 | 3 => 49149 / unit.len(), _ => 20000 / unit.len() };
            run += 1;
            run_case(&mut tr, run, w, &mut t, tok::mode_of(k), &rep(&unit, n, ""), json!({"part": "gen"}));
        }
    }
    // 6. generated character / unknown-word definitions: every text of at most 3 letters (thorough: 4) over letters of one, two
    //    and three classes, a combining-like and a joiner-like letter and a dictionary word
    let letters = ["\u{E001}", "\u{E002}", "\u{E003}", "\u{E004}", "\u{E005}", "\u{E006}", "\u{E007}", "\u{E008}", "東", "x"];
    let maxlen = if thorough { 4 } else { 3 };
    let mut all_texts: Vec<String> = vec![String::new()];
    let mut frontier: Vec<String> = vec![String::new()];
    for _ in 0..maxlen {
        let mut next = Vec::new();
        for t in frontier.iter() { for l in letters.iter() { next.push(format!("{}{}", t, l)); } }
        all_texts.extend(next.iter().cloned());
        frontier = next;
    }
    let mut n_oovdef = 0usize;
    for (wk, w) in oovdef_worlds(thorough).iter().enumerate() {
        let mut t = Sess::new(w);
        for (ti, text) in all_texts.iter().enumerate() {
            // quick: every world sees all texts of <= 2 letters and every fourth longer one (a different quarter per world)
            if !thorough && text.chars().count() > 2 && (ti + wk) % 4 != 0 { continue; }
            run += 1;
            n_oovdef += 1;
            run_case(&mut tr, run, w, &mut t, tok::mode_of(ti), &json!({"k": "cps", "cps": cps(text)}), json!({"part": "oovdef"}));
        }
    }
    // 7. numerals: a dictionary in which every numeral character is a word, the shipped character definition (kanji numerals carry
    //    their class there, not in the fixture definition) and the numeral joining plugin, normalising and not; every string of
    //    at most 4 (thorough: 5) symbols over digits, small and large units and separators - values up to 10^19 and beyond
    let syms = ["1", "0", "5", "十", "千", "万", "億", "兆", ".", ",", "百"];
    let nmax = if thorough { 5 } else { 4 };
    let mut n_numeral = 0usize;
    for (wn, norm) in [true, false].iter().enumerate() {
        let w = World { name: format!("numerals-{}", norm), dict: crate::c15::numeral_dict(*norm, wn == 0), meta: json!({"has_fallback_oov": true}) };
        let mut t = Sess::new(&w);
        let mut frontier: Vec<String> = vec![String::new()];
        for len in 1..=nmax {
            let mut next = Vec::new();
            for f in frontier.iter() { for y in syms.iter() { next.push(format!("{}{}", f, y)); } }
            for (ti, text) in next.iter().enumerate() {
                // quick: every string of <= 3 symbols, a third of the longer ones (another third without normalisation)
                if !thorough && len > 3 && (ti + wn) % 3 != 0 { continue; }
                if !*norm && len > 3 && ti % 2 == 0 { continue; }
                run += 1;
                n_numeral += 1;
                let full = if ti % 5 == 0 { format!("{}円は", text) } else { text.clone() };
                run_case(&mut tr, run, &w, &mut t, tok::mode_of(ti), &json!({"k": "cps", "cps": cps(&full)}), json!({"part": "numerals"}));
            }
            frontier = next;
        }
    }
    let n = tr.finish();
    println!("{}", json!({"events": n, "runs": run, "oovdef_runs": n_oovdef, "numeral_runs": n_numeral}));
    0
}

/// `vh c03-replay <tlc-out> <events-out>`: TLC's limit compositions, each in four block orders, in the worlds with the default input plugin.
pub fn replay(args: &[String]) -> i32 {
    quiet_panics();
    let lines = read_replay_lines(&args[0]);
    let mut tr = Trace::create(&args[1]);
    let worlds = tok::fixture_worlds();
    let wis: Vec<usize> = worlds.iter().enumerate().filter(|(_, w)| w.name == "default" || w.name == "full").map(|(i, _)| i).collect();
    let mut toks: Vec<Sess> = worlds.iter().map(Sess::new).collect();
    let mut run = 0usize;
    let every = arg_u64(args, "--every", 1) as usize;
    for (li, v) in lines.iter().enumerate() {
        if li % every != 0 { continue; }
        for order in 0..4u64 {
            let wi = wis[(li + order as usize) % wis.len()];
            run += 1;
            let recipe = json!({"k": "blocks", "a": v["a"], "s": v["s"], "e": v["e"], "order": order});
            run_case(&mut tr, run, &worlds[wi], &mut toks[wi], tok::mode_of(li), &recipe,
                json!({"part": "limits", "model_nbytes": v["nbytes"], "model_final": v["final"], "expect": v["expect"]}));
        }
    }
    let n = tr.finish();
    println!("{}", json!({"events": n, "runs": run, "lines": lines.len()}));
    0
}

/// `vh c03-single <out> '<json array of events>'`: re-run recorded cases (world + mode + recipe + reuse) in order, one session per world
pub fn single(args: &[String]) -> i32 {
    quiet_panics();
    let v: Value = serde_json::from_str(&args[1]).expect("event json");
    let evs: Vec<Value> = if v.is_array() { v.as_array().unwrap().clone() } else { vec![v] };
    let mut tr = Trace::create(&args[0]);
    let mut all = tok::fixture_worlds();
    all.extend(extreme_worlds());
    all.push(vanishing_world());
    let mut sess: Vec<Option<Sess>> = all.iter().map(|_| None).collect();
    for (k, e) in evs.iter().enumerate() {
        let name = e["world"].as_str().unwrap();
        match all.iter().position(|w| w.name == name) {
            Some(wi) => {
                if sess[wi].is_none() {
                    sess[wi] = Some(Sess::new(&all[wi]));
                }
                let mut extra = json!({"part": "single"});
                if e.get("reuse").map(|r| r.is_boolean()).unwrap_or(false) {
                    extra["reuse"] = e["reuse"].clone();
                }
                run_case(&mut tr, k + 1, &all[wi], sess[wi].as_mut().unwrap(), tok::mode_of(e["mode"].as_u64().unwrap_or(2) as usize), &e["recipe"], extra);
            }
            None => {
                eprintln!("world {} is generated per seed; re-run c03-record with the recorded seed", name);
                return 2;
            }
        }
    }
    tr.finish();
    0
}
