//! Configuration assembly and resource resolution (spec/ConfigResolve.tla): every scenario TLC enumerates is set up on disk
//! and given to the real Config::new / complete_path.
use crate::util::*;
use serde_json::{json, Value};
use std::path::PathBuf;
use sudachi::config::Config;

pub fn replay(args: &[String]) -> i32 {
    quiet_panics();
    let lines = read_replay_lines(&args[0]);
    let base = PathBuf::from("/verif/work/cfg_sandbox");
    let _ = std::fs::remove_dir_all(&base);
    let default_dir = sudachi::config::default_resource_dir();
    let mut mismatches: Vec<Value> = Vec::new();
    let mut n = 0usize;
    for (li, v) in lines.iter().enumerate() {
        let sb = base.join(format!("s{}", li));
        for d in ["A", "B", "P", "cwd"] {
            std::fs::create_dir_all(sb.join(d)).unwrap();
        }
        let dir_of = |name: &str| -> PathBuf {
            match name {
                "DEF" => default_dir.clone(),
                "" => sb.join("cwd"),
                d => sb.join(d),
            }
        };
        for e in v["exists"].as_array().unwrap() {
            std::fs::write(dir_of(e.as_str().unwrap()).join("r.def"), b"x").unwrap();
        }
        let f = &v["file"];
        let mut obj = serde_json::Map::new();
        if f["path"] != "<none>" { obj.insert("path".into(), json!(dir_of(f["path"].as_str().unwrap()).display().to_string())); }
        if f["systemDict"] != "<none>" { obj.insert("systemDict".into(), f["systemDict"].clone()); }
        if f["charDef"] != "<none>" { obj.insert("characterDefinitionFile".into(), f["charDef"].clone()); }
        let file_dir = dir_of(v["fileDir"].as_str().unwrap());
        let cfg_path = file_dir.join("sudachi.json");
        std::fs::write(&cfg_path, serde_json::to_string(&Value::Object(obj)).unwrap()).unwrap();
        std::env::set_current_dir(sb.join("cwd")).unwrap();
        let arg_res = if v["argRes"] == "<none>" { None } else { Some(dir_of(v["argRes"].as_str().unwrap())) };
        let arg_dict = if v["argDict"] == "<none>" { None } else { Some(PathBuf::from(v["argDict"].as_str().unwrap())) };
        let r = catch(std::panic::AssertUnwindSafe(|| Config::new(Some(cfg_path.clone()), arg_res.clone(), arg_dict.clone())));
        n += 1;
        let cfg = match r {
            Ok(Ok(c)) => c,
            other => { mismatches.push(json!({"line": li, "what": "Config::new failed", "got": format!("{:?}", other.map(|x| x.map(|_| ()))), "abstract": v})); continue; }
        };
        // the anchors, in order, as the public API shows them
        let roots: Vec<String> = cfg.resolve_paths("$cfg/x".to_string()).iter().map(|p| PathBuf::from(p).parent().unwrap().display().to_string()).collect();
        let want_roots: Vec<String> = v["anchors"].as_array().unwrap().iter().map(|a| dir_of(a.as_str().unwrap()).display().to_string()).collect();
        if roots != want_roots {
            mismatches.push(json!({"line": li, "what": "anchors", "expected": want_roots, "got": roots, "abstract": v}));
            continue;
        }
        let sys = cfg.system_dict.as_ref().map(|p| p.display().to_string()).unwrap_or("<none>".into());
        if sys != v["sys"].as_str().unwrap() {
            mismatches.push(json!({"line": li, "what": "system dictionary", "expected": v["sys"], "got": sys, "abstract": v}));
            continue;
        }
        let cd = cfg.character_definition_file.display().to_string();
        if cd != v["chardef"].as_str().unwrap() {
            mismatches.push(json!({"line": li, "what": "character definition file", "expected": v["chardef"], "got": cd, "abstract": v}));
            continue;
        }
        let got = cfg.complete_path("r.def");
        let want = &v["resolved"];
        let ok = match (&got, want["res"].as_str().unwrap()) {
            (Ok(p), "ok") => {
                let d = want["dir"].as_str().unwrap();
                if d == "" { p == &PathBuf::from("r.def") } else { p == &dir_of(d).join("r.def") }
            }
            (Err(_), "err") => true,
            _ => false,
        };
        if !ok {
            mismatches.push(json!({"line": li, "what": "resolution of a relative resource name", "expected": want, "got": format!("{:?}", got), "abstract": v}));
        }
        // an absolute name is itself, wherever it points
        let abs = sb.join("nowhere").join("r.def");
        if cfg.complete_path(abs.clone()).ok() != Some(abs) {
            mismatches.push(json!({"line": li, "what": "absolute name", "abstract": v}));
        }
    }
    std::env::set_current_dir("/verif").unwrap();
    let _ = std::fs::remove_dir_all(&base);
    println!("{}", json!({"behaviours": n, "mismatches": mismatches.iter().take(20).collect::<Vec<_>>(), "n_mismatches": mismatches.len()}));
    0
}
