//! C13 - unknown-word candidates.  S->I: TLC-enumerated class texts / definitions / provider stacks
//! replayed through a generated char.def + unk.def on the real InputBuffer and OOV providers.
//! I->S: whole analyses with the shipped definition files, recorded through hooks H2/H4.
use crate::dicts;
use crate::tok;
use crate::util::*;
use serde_json::{json, Value};
use std::collections::BTreeMap;
use std::rc::Rc;
use sudachi::analysis::created::CreatedWords;
use sudachi::analysis::node::LatticeNode;
use sudachi::analysis::node::RightId;
use sudachi::analysis::stateful_tokenizer::StatefulTokenizer;
use sudachi::analysis::stateless_tokenizer::DictionaryAccess;
use sudachi::analysis::Node;
use sudachi::dic::dictionary::JapaneseDictionary;
use sudachi::input_text::InputBuffer;
use sudachi::input_text::InputTextIndex;
use sudachi::prelude::*;

fn pos_of(k: u64) -> String { format!("品詞{},*,*,*,*,*", k) }
fn pos_json(k: u64) -> String { format!(r#"["品詞{}","*","*","*","*","*"]"#, k) }

fn build_world(v: &Value, name: &str) -> Result<JapaneseDictionary, String> {
    let res = dicts::scratch_dir(name);
    // char.def: one private-use code point per class-set letter + the class definitions
    let mut cd = String::new();
    for (k, cls) in v["classes"].as_array().unwrap().iter().enumerate() {
        let names: Vec<&str> = cls.as_array().unwrap().iter().map(|x| x.as_str().unwrap()).collect();
        cd.push_str(&format!("0x{:04X} {}\n", 0xE000 + k + 1, names.join(" ")));
    }
    let info = v["infodef"].as_object().unwrap();
    for (c, i) in info.iter() {
        cd.push_str(&format!("{} {} {} {}\n", c, if i["invoke"].as_bool().unwrap() { 1 } else { 0 }, if i["group"].as_bool().unwrap() { 1 } else { 0 }, i["length"]));
    }
    std::fs::write(res.join("char.def"), cd).unwrap();
    let mut ud = String::new();
    for (c, defs) in v["unkdef"].as_object().unwrap().iter() {
        if !info.contains_key(c) { continue; }
        for d in defs.as_array().unwrap() { ud.push_str(&format!("{},{},{},{},{}\n", c, d["lid"], d["rid"], d["cost"], pos_of(d["pos"].as_u64().unwrap()))); }
    }
    std::fs::write(res.join("unk.def"), ud).unwrap();
    let mut provs = Vec::new();
    for p in v["providers"].as_array().unwrap() {
        match p["kind"].as_str().unwrap() {
            "mecab" => provs.push(r#"{"class":"com.worksap.nlp.sudachi.MeCabOovPlugin","charDef":"char.def","unkDef":"unk.def","userPOS":"allow"}"#.to_string()),
            "simple" => provs.push(format!(r#"{{"class":"com.worksap.nlp.sudachi.SimpleOovPlugin","oovPOS":{},"leftId":{},"rightId":{},"cost":{},"userPOS":"allow"}}"#, pos_json(p["pos"].as_u64().unwrap()), p["lid"], p["rid"], p["cost"])),
            "regex" => {
                let set: String = p["set"].as_array().unwrap().iter().map(|c| format!("\\x{{{:X}}}", c.as_u64().unwrap())).collect();
                provs.push(format!(r#"{{"class":"com.worksap.nlp.sudachi.RegexOovProvider","oovPOS":{},"leftId":{},"rightId":{},"cost":{},"userPOS":"allow","regex":"[{}]+","maxLength":{},"boundaries":"{}"}}"#,
                    pos_json(p["pos"].as_u64().unwrap()), p["lid"], p["rid"], p["cost"], set.replace('\\', "\\\\"), p["max"], if p["strict"].as_bool().unwrap() { "strict" } else { "relaxed" }));
            }
            o => panic!("provider {}", o),
        }
    }
    let cfg = format!(r#"{{"characterDefinitionFile":"char.def","oovProviderPlugin":[{}]}}"#, provs.join(","));
    let sys = dicts::build_system("東,0,0,100,東,名詞,普通名詞,一般,*,*,*,ヒガシ,東,*,A,*,*,*,*\n".as_bytes(), b"2 2\n0 0 0\n0 1 1\n1 0 2\n1 1 3\n").map_err(|e| format!("{:?}", e))?;
    dicts::load(&cfg, &res, sys, vec![]).map_err(|e| format!("{:?}", e))
}

fn node_json(dict: &JapaneseDictionary, n: &Node) -> Value {
    let pos = dict.grammar().pos_components(n.word_id().word() as u16).join(",");
    let k: i64 = pos.strip_prefix("品詞").and_then(|r| r.split(',').next()).and_then(|x| x.parse().ok()).unwrap_or(-1);
    json!({"b": n.begin(), "e": n.end(), "lid": n.left_id(), "rid": n.right_id(), "cost": n.cost(), "pos": k})
}

fn canon(v: &[Value]) -> Vec<String> {
    let mut s: Vec<String> = v.iter().map(|n| format!("{}|{}|{}|{}|{}|{}", n["b"], n["e"], n["lid"], n["rid"], n["cost"], n["pos"])).collect();
    s.sort();
    s.dedup(); // duplicates are not fixed by the property (compared as sets)
    s
}

pub fn replay(args: &[String]) -> i32 {
    quiet_panics();
    let lines = read_replay_lines(args.last().unwrap());
    let mut worlds: BTreeMap<(u64, u64), Rc<JapaneseDictionary>> = BTreeMap::new();
    let mut mismatches: Vec<Value> = Vec::new();
    let mut calls = 0usize;
    for (li, v) in lines.iter().enumerate() {
        let key = (v["info"].as_u64().unwrap(), v["stack"].as_u64().unwrap());
        if !worlds.contains_key(&key) {
            match build_world(v, &format!("c13_{}_{}", key.0, key.1)) {
                Ok(d) => { worlds.insert(key, Rc::new(d)); }
                Err(e) => { mismatches.push(json!({"line": li, "what": "world failed to load", "got": e, "abstract": v})); break; }
            }
        }
        let dict = worlds[&key].clone();
        let text: String = v["letters"].as_array().unwrap().iter().map(|k| char::from_u32(0xE000 + k.as_u64().unwrap() as u32).unwrap()).collect();
        let r = catch(std::panic::AssertUnwindSafe(|| -> Result<Option<Value>, String> {
            let mut buf = InputBuffer::new();
            buf.reset().push_str(&text);
            buf.start_build().map_err(|e| format!("{:?}", e))?;
            buf.build(dict.grammar()).map_err(|e| format!("{:?}", e))?;
            let n = buf.current_chars().len();
            let cont: Vec<usize> = (0..n).map(|i| buf.cat_continuous_len(i)).collect();
            if json!(cont) != v["cont"] { return Ok(Some(json!({"what": "class run lengths", "expected": v["cont"], "got": cont}))); }
            let bow: Vec<bool> = (0..n).map(|i| buf.can_bow(buf.to_curr_byte_idx(i))).collect();
            if json!(bow) != v["bow"] { return Ok(Some(json!({"what": "word-start permission", "expected": v["bow"], "got": bow}))); }
            for (variant, init) in [("empty", CreatedWords::empty()), ("one", CreatedWords::single(1i64))] {
                for i in 0..n {
                    let mut created = init;
                    for call in v[variant][i].as_array().unwrap() {
                        calls += 1;
                        let p = call["provider"].as_u64().unwrap() as usize;
                        let mut nodes: Vec<Node> = Vec::new();
                        let cnt = dict.oov_provider_plugins()[p].provide_oov(&buf, i, created, &mut nodes).map_err(|e| format!("{:?}", e))?;
                        let got: Vec<Value> = nodes.iter().map(|nd| node_json(&dict, nd)).collect();
                        let want = call["nodes"].as_array().unwrap();
                        if canon(&got) != canon(want) || cnt != nodes.len() {
                            return Ok(Some(json!({"what": "candidates of a provider", "position": i, "variant": variant, "provider": p, "expected": want, "got": got})));
                        }
                        for nd in &nodes { created = created.add_word((nd.end() - nd.begin()) as i64); }
                    }
                }
            }
            Ok(None)
        }));
        match r {
            Ok(Ok(None)) => {}
            Ok(Ok(Some(mut m))) => { m["line"] = json!(li); m["abstract"] = v.clone(); mismatches.push(m); }
            Ok(Err(e)) => mismatches.push(json!({"line": li, "what": "error", "got": e, "abstract": v})),
            Err(msg) => mismatches.push(json!({"line": li, "what": "panic", "got": msg, "abstract": v})),
        }
        if mismatches.len() >= 20 { break; }
    }
    println!("{}", json!({"behaviours": lines.len(), "calls": calls, "mismatches": mismatches}));
    0
}

// ------------------------------------------------------------------ I->S recorder
fn class_name(bit: u32) -> String {
    const NAMES: [(&str, u32); 17] = [("DEFAULT", 0), ("SPACE", 1), ("KANJI", 2), ("SYMBOL", 3), ("NUMERIC", 4), ("ALPHA", 5), ("HIRAGANA", 6), ("KATAKANA", 7),
        ("KANJINUMERIC", 8), ("GREEK", 9), ("CYRILLIC", 10), ("USER1", 11), ("USER2", 12), ("USER3", 13), ("USER4", 14), ("NOOOVBOW", 30), ("NOOOVBOW2", 31)];
    NAMES.iter().find(|(_, b)| *b == bit).map(|(n, _)| n.to_string()).unwrap_or_else(|| format!("BIT{}", bit))
}

/// independent reading of the class-definition lines ("NAME invoke group length") of a char.def
fn read_class_infos(path: &str) -> serde_json::Map<String, Value> {
    let mut m = serde_json::Map::new();
    for line in read_lines(path) {
        let line = line.trim();
        if line.is_empty() || line.starts_with('#') || line.starts_with("0x") { continue; }
        let c: Vec<&str> = line.split_whitespace().collect();
        if c.len() >= 4 { m.insert(c[0].to_string(), json!({"invoke": c[1] == "1", "group": c[2] == "1", "length": c[3].parse::<u64>().unwrap()})); }
    }
    m
}

struct Setup { name: &'static str, char_def: &'static str, unk_def: &'static str, stack: Vec<&'static str> }

pub fn record(args: &[String]) -> i32 {
    quiet_panics();
    let mut tr = Trace::create(&args[0]);
    let seed = arg_u64(args, "--seed", 1);
    let ntexts = arg_u64(args, "--texts", 150) as usize;
    let mut rng = Rng::new(seed);
    let setups = vec![
        Setup { name: "shipped", char_def: "/repo/resources/char.def", unk_def: "/repo/resources/unk.def", stack: vec!["mecab", "simple"] },
        Setup { name: "fixture+regex", char_def: "/repo/sudachi/tests/resources/char.def", unk_def: "/repo/sudachi/tests/resources/unk2.def", stack: vec!["mecab", "regex-strict", "simple"] },
        Setup { name: "regex-relaxed", char_def: "/repo/resources/char.def", unk_def: "/repo/resources/unk.def", stack: vec!["regex-relaxed", "simple"] },
        Setup { name: "simple-only", char_def: "/repo/resources/char.def", unk_def: "/repo/resources/unk.def", stack: vec!["simple"] },
    ];
    let pieces = ["漢", "字", "あ", "い", "ア", "ァ", "ー", "a", "b", "Z", "1", "２", "一", "十", "α", "я", " ", "。", "👍", "\u{1F3FB}", "\u{0301}", "\u{200D}", "\u{FE0F}", "々", "𠮷", "ｶ", "ﾞ", "-", "東", "京", "都"];
    let mut run = 0usize;
    for su in setups.iter() {
        let res = dicts::scratch_dir(&format!("c13i_{}", su.name));
        std::fs::copy(su.char_def, res.join("char.def")).unwrap();
        // unknown-word definitions with ids folded into the 10x10 test matrix
        let infos = read_class_infos(su.char_def);
        let mut unk: serde_json::Map<String, Value> = serde_json::Map::new();
        let mut unk_text = String::new();
        let mut pos_strings: Vec<String> = Vec::new();
        for (k, line) in read_lines(su.unk_def).iter().enumerate() {
            let line = line.trim();
            if line.is_empty() || line.starts_with('#') { continue; }
            let c: Vec<&str> = line.split(',').collect();
            if !infos.contains_key(c[0]) { continue; }
            let (lid, rid) = ((k % 10) as i64, ((k * 3) % 10) as i64);
            let cost: i64 = c[3].parse().unwrap();
            let pos = c[4..10].join(",");
            let pi = match pos_strings.iter().position(|p| *p == pos) { Some(i) => i, None => { pos_strings.push(pos.clone()); pos_strings.len() - 1 } };
            unk_text.push_str(&format!("{},{},{},{},{}\n", c[0], lid, rid, cost, pos));
            unk.entry(c[0].to_string()).or_insert(json!([])).as_array_mut().unwrap().push(json!({"lid": lid, "rid": rid, "cost": cost, "pos": pi}));
        }
        std::fs::write(res.join("unk.def"), unk_text).unwrap();
        let simple_pos = "補助記号,一般,*,*,*,*".to_string();
        let regex_pos = "名詞,普通名詞,REGEX,*,*,*".to_string();
        let mut pidx = |p: &String, v: &mut Vec<String>| -> usize { match v.iter().position(|x| x == p) { Some(i) => i, None => { v.push(p.clone()); v.len() - 1 } } };
        let sp = pidx(&simple_pos, &mut pos_strings);
        let rp = pidx(&regex_pos, &mut pos_strings);
        let q = |p: &String| format!("[{}]", p.split(',').map(|s| format!("\"{}\"", s)).collect::<Vec<_>>().join(","));
        let mut provs = Vec::new();
        let mut jprov = Vec::new();
        let regex_set: Vec<u32> = "-abcdefghijklmnopqrstuvwxyzABCDEFGHIJKLMNOPQRSTUVWXYZ0123456789".chars().map(|c| c as u32).collect();
        for s in &su.stack {
            match *s {
                "mecab" => { provs.push(r#"{"class":"com.worksap.nlp.sudachi.MeCabOovPlugin","charDef":"char.def","unkDef":"unk.def","userPOS":"allow"}"#.to_string()); jprov.push(json!({"kind": "mecab"})); }
                "simple" => { provs.push(format!(r#"{{"class":"com.worksap.nlp.sudachi.SimpleOovPlugin","oovPOS":{},"leftId":8,"rightId":7,"cost":6000,"userPOS":"allow"}}"#, q(&simple_pos))); jprov.push(json!({"kind": "simple", "lid": 8, "rid": 7, "cost": 6000, "pos": sp})); }
                r => {
                    let strict = r == "regex-strict";
                    provs.push(format!(r#"{{"class":"com.worksap.nlp.sudachi.RegexOovProvider","oovPOS":{},"leftId":5,"rightId":4,"cost":-3000,"userPOS":"allow","regex":"[-a-zA-Z0-9]+","maxLength":{},"boundaries":"{}"}}"#, q(&regex_pos), if strict { 80 } else { 3 }, if strict { "strict" } else { "relaxed" }));
                    jprov.push(json!({"kind": "regex", "set": regex_set, "max": if strict { 80 } else { 3 }, "strict": strict, "lid": 5, "rid": 4, "cost": -3000, "pos": rp}));
                }
            }
        }
        let cfg = format!(r#"{{"characterDefinitionFile":"char.def","oovProviderPlugin":[{}]}}"#, provs.join(","));
        let (sys, users) = dicts::test_dict_bytes(true);
        let dict = match dicts::load(&cfg, &res, sys, users) { Ok(d) => Rc::new(d), Err(e) => { eprintln!("setup {} failed: {:?}", su.name, e); return 2; } };
        // grammar ids of the POS strings (to translate node word ids back to indices of pos_strings)
        let gram: Vec<i64> = pos_strings.iter().map(|p| { let f: Vec<&str> = p.split(',').collect(); dict.grammar().get_part_of_speech_id(&f).map(|x| x as i64).unwrap_or(-1) }).collect();
        tr.emit(json!({"ev": "world", "run": run + 1, "name": su.name, "info": infos, "unk": unk, "providers": jprov, "posmap": gram}));
        let world = tok::World { name: su.name.to_string(), dict: dict.clone(), meta: json!({"n_input_plugins": 0, "n_oov": su.stack.len(), "n_path_rewrite": 0, "has_fallback_oov": true}) };
        let mut t = StatefulTokenizer::new(dict.clone(), Mode::C);
        let mut texts: Vec<String> = crate::texts::FIXTURE_SENTENCES.iter().take(50).map(|s| s.to_string()).collect();
        texts.push("1".repeat(70));
        texts.push(format!("{}漢", "a".repeat(66)));
        texts.push("👍\u{1F3FB}東".into());
        texts.push("👍\u{1F3FB}a".into());
        texts.push("e\u{0301}漢".into());
        for _ in 0..ntexts { let n = 1 + rng.below(7); texts.push((0..n).map(|_| rng.pick_str(&pieces)).collect()); }
        for text in texts.iter() {
            run += 1;
            let list = tok::record_run(&mut tr, run, &world, &mut t, Mode::C, text, json!({}));
            // the built input tables of this run, read through the public accessors of the result's buffer
            if let Some(_l) = list {
                let mut buf = InputBuffer::new();
                buf.reset().push_str(text);
                if buf.start_build().is_ok() && buf.build(dict.grammar()).is_ok() {
                    let n = buf.current_chars().len();
                    let cats: Vec<Vec<String>> = (0..n).map(|i| crate::c17::bits_of(buf.cat_at_char(i)).iter().map(|b| class_name(*b)).collect()).collect();
                    tr.emit(json!({"ev": "built", "run": run, "text": cps(buf.current()), "cats": cats,
                        "cont": (0..n).map(|i| buf.cat_continuous_len(i)).collect::<Vec<_>>(), "bow": (0..n).map(|i| buf.can_bow(buf.to_curr_byte_idx(i))).collect::<Vec<_>>()}));
                }
            }
        }
    }
    let n = tr.finish();
    println!("{}", json!({"events": n, "runs": run}));
    0
}
