//! C20 - loads every TLC-enumerated plugin configuration (boundary values of every connection
//! id / cost / POS parameter, four matrix shapes) with the real loader and records the outcome,
//! the matrix cells that changed, and probe analyses.
use crate::dicts;
use crate::util::*;
use serde_json::{json, Value};
use std::rc::Rc;
use sudachi::analysis::stateful_tokenizer::StatefulTokenizer;
use sudachi::analysis::stateless_tokenizer::DictionaryAccess;
use sudachi::prelude::*;

const KNOWN_POS: &str = r#"["名詞","普通名詞","一般","*","*","*"]"#;
const UNKNOWN_POS: &str = r#"["未知","品詞","*","*","*","*"]"#;

fn cell(l: i64, r: i64) -> i64 { 100 * l + r + 1 }

fn system_bytes(nl: i64, nr: i64) -> Vec<u8> {
    let mut m = format!("{} {}\n", nl, nr);
    for l in 0..nl { for r in 0..nr { m.push_str(&format!("{} {} {}\n", l, r, cell(l, r))); } }
    let lex = "東,0,0,100,東,名詞,普通名詞,一般,*,*,*,ヒガシ,東,*,A,*,*,*,*\n";
    dicts::build_system(lex.as_bytes(), m.as_bytes()).expect("system dictionary")
}

fn simple_fallback() -> String {
    format!(r#"{{"class":"com.worksap.nlp.sudachi.SimpleOovPlugin","oovPOS":{},"leftId":0,"rightId":0,"cost":5000}}"#, KNOWN_POS)
}

pub fn run(args: &[String]) -> i32 {
    quiet_panics();
    let lines = read_replay_lines(&args[0]);
    let mut tr = Trace::create(&args[1]);
    let mut run = 0usize;
    for c in lines.iter() {
        run += 1;
        let kind = c["kind"].as_str().unwrap();
        let (nl, nr) = (c["nl"].as_i64().unwrap(), c["nr"].as_i64().unwrap());
        let res = dicts::resource_dir(&format!("c20"), &[("char.def", "/repo/sudachi/tests/resources/char.def")]);
        let sys = system_bytes(nl, nr);
        let upos = |c: &Value| match c["upos"].as_str().unwrap() { "absent" => String::new(), u => format!(r#","userPOS":"{}""#, u) };
        // "short" / "long" / "empty": lists of another arity; the short one is a prefix of an existing POS
        let pos = |c: &Value| match c["pos"].as_str().unwrap() { "known" => KNOWN_POS, "short" => r#"["名詞"]"#, "long" => r#"["名詞","普通名詞","一般","*","*","*","*"]"#, "empty" => "[]", _ => UNKNOWN_POS };
        let cfg = match kind {
            "simple" => format!(r#"{{"characterDefinitionFile":"char.def","oovProviderPlugin":[{{"class":"com.worksap.nlp.sudachi.SimpleOovPlugin","oovPOS":{},"leftId":{},"rightId":{},"cost":{}{}}}]}}"#,
                pos(c), c["lid"], c["rid"], c["cost"], upos(c)),
            "regex" => format!(r#"{{"characterDefinitionFile":"char.def","oovProviderPlugin":[{{"class":"com.worksap.nlp.sudachi.RegexOovProvider","oovPOS":{},"leftId":{},"rightId":{},"cost":{},"regex":"[a-z0-9]+"{}}},{}]}}"#,
                pos(c), c["lid"], c["rid"], c["cost"], upos(c), simple_fallback()),
            "mecab" => {
                let p = match c["pos"].as_str().unwrap() { "known" => "名詞,普通名詞,一般,*,*,*", "short" => "名詞", "long" => "名詞,普通名詞,一般,*,*,*,*", "empty" => "", _ => "未知,品詞,*,*,*,*" };
                std::fs::write(res.join("unk.def"), format!("DEFAULT,{},{},{},{}\n", c["lid"], c["rid"], c["cost"], p)).unwrap();
                format!(r#"{{"characterDefinitionFile":"char.def","oovProviderPlugin":[{{"class":"com.worksap.nlp.sudachi.MeCabOovPlugin","charDef":"char.def","unkDef":"unk.def"{}}},{}]}}"#, upos(c), simple_fallback())
            }
            "inhibit" => format!(r#"{{"characterDefinitionFile":"char.def","connectionCostPlugin":[{{"class":"com.worksap.nlp.sudachi.InhibitConnectionPlugin","inhibitPair":[[{},{}]]}}],"oovProviderPlugin":[{}]}}"#,
                c["l"], c["r"], simple_fallback()),
            o => panic!("kind {}", o),
        };
        tr.emit(json!({"ev": "case", "run": run, "cfg": c}));
        let loaded = catch(std::panic::AssertUnwindSafe(|| dicts::load(&cfg, &res, sys, vec![])));
        let dict = match loaded {
            Err(m) => { tr.emit(json!({"ev": "load", "run": run, "res": "panic", "msg": m})); continue; }
            Ok(Err(e)) => { tr.emit(json!({"ev": "load", "run": run, "res": "err", "msg": format!("{:?}", e).chars().take(120).collect::<String>()})); continue; }
            Ok(Ok(d)) => { tr.emit(json!({"ev": "load", "run": run, "res": "ok"})); d }
        };
        // matrix cells that differ from the matrix text
        let diff = catch(std::panic::AssertUnwindSafe(|| {
            let cm = dict.grammar().conn_matrix();
            let mut cells = Vec::new();
            let mut values_ok = true;
            for l in 0..nl { for r in 0..nr {
                let v = cm.cost(l as u16, r as u16) as i64;
                if v != cell(l, r) { cells.push(json!([l, r])); values_ok &= v == 32767; }
            } }
            (cells, values_ok)
        }));
        match diff {
            Ok((cells, ok)) => tr.emit(json!({"ev": "edit", "run": run, "cells": cells, "values_ok": ok})),
            Err(m) => { tr.emit(json!({"ev": "edit", "run": run, "panic": m})); continue; }
        }
        let dict = Rc::new(dict);
        let pr = catch(std::panic::AssertUnwindSafe(|| -> String {
            let mut tok = StatefulTokenizer::new(dict.clone(), Mode::C);
            for text in ["東a東", "abc東", "東東", "あ", "a1", "東。a", "x"] {
                tok.reset().push_str(text);
                if let Err(e) = tok.do_tokenize() { return format!("err {:?}", e); }
                let mut ml = MorphemeList::empty(dict.clone());
                if let Err(e) = ml.collect_results(&mut tok) { return format!("err {:?}", e); }
                for m in ml.iter() { let _ = (m.surface().len(), m.part_of_speech().len(), m.total_cost()); }
            }
            "ok".into()
        }));
        tr.emit(json!({"ev": "probe", "run": run, "res": match pr { Ok(s) => s, Err(m) => format!("panic {}", m) }}));
    }
    let n = tr.finish();
    println!("{}", json!({"events": n, "cases": run}));
    0
}
