//! Generated dictionaries ("worlds") with their source of truth: the driver knows the
//! matrix text and the lexicon CSV it rendered, and hands those to the trace as data.
use crate::dicts;
use crate::util::*;
use serde_json::{json, Value};

pub const POS: [&str; 4] = ["名詞,普通名詞,一般,*,*,*", "動詞,一般,*,*,*,*", "助詞,格助詞,*,*,*,*", "名詞,数詞,*,*,*,*"];

#[derive(Clone, Debug)]
pub struct GWord {
    pub key: String,
    pub lid: i16,
    pub rid: i16,
    pub cost: i16,
    pub pos: usize,
    pub split_a: Vec<usize>,
    pub split_b: Vec<usize>,
}

#[derive(Clone, Debug)]
pub struct GenDict {
    pub nl: usize,
    pub nr: usize,
    /// conn[left][right]: cost between a left node with right_id=left and a right node with left_id=right
    pub conn: Vec<Vec<i16>>,
    pub words: Vec<GWord>,
    pub oov: (i16, i16, i16),
}

fn rand_cost(rng: &mut Rng) -> i16 {
    match rng.below(20) {
        0 => 32767,
        1 => if rng.chance(1, 2) { -32767 } else { -32768 },
        2 => 0,
        3 => -1,
        _ => rng.range(-2000, 8000) as i16,
    }
}

fn rand_conn(rng: &mut Rng) -> i16 {
    match rng.below(25) {
        0 | 1 => 32767,
        2 => -32768,
        3 => 0,
        _ => rng.range(-300, 700) as i16,
    }
}

pub const LETTERS: [char; 9] = ['a', 'b', 'あ', 'い', '東', '京', 'ア', '1', '𠮷'];

impl GenDict {
    pub fn random(rng: &mut Rng, letters: &[char], max_words: usize) -> GenDict {
        let square = rng.chance(2, 3);
        let nl = 1 + rng.below(5);
        let nr = if square { nl } else { 1 + rng.below(5) };
        let conn = (0..nl).map(|_| (0..nr).map(|_| rand_conn(rng)).collect()).collect();
        let idmax = nl.min(nr); // ids valid under either reading of the dimensions
        let nwords = 1 + rng.below(max_words);
        let mut words = Vec::new();
        for _ in 0..nwords {
            let len = 1 + rng.below(3) + if rng.chance(1, 6) { 1 } else { 0 };
            let key: String = (0..len).map(|_| *rng.pick(letters)).collect();
            words.push(GWord {
                key,
                lid: rng.below(idmax) as i16,
                rid: rng.below(idmax) as i16,
                cost: rand_cost(rng),
                pos: rng.below(POS.len()),
                split_a: vec![],
                split_b: vec![],
            });
        }
        // homographs that follow each other in the lexicon: same key, often the same left id, costs far apart (more than an i16 apart
        // in some), so that whatever is shared between the candidates of one span is shared between very different candidates
        if rng.chance(2, 3) {
            for _ in 0..1 + rng.below(2) {
                let src = words[rng.below(words.len())].clone();
                for _ in 0..1 + rng.below(2) {
                    let mut h = src.clone();
                    if rng.chance(1, 3) { h.lid = rng.below(idmax) as i16; }
                    if rng.chance(1, 2) { h.rid = rng.below(idmax) as i16; }
                    h.cost = *rng.pick(&[20000i16, -20000, 32767, -32768, -30000, 30000, src.cost]);
                    h.pos = rng.below(POS.len());
                    words.push(h);
                }
            }
        }
        let oov = (rng.below(idmax) as i16, rng.below(idmax) as i16, rng.range(1000, 20000) as i16);
        GenDict { nl, nr, conn, words, oov }
    }

    pub fn matrix_text(&self) -> String {
        let mut s = format!("{} {}\n", self.nl, self.nr);
        for l in 0..self.nl {
            for r in 0..self.nr {
                s.push_str(&format!("{} {} {}\n", l, r, self.conn[l][r]));
            }
        }
        s
    }

    pub fn lex_csv(&self) -> String {
        let mut s = String::new();
        for w in &self.words {
            let sp = |v: &Vec<usize>| if v.is_empty() { "*".to_string() } else { v.iter().map(|x| x.to_string()).collect::<Vec<_>>().join("/") };
            s.push_str(&format!(
                "{k},{l},{r},{c},{k},{pos},ヨミ,{k},*,{mode},{a},{b},*,*\n",
                k = w.key, l = w.lid, r = w.rid, c = w.cost, pos = POS[w.pos],
                mode = if !w.split_a.is_empty() { "C" } else { "A" }, a = sp(&w.split_a), b = sp(&w.split_b)
            ));
        }
        s
    }

    pub fn simple_oov_json(&self) -> String {
        format!(
            r#"{{"class":"com.worksap.nlp.sudachi.SimpleOovPlugin","oovPOS":["補助記号","一般","*","*","*","*"],"userPOS":"allow","leftId":{},"rightId":{},"cost":{}}}"#,
            self.oov.0, self.oov.1, self.oov.2
        )
    }

    /// what the trace specifications treat as the dictionary's declared content
    pub fn meta(&self) -> Value {
        let lex: Vec<Value> = self.words.iter().map(|w| json!([w.lid, w.rid, w.cost])).collect();
        let dicts: Vec<Value> = self.words.iter().map(|w| json!({"key": cps(&w.key), "lid": w.lid})).collect();
        json!({"conn": self.conn, "lex": [lex], "nl": self.nl, "nr": self.nr, "dicts": [dicts],
               "keys": self.words.iter().map(|w| cps(&w.key)).collect::<Vec<_>>()})
    }

    pub fn build(&self) -> Result<Vec<u8>, String> {
        dicts::build_system(self.lex_csv().as_bytes(), self.matrix_text().as_bytes()).map_err(|e| format!("{:?}", e))
    }
}

/// minimal CSV field splitter (no embedded quotes in the fixture lexicons' first columns)
pub fn csv_params(path: &str) -> Vec<Value> {
    let mut out = Vec::new();
    for line in read_lines(path) {
        if line.trim().is_empty() {
            continue;
        }
        let f: Vec<&str> = line.split(',').collect();
        let cost: i64 = f[3].trim().parse().unwrap();
        // -32768 in a user dictionary means "compute at load time"
        out.push(json!([f[1].trim().parse::<i64>().unwrap(), f[2].trim().parse::<i64>().unwrap(), if cost == -32768 { 100000 } else { cost }]));
    }
    out
}

/// keys (first CSV column) and left ids of a lexicon source, in row order
pub fn csv_keys(path: &str) -> Vec<Value> {
    let mut out = Vec::new();
    for line in read_lines(path) {
        if line.trim().is_empty() {
            continue;
        }
        let f: Vec<&str> = line.split(',').collect();
        out.push(json!({"key": cps(f[0]), "lid": f[1].trim().parse::<i64>().unwrap()}));
    }
    out
}

/// parse "N M" + "l r cost" lines of a matrix definition into conn[l][r]
pub fn matrix_rows(path: &str) -> Vec<Vec<i64>> {
    let lines = read_lines(path);
    let mut it = lines.iter().filter(|l| !l.trim().is_empty());
    let hdr: Vec<usize> = it.next().unwrap().split_whitespace().map(|x| x.parse().unwrap()).collect();
    let mut rows = vec![vec![0i64; hdr[1]]; hdr[0]];
    for l in it {
        let f: Vec<i64> = l.split_whitespace().map(|x| x.parse().unwrap()).collect();
        rows[f[0] as usize][f[1] as usize] = f[2];
    }
    rows
}
