//! Structured pools of input texts (real Unicode) for the recording drivers.
use crate::util::Rng;

pub const FIXTURE_SENTENCES: &[&str] = &[
    "京都。東京.東京都。京都", "東京都", "京都", "東京都に行った", "東京府", "すだち", "かぼす", "ぴらる", "ぴさる",
    "特a", "な。な", "アイアイウ", "アイウ", "に", "にに", "行っ", "いく", "いった", "行った",
    "二千三百四十五", "123456789", "1,234,567.89", "六三四", "１２３", "二〇〇〇万", "3.14", "一億三千万",
    "ｱｲｳ", "ＡＢＣ", "ｶﾞ", "㍿", "ﾊﾟﾊﾟ", "スーーパーー", "ゴール", "うぉーーー〜〜", "徳島（とくしま）に行く", "阿波(あわ)", "京都（きょうと）東京",
    "Ⅲ", "第Ⅲ章", "İstanbul", "ǅ", "ß", "ﬃ", "…", "京都…東京都", "👍🏻東", "👨‍👩‍👧", "🇯🇵", "e\u{0301}", "か\u{3099}",
    "#\0M㍿", "\0", " ", "　", "\t\n", "a b", "𠮷野家", "𠮷", "\u{FDFA}", "\u{FDFA}a\u{FDFA}", "ﾞ", "゛東",
    "とうきょうとに行った", "きょうとふ", "とうきょうと", "アイウアイエ", "アイウアイ", "エアイウアイァ", "アイウアイに行った", "", "あ", "ぁ", "ー", "ーー", "、。", "abcdeABCDE", "αβγ", "привет", "1.", "1,", ".5", "1,23", "12,345,6",
    "キロバイトだ", "10キロメートル", "メガバイト", "㌔バイト", "メガキロ", "キロ", "ギガメガに行く", "アイガに行く",
];

const POOLS: &[&[&str]] = &[
    // dictionary words of the fixture lexicon
    &["東京", "京都", "東京都", "東", "京", "都", "に", "行っ", "た", "行った", "いく", "いっ", "府", "とうきょうと", "きょうとふ", "東京府", "すだち", "かぼす", "ぴらる", "ぴさる", "特", "な", "。", "アイ", "アイウ", "ア", "イ", "ウ", "アイウアイ", "エ"],
    // ascii / full-width / half-width
    &["a", "b", "Z", "A", "z9", "-", "_", " ", "Ａ", "ｚ", "１", "９", "ｱ", "ｲ", "ｶﾞ", "ﾊﾟ", "ｰ", "！", "（", "）", "(", ")"],
    // NFKC expanders and exempt characters
    &["㍿", "㌔", "㎏", "\u{FDFA}", "ﬃ", "ﬁ", "…", "‥", "Ⅲ", "ⅲ", "Ⅻ", "½", "²", "㈱", "㊙", "ｦ", "ｯ", "ㇰ", "ℌ", "ǅ", "İ", "ß", "ſ", "ẞ", "ᾈ"],
    // combining, modifiers, emoji, ZWJ, astral
    &["\u{0301}", "\u{3099}", "\u{309A}", "ﾞ", "ﾟ", "🏻", "👍", "👨\u{200D}👩", "\u{200D}", "🇯", "🇵", "𠮷", "𩸽", "\u{FE0F}", "\u{E0100}", "❤\u{FE0F}"],
    // prolonged marks and yomigana brackets with kana
    &["ー", "ーー", "〜", "〰", "⁓", "-", "～", "スー", "パーー", "（とう）", "(きょう)", "（トウキョウ）", "（あいうえお）", "（", "）", "漢（かん）", "字(じ)"],
    // numerals
    &["1", "2", "0", "00", "12", "345", "6789", "一", "二", "三", "〇", "十", "百", "千", "万", "億", "兆", ",", ".", "，", "．", "1,000", "3.5", "二千", "五百万", "１", "２"],
    // katakana runs, kana
    &["カ", "タ", "カナ", "ァ", "ッ", "ー", "ヴ", "ヷ", "キロ", "メガ", "バイト", "あ", "い", "ん", "っ", "を", "は", "です", "ます"],
    // controls, unassigned, odd
    &["\0", "\u{1}", "\u{7F}", "\u{85}", "\u{A0}", "\u{AD}", "\u{FFFD}", "\u{FFFE}", "\u{10FFFF}", "\u{378}", "\u{E000}", "\n", "\r\n", "\t"],
    // greek / cyrillic / latin ext
    &["α", "β", "Ω", "σς", "п", "Р", "ё", "é", "É", "ñ", "ø"],
];

pub fn random_text(rng: &mut Rng, max_pieces: usize) -> String {
    let n = rng.below(max_pieces + 1);
    let mut s = String::new();
    // pick 1-3 pools to mix so interactions between the structures are frequent
    let k = 1 + rng.below(3);
    let pools: Vec<usize> = (0..k).map(|_| rng.below(POOLS.len())).collect();
    for _ in 0..n {
        let p = POOLS[*rng.pick(&pools)];
        let piece: &&str = rng.pick(p);
        s.push_str(piece);
    }
    s
}

pub fn pool(i: usize) -> &'static [&'static str] {
    POOLS[i % POOLS.len()]
}
pub fn n_pools() -> usize {
    POOLS.len()
}
