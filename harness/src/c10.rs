//! C10 - results do not depend on history.  Runs TLC-enumerated operation histories (and seeded
//! random long ones) on ONE real tokenizer + ONE reused result list; every analysis is also done by
//! a freshly created tokenizer with the same mode and field request, and both results are logged.
use crate::texts;
use crate::tok;
use crate::util::*;
use serde_json::{json, Value};
use std::rc::Rc;
use sudachi::analysis::stateful_tokenizer::StatefulTokenizer;
use sudachi::dic::dictionary::JapaneseDictionary;
use sudachi::dic::subset::InfoSubset;
use sudachi::prelude::*;

const SUBSETS: [u32; 5] = [0, 1 | 4 | 8, 16 | 32, 64 | 512, 1023];

fn mode_of(s: &str) -> Mode { match s { "A" => Mode::A, "B" => Mode::B, _ => Mode::C } }

fn list_json(ml: &MorphemeList<Rc<JapaneseDictionary>>) -> Vec<Value> {
    ml.iter().map(|m| {
        let wi = m.get_word_info();
        let w = |v: &[sudachi::dic::word_id::WordId]| v.iter().map(|x| json!([x.dic(), x.word()])).collect::<Vec<_>>();
        json!({"begin": m.begin(), "end": m.end(), "dic": m.word_id().dic(), "word": m.word_id().word(),
               "SURFACE": cps(wi.surface()), "HWL": wi.head_word_length(), "POS": wi.pos_id(), "NORM": cps(wi.normalized_form()), "DICFORM": cps(wi.dictionary_form()),
               "READING": cps(wi.reading_form()), "SPLIT_A": w(wi.a_unit_split()), "SPLIT_B": w(wi.b_unit_split()), "WSTRUCT": w(wi.word_structure()), "SYN": wi.synonym_group_ids()})
    }).collect()
}

/// a freshly created tokenizer with the same mode and the same field request
fn fresh(dict: &Rc<JapaneseDictionary>, mode: Mode, req: Option<u32>, text: &str) -> Value {
    // with the default field request the twin is, every other time, the stateless API (Tokenize::tokenize), which
    // builds its own tokenizer per call: the two public entry points must agree
    if req.is_none() && text.len() % 2 == 0 {
        use sudachi::analysis::stateless_tokenizer::StatelessTokenizer;
        use sudachi::analysis::Tokenize;
        let r = catch(std::panic::AssertUnwindSafe(|| -> Result<Vec<Value>, String> {
            let st = StatelessTokenizer::new(dict.clone());
            let ml = st.tokenize(text, mode, false).map_err(|e| format!("{:?}", e))?;
            Ok(list_json(&ml))
        }));
        return match r { Ok(Ok(v)) => json!({"res": "ok", "ms": v, "api": "stateless"}), Ok(Err(_)) => json!({"res": "err", "api": "stateless"}), Err(m) => json!({"res": "panic", "msg": m, "api": "stateless"}) };
    }
    let r = catch(std::panic::AssertUnwindSafe(|| -> Result<Vec<Value>, String> {
        let mut t = StatefulTokenizer::new(dict.clone(), mode);
        if let Some(bits) = req { t.set_subset(InfoSubset::from_bits_truncate(bits)); }
        t.reset().push_str(text);
        t.do_tokenize().map_err(|e| format!("{:?}", e))?;
        let mut ml = MorphemeList::empty(dict.clone());
        ml.collect_results(&mut t).map_err(|e| format!("{:?}", e))?;
        Ok(list_json(&ml))
    }));
    match r { Ok(Ok(v)) => json!({"res": "ok", "ms": v}), Ok(Err(_)) => json!({"res": "err"}), Err(m) => json!({"res": "panic", "msg": m}) }
}

struct Sess { tok: StatefulTokenizer<Rc<JapaneseDictionary>>, list: MorphemeList<Rc<JapaneseDictionary>>, mode: Mode, req: Option<u32>, dict: Rc<JapaneseDictionary>, rewrites: bool }

fn apply(tr: &mut Trace, run: usize, s: &mut Sess, op: &Value, texts_by_len: &dyn Fn(u64) -> String) {
    match op["op"].as_str().unwrap() {
        "mode" => { let m = mode_of(op["m"].as_str().unwrap()); s.tok.set_mode(m); s.mode = m; tr.emit(json!({"ev": "set_mode", "run": run, "m": op["m"]})); }
        "subset" => {
            let bits = if op.get("bits").is_some() { op["bits"].as_u64().unwrap() as u32 } else { SUBSETS[op["k"].as_u64().unwrap() as usize - 1] };
            s.tok.set_subset(InfoSubset::from_bits_truncate(bits)); s.req = Some(bits);
            tr.emit(json!({"ev": "set_subset", "run": run, "bits": bits}));
        }
        "analyse" | "toolong" => {
            // refused inputs come in two kinds: too long as given (refused before any work), and short enough as given but
            // growing beyond the limit under normalisation (refused when the edits are committed; U+FDFA grows from 3 to 33 bytes)
            let text = if op["op"] == "toolong" { if tr.n % 5 != 1 || !s.rewrites { "あ".repeat(16400) } else { "\u{FDFA}".repeat(2100) } } else if op.get("text").is_some() { from_cps(&op["text"]) } else { texts_by_len(op["n"].as_u64().unwrap()) };
            let r = catch(std::panic::AssertUnwindSafe(|| { s.tok.reset().push_str(&text); s.tok.do_tokenize() }));
            let res = match r { Ok(Ok(())) => "ok", Ok(Err(_)) => "err", Err(_) => "panic" };
            let f = fresh(&s.dict, s.mode, s.req, &text);
            tr.emit(json!({"ev": "analyse", "run": run, "nchars": text.chars().count(), "nbytes": text.len(), "toolong": text.len() > 49149, "res": res, "fresh": f,
                           "text": if text.len() < 400 { json!(cps(&text)) } else { json!([]) }}));
            if res == "panic" { s.tok = StatefulTokenizer::new(s.dict.clone(), s.mode); if let Some(b) = s.req { s.tok.set_subset(InfoSubset::from_bits_truncate(b)); } }
        }
        "collect" => {
            let r = catch(std::panic::AssertUnwindSafe(|| s.list.collect_results(&mut s.tok).map(|_| list_json(&s.list))));
            match r {
                Ok(Ok(ms)) => tr.emit(json!({"ev": "collect", "run": run, "res": "ok", "ms": ms})),
                Ok(Err(e)) => tr.emit(json!({"ev": "collect", "run": run, "res": "err", "msg": format!("{:?}", e)})),
                Err(m) => { tr.emit(json!({"ev": "collect", "run": run, "res": "panic", "msg": m})); s.list = MorphemeList::empty(s.dict.clone()); }
            }
        }
        o => panic!("op {}", o),
    }
}

pub fn run(args: &[String]) -> i32 {
    quiet_panics();
    let lines = read_replay_lines(&args[0]);
    let mut tr = Trace::create(&args[1]);
    let seed = arg_u64(args, "--seed", 1);
    let nrandom = arg_u64(args, "--random", 40) as usize;
    let worlds = tok::fixture_worlds();
    let by_len = |n: u64| -> String { match n { 0 => String::new(), 1 => "京都".into(), 2 => "東京都に行った".into(), _ => "特aな。な東京府にすだちとうきょうと1,234アイウ".into() } };
    let mut run = 0usize;
    for (li, h) in lines.iter().enumerate() {
        run += 1;
        let w = &worlds[if li % 2 == 0 { 3 } else { 0 }]; // "full" / "plain"
        tr.emit(json!({"ev": "create", "run": run, "world": w.name, "plain": w.meta["n_path_rewrite"] == 0}));
        let mut s = Sess { tok: StatefulTokenizer::new(w.dict.clone(), Mode::C), list: MorphemeList::empty(w.dict.clone()), mode: Mode::C, req: None, dict: w.dict.clone(), rewrites: w.meta["n_input_plugins"].as_u64().unwrap_or(0) > 0 };
        for op in h.as_array().unwrap() { apply(&mut tr, run, &mut s, op, &by_len); }
        if s_last_ok(h) { apply(&mut tr, run, &mut s, &json!({"op": "collect"}), &by_len); }
    }
    // seeded random long histories over real-Unicode texts
    let mut rng = Rng::new(seed);
    for k in 0..nrandom {
        run += 1;
        let w = &worlds[[0usize, 3, 2, 6][k % 4]];
        tr.emit(json!({"ev": "create", "run": run, "world": w.name, "plain": w.meta["n_path_rewrite"] == 0}));
        let mut s = Sess { tok: StatefulTokenizer::new(w.dict.clone(), Mode::C), list: MorphemeList::empty(w.dict.clone()), mode: Mode::C, req: None, dict: w.dict.clone(), rewrites: w.meta["n_input_plugins"].as_u64().unwrap_or(0) > 0 };
        let mut analysed_ok = false;
        for _ in 0..(5 + rng.below(36)) {
            let op = match rng.below(10) {
                0 => json!({"op": "mode", "m": *rng.pick(&["A", "B", "C"])}),
                1 => json!({"op": "subset", "bits": (rng.below(1024) as u32) | 1 | 4 | 8}),
                2 => json!({"op": "toolong"}),
                3 | 4 => { if analysed_ok { json!({"op": "collect"}) } else { json!({"op": "mode", "m": "C"}) } }
                _ => { let t = if rng.chance(1, 8) { String::new() } else if rng.chance(1, 3) { rng.pick_str(texts::FIXTURE_SENTENCES).to_string() } else { texts::random_text(&mut rng, 10) }; json!({"op": "analyse", "text": cps(&t)}) }
            };
            let kind = op["op"].as_str().unwrap().to_string();
            let before = tr.n;
            apply(&mut tr, run, &mut s, &op, &by_len);
            let _ = before;
            if kind == "analyse" { analysed_ok = true; } else if kind == "toolong" { analysed_ok = false; }
        }
        if analysed_ok { apply(&mut tr, run, &mut s, &json!({"op": "collect"}), &by_len); }
    }
    let n = tr.finish();
    println!("{}", json!({"events": n, "runs": run}));
    0
}

fn s_last_ok(h: &Value) -> bool { h.as_array().unwrap().last().map(|o| o["op"] == "analyse").unwrap_or(false) }
