//! C07 - text normalisation.  S->I replay of TLC-enumerated (table, text) pairs through the real
//! DefaultInputTextPlugin; I->S recording of every Unicode scalar (alone and next to a character
//! that forces the general path), random strings x random tables, prolonged marks and yomigana.
use crate::dicts;
use crate::util::*;
use serde_json::{json, Value};
use std::collections::BTreeMap;
use sudachi::analysis::stateless_tokenizer::DictionaryAccess;
use sudachi::dic::category_type::CategoryType;
use sudachi::dic::dictionary::JapaneseDictionary;
use sudachi::input_text::InputBuffer;
use unicode_normalization::{is_nfkc_quick, IsNormalized, UnicodeNormalization};

const OOV: &str = r#"{"class":"com.worksap.nlp.sudachi.SimpleOovPlugin","oovPOS":["名詞","普通名詞","一般","*","*","*"],"leftId":8,"rightId":8,"cost":6000}"#;

fn load_with(res_name: &str, rewrite_def: &str, input_plugins: &str) -> Result<JapaneseDictionary, String> {
    let res = dicts::resource_dir(res_name, &[("char.def", "/repo/resources/char.def")]);
    std::fs::write(res.join("rewrite.def"), rewrite_def).unwrap();
    let (sys, _) = dicts::test_dict_bytes(false);
    let cfg = format!(r#"{{"characterDefinitionFile":"char.def","inputTextPlugin":[{}],"oovProviderPlugin":[{}]}}"#, input_plugins, OOV);
    dicts::load(&cfg, &res, sys, vec![]).map_err(|e| format!("{:?}", e))
}

const DEFAULT_PLUGIN: &str = r#"{"class":"com.worksap.nlp.sudachi.DefaultInputTextPlugin"}"#;

fn run_plugin(dict: &JapaneseDictionary, idx: usize, text: &str) -> Result<String, String> {
    let r = catch(std::panic::AssertUnwindSafe(|| -> Result<String, String> {
        let mut buf = InputBuffer::new();
        buf.reset().push_str(text);
        buf.start_build().map_err(|e| format!("{:?}", e))?;
        dict.input_text_plugins()[idx].rewrite(&mut buf).map_err(|e| format!("{:?}", e))?;
        Ok(buf.current().to_string())
    }));
    match r { Ok(x) => x, Err(m) => Err(format!("panic: {}", m)) }
}

fn lower_of(c: char) -> Vec<u32> { c.to_lowercase().map(|x| x as u32).collect() }
fn nfkc_lower_of(c: char) -> Vec<u32> { c.to_lowercase().nfkc().map(|x| x as u32).collect() }
fn quick_yes(c: char) -> bool { matches!(is_nfkc_quick(std::iter::once(c)), IsNormalized::Yes) }

fn check_model_tables() {
    // the hand-made tables of MC_Normalize must agree with the trusted libraries
    let s = |v: Vec<u32>| v.iter().map(|x| char::from_u32(*x).unwrap()).collect::<String>();
    assert_eq!(s(lower_of('Q')), "q");
    assert_eq!(s(lower_of('Ⅲ')), "ⅲ");
    assert_eq!(s(lower_of('ǅ')), "ǆ");
    assert_eq!(s(lower_of('p')), "p");
    assert_eq!("ｋ".nfkc().collect::<String>(), "k");
    assert_eq!("㍿".nfkc().collect::<String>(), "株式会社");
    assert_eq!("Ⅲ".nfkc().collect::<String>(), "III");
    assert_eq!("ⅲ".nfkc().collect::<String>(), "iii");
    assert_eq!("ǆ".nfkc().collect::<String>(), "dž");
    assert_eq!("ǅ".nfkc().collect::<String>(), "Dž");
    // numeric code points used by MC_Normalize.tla
    assert_eq!(lower_of(char::from_u32(81).unwrap()), vec![113]);
    assert_eq!(lower_of(char::from_u32(8546).unwrap()), vec![8562]);
    assert_eq!(lower_of(char::from_u32(453).unwrap()), vec![454]);
    assert_eq!(nfkc_lower_of(char::from_u32(65355).unwrap()), vec![107]);
    assert_eq!(nfkc_lower_of(char::from_u32(13183).unwrap()), vec![26666, 24335, 20250, 31038]);
    assert_eq!(char::from_u32(8546).unwrap().to_string().nfkc().map(|c| c as u32).collect::<Vec<_>>(), vec![73, 73, 73]);
    assert_eq!(char::from_u32(8562).unwrap().to_string().nfkc().map(|c| c as u32).collect::<Vec<_>>(), vec![105, 105, 105]);
    assert_eq!(nfkc_lower_of(char::from_u32(453).unwrap()), vec![100, 382]);
    for (c, q) in [('p', true), ('Q', true), ('ｋ', false), ('㍿', false), ('Ⅲ', false), ('ǅ', false), ('a', true)] {
        assert_eq!(quick_yes(c), q, "quick check of {:?}", c);
    }
}

pub fn replay(args: &[String]) -> i32 {
    quiet_panics();
    check_model_tables();
    let lines = read_replay_lines(args.last().unwrap());
    let values: BTreeMap<&str, &str> = [("a", "1"), ("ab", "ab"), ("abc", "4"), ("b", "5"), ("bc", "67"), ("ca", "8"), ("Q", "Q"), ("㍿a", "0Q"), ("p㍿", "ｋ")].into_iter().collect();
    // group by table
    let mut groups: BTreeMap<String, Vec<&Value>> = BTreeMap::new();
    for v in lines.iter() {
        let mut ks: Vec<String> = v["keys"].as_array().unwrap().iter().map(from_cps).collect();
        ks.sort();
        groups.entry(ks.join("\u{1}")).or_default().push(v);
    }
    let mut mismatches: Vec<Value> = Vec::new();
    let mut cases = 0usize;
    for (gk, items) in groups.iter() {
        let ks: Vec<&str> = if gk.is_empty() { vec![] } else { gk.split('\u{1}').collect() };
        let mut def = String::from("# generated\nⅢ\n");
        for k in &ks { def.push_str(&format!("{} {}\n", k, values[k])); }
        let dict = match load_with("c07r", &def, DEFAULT_PLUGIN) {
            Ok(d) => d,
            Err(e) => { mismatches.push(json!({"what": "load failed", "got": e, "table": def})); continue; }
        };
        for v in items {
            cases += 1;
            let text = from_cps(&v["text"]);
            let want = from_cps(&v["out"]);
            match run_plugin(&dict, 0, &text) {
                Ok(got) if got == want => {}
                Ok(got) => mismatches.push(json!({"what": "normalised text", "table": def, "text": text, "expected": want, "got": got, "abstract": v})),
                Err(e) => mismatches.push(json!({"what": "plugin failed", "table": def, "text": text, "got": e, "abstract": v})),
            }
            if mismatches.len() >= 20 { break; }
        }
        if mismatches.len() >= 20 { break; }
    }
    println!("{}", json!({"behaviours": lines.len(), "tables": groups.len(), "cases": cases, "mismatches": mismatches}));
    0
}

fn parse_rewrite_def(text: &str) -> (Vec<u32>, Vec<(String, String)>) {
    let mut exempt = Vec::new();
    let mut table = Vec::new();
    for line in text.lines() {
        let line = line.trim();
        if line.is_empty() || line.starts_with('#') { continue; }
        let cols: Vec<&str> = line.split_whitespace().collect();
        if cols.len() == 1 { exempt.push(cols[0].chars().next().unwrap() as u32); } else if cols.len() == 2 { table.push((cols[0].to_string(), cols[1].to_string())); }
    }
    (exempt, table)
}

fn tab_for(text: &str) -> Vec<Value> {
    let mut seen = std::collections::BTreeSet::new();
    let mut v = Vec::new();
    for c in text.chars() {
        if seen.insert(c) { v.push(json!([c as u32, lower_of(c), nfkc_lower_of(c), quick_yes(c)])); }
    }
    v
}

fn emit_table(tr: &mut Trace, run: usize, def: &str) {
    let (exempt, table) = parse_rewrite_def(def);
    tr.emit(json!({"ev": "table", "run": run, "exempt": exempt, "table": table.iter().map(|(k, v)| json!([cps(k), cps(v)])).collect::<Vec<_>>()}));
}

fn emit_norm(tr: &mut Trace, run: usize, dict: &JapaneseDictionary, text: &str) {
    // the trusted-library values for the characters of the text, then the observation itself
    tr.emit(json!({"ev": "uni", "run": run, "tab": tab_for(text)}));
    match run_plugin(dict, 0, text) {
        Ok(out) => tr.emit(json!({"ev": "norm", "run": run, "text": cps(text), "out": cps(&out)})),
        Err(e) => tr.emit(json!({"ev": "norm", "run": run, "text": cps(text), "err": e})),
    }
}

pub fn record(args: &[String]) -> i32 {
    quiet_panics();
    let mut tr = Trace::create(&args[0]);
    let seed = arg_u64(args, "--seed", 1);
    let all_scalars = args.iter().any(|a| a == "--all-scalars");
    let nrand = arg_u64(args, "--random", 400) as usize;
    let mut rng = Rng::new(seed);
    let mut run = 1usize;
    // (i) shipped tables, every (interesting) scalar alone and before a character that forces the general path
    for (name, path) in [("resources", "/repo/resources/rewrite.def"), ("tests", "/repo/sudachi/tests/resources/rewrite.def")] {
        let def = std::fs::read_to_string(path).unwrap();
        let dict = load_with("c07s", &def, DEFAULT_PLUGIN).expect("shipped rewrite.def");
        emit_table(&mut tr, run, &def);
        let (_, table) = parse_rewrite_def(&def);
        for (k, _) in &table {
            emit_norm(&mut tr, run, &dict, k);
            emit_norm(&mut tr, run, &dict, &format!("x{}Ａ", k));
        }
        if name == "resources" {
            for cp in 0..=0x10FFFFu32 {
                // the exhaustive sweep is cut into runs of 0x8000 code points (each with the table), so that the runs can be validated in parallel
                if all_scalars && cp > 0 && cp % 0x8000 == 0 {
                    run += 1;
                    emit_table(&mut tr, run, &def);
                }
                let c = match char::from_u32(cp) { Some(c) => c, None => continue };
                let interesting = lower_of(c) != vec![cp] || !quick_yes(c) || c.is_uppercase();
                if !(all_scalars || interesting || cp < 0x250 || cp % 4099 == 0) { continue; }
                emit_norm(&mut tr, run, &dict, &c.to_string());
                emit_norm(&mut tr, run, &dict, &format!("{}Ａ", c));
            }
        }
        for s in crate::texts::FIXTURE_SENTENCES { emit_norm(&mut tr, run, &dict, s); }
        run += 1;
    }
    // (ii) random tables with prefix-related keys x random strings
    let letters = ["a", "b", "c", "A", "Ｂ", "ｋ", "㍿", "Ⅲ", "ǅ", "é", "ｶ", "ﾞ", "あ", "ー", "1", "𠮷", "ß", "İ", "Σ", "ς"];
    for _ in 0..(nrand / 20).max(3) {
        let mut def = String::from("Ⅲ\nｶ\n");
        let mut keys: Vec<String> = Vec::new();
        for _ in 0..(1 + rng.below(6)) {
            let mut k = if !keys.is_empty() && rng.chance(1, 2) { rng.pick(&keys).clone() } else { String::new() };
            for _ in 0..(1 + rng.below(2)) { k.push_str(rng.pick_str(&letters)); }
            if !keys.contains(&k) { keys.push(k.clone()); let v = if rng.chance(1, 5) { k.clone() } else { rng.pick_str(&["X", "yz", "Ｗ", "あ"]).to_string() }; def.push_str(&format!("{} {}\n", k, v)); }
        }
        let dict = match load_with("c07g", &def, DEFAULT_PLUGIN) { Ok(d) => d, Err(_) => continue };
        emit_table(&mut tr, run, &def);
        for _ in 0..20 {
            let mut t = String::new();
            for _ in 0..rng.below(7) { if rng.chance(1, 3) && !keys.is_empty() { t.push_str(rng.pick_str(&keys)); } else { t.push_str(rng.pick_str(&letters)); } }
            emit_norm(&mut tr, run, &dict, &t);
        }
        run += 1;
    }
    // (iii) prolonged sound marks and yomigana: plugin settings variants
    let marks_sets: [(&[&str], &str); 3] = [(&["ー", "-", "⁓", "〜", "〰"], "ー"), (&["ー", "~"], "〜〜"), (&["-", "^", "]", "\\"], "=")];
    for (marks, repl) in marks_sets {
        let ml: Vec<String> = marks.iter().map(|m| format!("\"{}\"", m.replace('\\', "\\\\"))).collect();
        let plugin = format!(r#"{{"class":"com.worksap.nlp.sudachi.ProlongedSoundMarkPlugin","prolongedSoundMarks":[{}],"replacementSymbol":"{}"}}"#, ml.join(","), repl);
        let dict = match load_with("c07p", "", &plugin) { Ok(d) => d, Err(e) => { tr.emit(json!({"ev": "plugin_load", "what": "prolonged", "err": e})); continue; } };
        let pieces: Vec<&str> = marks.iter().cloned().chain(["ア", "a", "ーー", "あ"]).collect();
        for _ in 0..(nrand / 6).max(20) {
            let mut t = String::new();
            for _ in 0..rng.below(8) { t.push_str(rng.pick_str(&pieces)); }
            match run_plugin(&dict, 0, &t) {
                Ok(out) => tr.emit(json!({"ev": "prolonged", "run": run, "marks": marks.iter().map(|m| m.chars().next().unwrap() as u32).collect::<Vec<_>>(), "repl": cps(repl), "text": cps(&t), "out": cps(&out)})),
                Err(e) => tr.emit(json!({"ev": "prolonged", "run": run, "text": cps(&t), "err": e})),
            }
        }
        run += 1;
    }
    for (lb, rb, n) in [(vec!['(', '（'], vec![')', '）'], 4usize), (vec!['['], vec![']'], 1), (vec!['（'], vec!['）', '('], 2)] {
        let q = |v: &Vec<char>| v.iter().map(|c| format!("\"{}\"", c)).collect::<Vec<_>>().join(",");
        let plugin = format!(r#"{{"class":"com.worksap.nlp.sudachi.IgnoreYomiganaPlugin","leftBrackets":[{}],"rightBrackets":[{}],"maxYomiganaLength":{}}}"#, q(&lb), q(&rb), n);
        let dict = match load_with("c07y", "", &plugin) { Ok(d) => d, Err(e) => { tr.emit(json!({"ev": "plugin_load", "what": "yomigana", "err": e})); continue; } };
        let cc = &dict.grammar().character_category;
        let pieces = ["漢", "字", "𠮷", "か", "カ", "ん", "ー", "(", "（", ")", "）", "[", "]", "a", "1", "々"];
        // the characters at and next to every edge of a kanji / kana range of the character definition, once in the kanji position and
        // once inside the brackets: which characters count is the definition's business (C17), not the plugin's
        let mut edge_texts: Vec<String> = Vec::new();
        for (range, cat) in cc.iter() {
            if !cat.intersects(CategoryType::KANJI | CategoryType::HIRAGANA | CategoryType::KATAKANA) { continue; }
            let (s0, e0) = (range.start as u32, range.end as u32);
            for cp in [s0.wrapping_sub(1), s0, e0.wrapping_sub(1), e0] {
                if let Some(c) = char::from_u32(cp) {
                    if lb.contains(&c) || rb.contains(&c) { continue; }
                    edge_texts.push(format!("{}{}か{}", c, lb[0], rb[0]));
                    edge_texts.push(format!("漢{}{}{}a", lb[0], c, rb[0]));
                }
            }
        }
        edge_texts.sort(); edge_texts.dedup();
        let nedge = edge_texts.len();
        for k in 0..(nrand / 4).max(30) + nedge {
            let mut t = String::new();
            if k < nedge { t = edge_texts[k].clone(); } else { for _ in 0..rng.below(10) { t.push_str(rng.pick_str(&pieces)); } }
            let kinds: Vec<Vec<&str>> = t.chars().map(|c| {
                let cat = cc.get_category_types(c);
                let mut k = Vec::new();
                if lb.contains(&c) { k.push("L"); }
                if rb.contains(&c) { k.push("B"); }
                if cat.intersects(CategoryType::KANJI) { k.push("K"); }
                if cat.intersects(CategoryType::HIRAGANA | CategoryType::KATAKANA) { k.push("R"); }
                k
            }).collect();
            match run_plugin(&dict, 0, &t) {
                Ok(out) => tr.emit(json!({"ev": "yomigana", "run": run, "n": n, "kinds": kinds, "text": cps(&t), "out": cps(&out)})),
                Err(e) => tr.emit(json!({"ev": "yomigana", "run": run, "text": cps(&t), "err": e})),
            }
        }
        run += 1;
    }
    let n = tr.finish();
    println!("{}", json!({"events": n, "runs": run - 1}));
    0
}
