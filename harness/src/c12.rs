//! C12 - layered user dictionaries.  S->I replay of TLC-enumerated layer configurations (plugin
//! POS registrations, overlapping user POS, own/system references) through the real builder and
//! loader; I->S recording of larger stacks (up to 14 user dictionaries, and the refused 15th).
use crate::dicts;
use crate::util::*;
use serde_json::{json, Value};
use std::rc::Rc;
use sudachi::analysis::stateful_tokenizer::StatefulTokenizer;
use sudachi::analysis::stateless_tokenizer::DictionaryAccess;
use sudachi::dic::dictionary::JapaneseDictionary;
use sudachi::dic::word_id::WordId;
use sudachi::dic::subset::InfoSubset;
use sudachi::prelude::*;

fn pos_str(name: &str) -> String {
    match name {
        "N" => "名詞,普通名詞,一般,*,*,*".into(),
        "V" => "動詞,一般,*,*,*,*".into(),
        "X" => "未知,X,*,*,*,*".into(),
        other => format!("ユーザ,{},*,*,*,*", other),
    }
}
fn pos_json(name: &str) -> String {
    let v: Vec<String> = pos_str(name).split(',').map(|s| format!("\"{}\"", s)).collect();
    format!("[{}]", v.join(","))
}
fn pos_name(s: &str) -> String {
    for n in ["N", "V", "X"] { if pos_str(n) == s { return n.into(); } }
    let f: Vec<&str> = s.split(',').collect();
    if f[0] == "ユーザ" { f[1].to_string() } else { format!("?{}", s) }
}

const KANA: [&str; 20] = ["か", "き", "く", "け", "こ", "さ", "し", "す", "せ", "そ", "た", "ち", "つ", "て", "と", "な", "に", "ぬ", "ね", "の"];
pub fn key_of(d: usize, w: usize) -> String { format!("{}{}ん", KANA[d % KANA.len()], KANA[w % KANA.len()]) }

const SYS_LEX: &str = "東,0,0,-20000,東,名詞,普通名詞,一般,*,*,*,ヒガシ,東,*,A,*,*,*,*\n行,0,0,-20000,行,動詞,一般,*,*,*,*,イク,行,*,A,*,*,*,*\n";

/// words: [{pos, refs:[{own,w}]}]
fn user_csv(d: usize, words: &[Value]) -> String {
    let mut s = String::new();
    for (w, word) in words.iter().enumerate() {
        let refs: Vec<String> = word["refs"].as_array().unwrap().iter().map(|r| if r["own"].as_bool().unwrap() { format!("U{}", r["w"]) } else { r["w"].to_string() }).collect();
        let k = key_of(d, w);
        s.push_str(&format!("{k},0,0,-20000,{k},{pos},ヨミ,{k},*,{mode},{a},*,*,*\n", k = k, pos = pos_str(word["pos"].as_str().unwrap()),
            mode = if refs.is_empty() { "A" } else { "C" }, a = if refs.is_empty() { "*".to_string() } else { refs.join("/") }));
    }
    s
}

fn oov_cfg(regs: &[String]) -> String {
    // OOV providers in order; the last one is the simple fallback
    let mut v = Vec::new();
    let n = regs.len();
    for (i, p) in regs.iter().enumerate() {
        if i + 1 < n {
            v.push(format!(r#"{{"class":"com.worksap.nlp.sudachi.RegexOovProvider","oovPOS":{},"leftId":0,"rightId":0,"cost":3000,"regex":"[0-9]+","userPOS":"allow"}}"#, pos_json(p)));
        } else {
            v.push(format!(r#"{{"class":"com.worksap.nlp.sudachi.SimpleOovPlugin","oovPOS":{},"leftId":0,"rightId":0,"cost":5000,"userPOS":"allow"}}"#, pos_json(p)));
        }
    }
    if n == 0 {
        v.push(format!(r#"{{"class":"com.worksap.nlp.sudachi.SimpleOovPlugin","oovPOS":{},"leftId":0,"rightId":0,"cost":5000}}"#, pos_json("N")));
    }
    format!(r#"{{"characterDefinitionFile":"char.def","oovProviderPlugin":[{}]}}"#, v.join(","))
}

pub fn build_stack(regs: &[String], dicts_words: &[Vec<Value>]) -> Result<JapaneseDictionary, String> {
    let res = dicts::resource_dir("c12", &[("char.def", "/repo/sudachi/tests/resources/char.def")]);
    let sys = dicts::build_system(SYS_LEX.as_bytes(), b"1 1\n0 0 0\n").map_err(|e| format!("system: {:?}", e))?;
    let mut users = Vec::new();
    for (i, words) in dicts_words.iter().enumerate() {
        users.push(dicts::build_user(&sys, user_csv(i + 1, words).as_bytes()).map_err(|e| format!("user {}: {:?}", i + 1, e))?);
    }
    dicts::load(&oov_cfg(regs), &res, sys, users).map_err(|e| format!("load: {:?}", e))
}

/// observed view of word (d, w): through an analysis of its key and through the lexicon
fn observe(dict: &Rc<JapaneseDictionary>, d: usize, w: usize) -> Result<Value, String> {
    let key = if d == 0 { ["東", "行"][w].to_string() } else { key_of(d, w) };
    let mut tok = StatefulTokenizer::new(dict.clone(), Mode::C);
    tok.reset().push_str(&key);
    tok.do_tokenize().map_err(|e| format!("{:?}", e))?;
    let mut ml = MorphemeList::empty(dict.clone());
    ml.collect_results(&mut tok).map_err(|e| format!("{:?}", e))?;
    if ml.len() != 1 { return Ok(json!({"n": ml.len()})); }
    let m = ml.get(0);
    let wid = WordId::new(d as u8, w as u32);
    let wi = dict.lexicon().get_word_info(wid).map_err(|e| format!("{:?}", e))?;
    let lex_pos = dict.grammar().pos_components(wi.pos_id()).join(",");
    // the same through restricted field requests: the POS id is rebased and the references are stamped whichever fields are asked for
    let wp = dict.lexicon().get_word_info_subset(wid, InfoSubset::POS_ID).map_err(|e| format!("{:?}", e))?;
    let wr = dict.lexicon().get_word_info_subset(wid, InfoSubset::SPLIT_A).map_err(|e| format!("{:?}", e))?;
    let sub_pos = pos_name(&dict.grammar().pos_components(wp.pos_id()).join(","));
    let sub_refs: Vec<Value> = wr.a_unit_split().iter().map(|r| json!([r.dic(), r.word()])).collect();
    if sub_pos != pos_name(&lex_pos) || json!(sub_refs) != json!(wi.a_unit_split().iter().map(|r| json!([r.dic(), r.word()])).collect::<Vec<_>>()) {
        return Ok(json!({"n": 1, "dic": m.dictionary_id(), "word": m.word_id().word(), "pos": pos_name(&m.part_of_speech().join(",")), "lexpos": format!("{} under {{POS_ID}}", sub_pos),
                         "refs": sub_refs, "oov": m.is_oov()}));
    }
    Ok(json!({"n": 1, "dic": m.dictionary_id(), "word": m.word_id().word(), "pos": pos_name(&m.part_of_speech().join(",")), "lexpos": pos_name(&lex_pos),
              "refs": wi.a_unit_split().iter().map(|r| json!([r.dic(), r.word()])).collect::<Vec<_>>(), "oov": m.is_oov()}))
}

pub fn replay(args: &[String]) -> i32 {
    quiet_panics();
    let lines = read_replay_lines(args.last().unwrap());
    let mut mismatches: Vec<Value> = Vec::new();
    let mut words = 0usize;
    for (li, v) in lines.iter().enumerate() {
        let regs: Vec<String> = v["regs"].as_array().unwrap().iter().map(|x| x.as_str().unwrap().to_string()).collect();
        let dw: Vec<Vec<Value>> = v["dicts"].as_array().unwrap().iter().map(|d| d["words"].as_array().unwrap().clone()).collect();
        let r = catch(std::panic::AssertUnwindSafe(|| -> Result<Option<Value>, String> {
            let dict = Rc::new(build_stack(&regs, &dw)?);
            // system words are unaffected by the layers
            for (w, p) in ["N", "V"].iter().enumerate() {
                let o = observe(&dict, 0, w)?;
                if o["n"] != 1 || o["dic"] != 0 || o["pos"] != *p || o["lexpos"] != *p {
                    return Ok(Some(json!({"what": "system word", "word": w, "expected": {"dic": 0, "pos": p}, "got": o})));
                }
            }
            for (di, d) in v["dicts"].as_array().unwrap().iter().enumerate() {
                for (w, ex) in d["expect"].as_array().unwrap().iter().enumerate() {
                    words += 1;
                    let o = observe(&dict, di + 1, w)?;
                    if o["n"] != 1 || o["dic"] != ex["dic"] || o["word"] != json!(w) || o["pos"] != ex["pos"] || o["lexpos"] != ex["pos"] || o["refs"] != ex["refs"] || o["oov"] != false {
                        return Ok(Some(json!({"what": "user word", "dict": di + 1, "word": w, "expected": ex, "got": o})));
                    }
                }
            }
            // an out-of-vocabulary morpheme reports dictionary -1 and the fallback provider's POS
            let mut tok = StatefulTokenizer::new(dict.clone(), Mode::C);
            tok.reset().push_str("zz");
            tok.do_tokenize().map_err(|e| format!("{:?}", e))?;
            let mut ml = MorphemeList::empty(dict.clone());
            ml.collect_results(&mut tok).map_err(|e| format!("{:?}", e))?;
            let want = if regs.is_empty() { "N".to_string() } else { regs.last().unwrap().clone() };
            for m in ml.iter() {
                let got = pos_name(&m.part_of_speech().join(","));
                if !m.is_oov() || m.dictionary_id() != -1 || got != want {
                    return Ok(Some(json!({"what": "oov morpheme", "expected": {"dic": -1, "pos": want}, "got": {"dic": m.dictionary_id(), "pos": got, "oov": m.is_oov()}})));
                }
            }
            Ok(None)
        }));
        match r {
            Ok(Ok(None)) => {}
            Ok(Ok(Some(mut m))) => { m["line"] = json!(li); m["abstract"] = v.clone(); mismatches.push(m); }
            Ok(Err(e)) => mismatches.push(json!({"line": li, "what": "build/load failed", "got": e, "abstract": v})),
            Err(msg) => mismatches.push(json!({"line": li, "what": "panic", "got": msg, "abstract": v})),
        }
        if mismatches.len() >= 20 { break; }
    }
    println!("{}", json!({"behaviours": lines.len(), "words": words, "mismatches": mismatches}));
    0
}

/// I->S: random stacks of 1..14 user dictionaries (+ the refused 15th), recorded as events
pub fn record(args: &[String]) -> i32 {
    quiet_panics();
    let mut tr = Trace::create(&args[0]);
    let seed = arg_u64(args, "--seed", 1);
    let nstacks = arg_u64(args, "--stacks", 12) as usize;
    let mut rng = Rng::new(seed);
    let names = ["N", "V", "U1", "U2", "U3", "X"];
    for run in 1..=nstacks {
        let k = match run % 4 { 0 => 14, 1 => 15, _ => 1 + rng.below(6) };
        let nregs = rng.below(3);
        let regs: Vec<String> = (0..nregs).map(|_| rng.pick_str(&["X", "N", "U1", "U2"]).to_string()).collect();
        let mut dw: Vec<Vec<Value>> = Vec::new();
        for _ in 0..k {
            let nw = 1 + rng.below(3);
            let mut ws = Vec::new();
            for w in 0..nw {
                let refs = if w > 0 && rng.chance(1, 3) { vec![json!({"own": true, "w": rng.below(w)}), json!({"own": false, "w": rng.below(2)})] } else { vec![] };
                ws.push(json!({"pos": rng.pick_str(&names), "refs": refs}));
            }
            dw.push(ws);
        }
        tr.emit(json!({"ev": "layers", "run": run, "regs": regs, "dicts": dw, "k": k}));
        let built = catch(std::panic::AssertUnwindSafe(|| build_stack(&regs, &dw)));
        let dict = match built {
            Ok(Ok(d)) => { tr.emit(json!({"ev": "loaded", "run": run, "res": "ok"})); Rc::new(d) }
            Ok(Err(e)) => { tr.emit(json!({"ev": "loaded", "run": run, "res": "err", "too_many": e.contains("TooManyDictionaries") || e.contains("too many"), "msg": e.chars().take(100).collect::<String>()})); continue; }
            Err(m) => { tr.emit(json!({"ev": "loaded", "run": run, "res": "panic", "msg": m})); continue; }
        };
        for d in 0..=k {
            let nw = if d == 0 { 2 } else { dw[d - 1].len() };
            for w in 0..nw {
                match catch(std::panic::AssertUnwindSafe(|| observe(&dict, d, w))) {
                    Ok(Ok(o)) => tr.emit(json!({"ev": "word", "run": run, "d": d, "w": w, "obs": o})),
                    Ok(Err(e)) => tr.emit(json!({"ev": "word", "run": run, "d": d, "w": w, "err": e})),
                    Err(m) => tr.emit(json!({"ev": "word", "run": run, "d": d, "w": w, "err": m})),
                }
            }
        }
    }
    let n = tr.finish();
    println!("{}", json!({"events": n, "runs": nstacks}));
    0
}
