//! C02 - S->I replay of TLC-enumerated insertion sequences on the real Lattice, and the
//! generated-dictionary recorder for I->S validation of whole analyses.
use crate::util::*;
use serde_json::{json, Value};
use sudachi::analysis::lattice::Lattice;
use sudachi::analysis::Node;
use sudachi::dic::connect::ConnectionMatrix;
use sudachi::dic::word_id::WordId;

/// connection matrix bytes in the dictionary layout: i16 LE at index right * num_left + left
pub fn conn_bytes(rows: &Vec<Vec<i64>>) -> (Vec<u8>, usize, usize) {
    let nl = rows.len();
    let nr = rows[0].len();
    let mut data = vec![0u8; nl * nr * 2];
    for l in 0..nl {
        for r in 0..nr {
            let v = rows[l][r] as i16;
            let idx = r * nl + l;
            data[idx * 2..idx * 2 + 2].copy_from_slice(&v.to_le_bytes());
        }
    }
    (data, nl, nr)
}

pub fn replay(args: &[String]) -> i32 {
    quiet_panics();
    let path = args.last().unwrap();
    let lines = read_replay_lines(path);
    let mut mismatches: Vec<Value> = Vec::new();
    let mut lattice = Lattice::default(); // ONE lattice object for all behaviours (rows are recycled)
    let mut steps = 0usize;
    // replay longer lattices first and shorter ones in between so that recycled rows matter
    for (li, v) in lines.iter().enumerate() {
        let rows: Vec<Vec<i64>> = v["conn"].as_array().unwrap().iter().map(|r| r.as_array().unwrap().iter().map(|x| x.as_i64().unwrap()).collect()).collect();
        let (bytes, nl, nr) = conn_bytes(&rows);
        let n = v["n"].as_u64().unwrap() as usize;
        let r = catch(std::panic::AssertUnwindSafe(|| -> Option<Value> {
            let conn = ConnectionMatrix::from_offset_size(&bytes, 0, nl, nr).expect("matrix");
            sudachi::verif::install();
            lattice.reset(n);
            for (k, nd) in v["nodes"].as_array().unwrap().iter().enumerate() {
                steps += 1;
                let node = Node::new(nd["b"].as_u64().unwrap() as u16, nd["e"].as_u64().unwrap() as u16, nd["lid"].as_u64().unwrap() as u16,
                    nd["rid"].as_u64().unwrap() as u16, nd["cost"].as_i64().unwrap() as i16, WordId::new(0, k as u32));
                let got = lattice.insert(node, &conn) as i64;
                if got != nd["total"].as_i64().unwrap() {
                    return Some(json!({"what": "total of inserted node", "node": k, "expected": nd["total"], "got": got}));
                }
            }
            let res = lattice.connect_eos(&conn);
            let evs = sudachi::verif::take();
            let want = v["eos"].as_i64().unwrap();
            if want == i32::MAX as i64 {
                if res.is_ok() {
                    return Some(json!({"what": "connect_eos", "expected": "disconnect", "got": "ok"}));
                }
            } else {
                if res.is_err() {
                    return Some(json!({"what": "connect_eos", "expected": want, "got": "error"}));
                }
                let got = evs.iter().rev().find(|e| e["ev"] == "lat_eos").map(|e| e["total"].as_i64().unwrap());
                if got != Some(want) {
                    return Some(json!({"what": "EOS total", "expected": want, "got": got}));
                }
            }
            None
        }));
        sudachi::verif::uninstall();
        match r {
            Ok(None) => {}
            Ok(Some(mut m)) => {
                m["line"] = json!(li);
                m["abstract"] = v.clone();
                mismatches.push(m);
            }
            Err(msg) => mismatches.push(json!({"line": li, "what": "panic", "got": msg, "abstract": v})),
        }
        if mismatches.len() >= 20 {
            break;
        }
    }
    println!("{}", json!({"behaviours": lines.len(), "steps": steps, "mismatches": mismatches}));
    0
}

// ------------------------------------------------------------------ I->S recorder
use crate::dicts;
use crate::gen::{self, GenDict};
use crate::tok::{self, World};
use std::rc::Rc;
use sudachi::analysis::stateful_tokenizer::StatefulTokenizer;
use sudachi::prelude::Mode;

pub fn gen_text(rng: &mut Rng, d: &GenDict, letters: &[char], maxlen: usize) -> String {
    let mut s = String::new();
    let n = rng.below(maxlen + 1);
    while s.chars().count() < n {
        if rng.chance(1, 2) {
            s.push_str(&rng.pick(&d.words).key);
        } else {
            s.push(*rng.pick(letters));
        }
    }
    s
}

pub fn record(args: &[String]) -> i32 {
    quiet_panics();
    let out = &args[0];
    let seed = arg_u64(args, "--seed", 1);
    let nworlds = arg_u64(args, "--worlds", 40) as usize;
    let ntexts = arg_u64(args, "--texts", 12) as usize;
    let mut tr = Trace::create(out);
    let mut rng = Rng::new(seed);
    let mut run = 0usize;
    let res = dicts::resource_dir("gen", &[("char.def", "/repo/sudachi/tests/resources/char.def"), ("rewrite.def", "/repo/sudachi/tests/resources/rewrite.def")]);
    let mut nworld = 0;
    for wi in 0..nworlds {
        let d = GenDict::random(&mut rng, &gen::LETTERS, 14);
        let sys = match catch(|| d.build()) {
            Ok(Ok(b)) => b,
            _ => continue, // the builder refused the generated source: C06's business, not this recorder's
        };
        let cfg = format!(r#"{{"characterDefinitionFile":"char.def","inputTextPlugin":[],"oovProviderPlugin":[{}],"pathRewritePlugin":[]}}"#, d.simple_oov_json());
        let dict = match dicts::load(&cfg, &res, sys, vec![]) {
            Ok(x) => x,
            Err(_) => continue,
        };
        nworld += 1;
        let world = World { name: format!("gen{}", wi), dict: Rc::new(dict), meta: json!({"n_input_plugins": 0, "n_oov": 1, "n_path_rewrite": 0, "has_fallback_oov": true}) };
        let mut m = d.meta();
        m["ev"] = json!("world");
        m["run"] = json!(run + 1);
        m["name"] = json!(world.name);
        tr.emit(m);
        let mut t = StatefulTokenizer::new(world.dict.clone(), Mode::C);
        for k in 0..ntexts {
            let text = gen_text(&mut rng, &d, &gen::LETTERS, 9);
            run += 1;
            let mode = if k % 4 == 3 { tok::mode_of(k) } else { Mode::C };
            tok::record_run(&mut tr, run, &world, &mut t, mode, &text, json!({}));
        }
    }
    // the repository's fixture dictionary with its own matrix / lexicon sources
    let conn = gen::matrix_rows("/repo/sudachi/tests/resources/matrix_10x10.def");
    let lex = json!([gen::csv_params("/repo/sudachi/tests/resources/lex.csv"), gen::csv_params("/repo/sudachi/tests/resources/user1.csv"), gen::csv_params("/repo/sudachi/tests/resources/user2.csv")]);
    let keys = vec![json!(gen::csv_keys("/repo/sudachi/tests/resources/lex.csv")), json!(gen::csv_keys("/repo/sudachi/tests/resources/user1.csv")), json!(gen::csv_keys("/repo/sudachi/tests/resources/user2.csv"))];
    for w in tok::fixture_worlds() {
        let mut wl = lex.as_array().unwrap().clone();
        wl.extend(w.meta["extra_lex"].as_array().unwrap().iter().cloned());
        let mut wk = keys.clone();
        if !w.meta["extra_lex"].as_array().unwrap().is_empty() {
            // the kana-spelled user dictionary of tok::fixture_worlds
            wk.push(tok::kana_user_keys());
        }
        tr.emit(json!({"ev": "world", "run": run + 1, "name": w.name, "conn": conn, "lex": wl, "dicts": wk}));
        let mut t = StatefulTokenizer::new(w.dict.clone(), Mode::C);
        for (k, s) in crate::texts::FIXTURE_SENTENCES.iter().enumerate() {
            run += 1;
            let mode = if k % 5 == 4 { tok::mode_of(k) } else { Mode::C };
            tok::record_run(&mut tr, run, &w, &mut t, mode, s, json!({}));
        }
        for _ in 0..ntexts * 3 {
            let text = crate::texts::random_text(&mut rng, 8);
            run += 1;
            tok::record_run(&mut tr, run, &w, &mut t, Mode::C, &text, json!({}));
        }
    }
    let n = tr.finish();
    println!("{}", json!({"events": n, "runs": run, "worlds": nworld}));
    0
}

// ------------------------------------------------------------------ costs of user words computed at load time
/// `vh c02-usercost <out> --seed S --worlds N`: generated system dictionary + 1..3 user dictionaries, some of whose words
/// declare the cost -32768; the dictionary stack is loaded with the recorder installed, so the analyses made by the loader
/// and its set_cost mutation points are in the trace, in program order.
pub fn usercost(args: &[String]) -> i32 {
    quiet_panics();
    let out = &args[0];
    let seed = arg_u64(args, "--seed", 1);
    let nworlds = arg_u64(args, "--worlds", 40) as usize;
    let mut tr = Trace::create(out);
    let mut rng = Rng::new(seed ^ 0x5151);
    let res = dicts::resource_dir("gen", &[("char.def", "/repo/sudachi/tests/resources/char.def"), ("rewrite.def", "/repo/sudachi/tests/resources/rewrite.def")]);
    let mut loaded = 0usize;
    let mut run = 0usize;
    for wi in 0..nworlds {
        let d = GenDict::random(&mut rng, &gen::LETTERS, 10);
        let sys = match catch(|| d.build()) {
            Ok(Ok(b)) => b,
            _ => continue,
        };
        let idmax = d.nl.min(d.nr);
        let nusers = 1 + rng.below(3);
        let mut users = Vec::new();
        let mut sources: Vec<Vec<(String, i64, i64, i64)>> = Vec::new();
        let mut ok = true;
        for _ in 0..nusers {
            let n = 1 + rng.below(5);
            let mut rows = Vec::new();
            let mut csv = String::new();
            for _ in 0..n {
                let len = 1 + rng.below(4);
                // surfaces made of system keys and letters, so that the inner analysis has several morphemes
                let mut key = String::new();
                for _ in 0..len {
                    if rng.chance(1, 2) { key.push_str(&d.words[rng.below(d.words.len())].key); } else { key.push(*rng.pick(&gen::LETTERS)); }
                }
                let cost: i64 = match rng.below(5) { 0 | 1 | 2 => -32768, 3 => rng.range(-3000, 9000), _ => 32767 };
                let (lid, rid) = (rng.below(idmax) as i64, rng.below(idmax) as i64);
                csv.push_str(&format!("{k},{l},{r},{c},{k},{pos},ヨミ,{k},*,A,*,*,*,*\n", k = key, l = lid, r = rid, c = cost, pos = gen::POS[rng.below(gen::POS.len())]));
                rows.push((key, lid, rid, cost));
            }
            match catch(std::panic::AssertUnwindSafe(|| dicts::build_user(&sys, csv.as_bytes()))) {
                Ok(Ok(b)) => { users.push(b); sources.push(rows); }
                _ => { ok = false; break; }
            }
        }
        if !ok { continue; }
        let cfg = format!(r#"{{"characterDefinitionFile":"char.def","inputTextPlugin":[],"oovProviderPlugin":[{}],"pathRewritePlugin":[]}}"#, d.simple_oov_json());
        sudachi::verif::install();
        let r = catch(std::panic::AssertUnwindSafe(|| dicts::load(&cfg, &res, sys.clone(), users.clone())));
        let events = sudachi::verif::take();
        sudachi::verif::uninstall();
        run += 1;
        let mut m = d.meta();
        m["ev"] = json!("world");
        m["run"] = json!(run);
        m["name"] = json!(format!("ucost{}", wi));
        m["users"] = json!(sources.iter().map(|rows| rows.iter().map(|(k, l, r, c)| json!({"key": cps(k), "lid": l, "rid": r, "cost": c})).collect::<Vec<_>>()).collect::<Vec<_>>());
        tr.emit(m);
        let dict = match r {
            Ok(Ok(x)) => x,
            Ok(Err(e)) => { tr.emit(json!({"ev": "load", "run": run, "res": "err", "msg": format!("{:?}", e)})); continue; }
            Err(msg) => { tr.emit(json!({"ev": "load", "run": run, "res": "panic", "msg": msg})); continue; }
        };
        loaded += 1;
        for mut e in events {
            e["run"] = json!(run);
            tr.emit(e);
        }
        tr.emit(json!({"ev": "load", "run": run, "res": "ok"}));
        for (ui, rows) in sources.iter().enumerate() {
            for wi in 0..rows.len() {
                let (l, r, c) = dict.lexicon().get_word_param(WordId::new((ui + 1) as u8, wi as u32));
                tr.emit(json!({"ev": "final", "run": run, "dic": ui + 1, "word": wi, "lid": l, "rid": r, "cost": c}));
            }
        }
    }
    let n = tr.finish();
    println!("{}", json!({"events": n, "worlds": loaded}));
    0
}
