//! C19/C18: the core library as the oracle for the Python bindings and the command-line tool.
//! `c19-world <dir>` writes dictionaries + configuration files that all three (library, Python, CLI) load from disk;
//! `c19-lib <dir> <cfg> <requests> <out>` answers tok / sentences / lookup requests with the library's own results.
use crate::dicts;
use crate::util::*;
use serde_json::{json, Value};
use std::path::{Path, PathBuf};
use sudachi::analysis::stateful_tokenizer::StatefulTokenizer;
use sudachi::config::Config;
use sudachi::dic::dictionary::JapaneseDictionary;
use sudachi::dic::subset::InfoSubset;
use sudachi::prelude::*;
use sudachi::sentence_splitter::{SentenceSplitter, SplitSentences};
use sudachi::analysis::stateless_tokenizer::DictionaryAccess;

const IN_DEFAULT: &str = r#"{"class":"com.worksap.nlp.sudachi.DefaultInputTextPlugin"}"#;
const IN_PROLONGED: &str = r#"{"class":"com.worksap.nlp.sudachi.ProlongedSoundMarkPlugin","prolongedSoundMarks":["ー","-","⁓","〜","〰"],"replacementSymbol":"ー"}"#;
const IN_YOMIGANA: &str = r#"{"class":"com.worksap.nlp.sudachi.IgnoreYomiganaPlugin","leftBrackets":["(","（"],"rightBrackets":[")","）"],"maxYomiganaLength":4}"#;
const OOV_SIMPLE: &str = r#"{"class":"com.worksap.nlp.sudachi.SimpleOovPlugin","oovPOS":["名詞","普通名詞","一般","*","*","*"],"leftId":8,"rightId":8,"cost":6000}"#;
const OOV_MECAB: &str = r#"{"class":"com.worksap.nlp.sudachi.MeCabOovPlugin","charDef":"char.def","unkDef":"unk2.def"}"#;
const OOV_REGEX: &str = r#"{"class":"com.worksap.nlp.sudachi.RegexOovProvider","oovPOS":["名詞","普通名詞","一般","*","*","*"],"leftId":5,"rightId":5,"cost":-32000,"regex":"[-a-zA-Z0-9]+","maxLength":400}"#;
const PR_NUMERIC: &str = r#"{"class":"com.worksap.nlp.sudachi.JoinNumericPlugin","enableNormalize":true}"#;
const PR_KATAKANA: &str = r#"{"class":"com.worksap.nlp.sudachi.JoinKatakanaOovPlugin","oovPOS":["名詞","普通名詞","一般","*","*","*"],"minLength":3}"#;

pub fn world(args: &[String]) -> i32 {
    let dir = PathBuf::from(&args[0]);
    std::fs::create_dir_all(&dir).unwrap();
    for f in ["char.def", "unk2.def", "rewrite.def", "unk.def"] {
        std::fs::copy(format!("{}/{}", dicts::TEST_RES, f), dir.join(f)).unwrap();
    }
    let (sys, users) = dicts::test_dict_bytes(true);
    std::fs::write(dir.join("system.dic"), &sys).unwrap();
    let mut unames = Vec::new();
    for (i, u) in users.iter().enumerate() {
        let n = format!("user{}.dic", i + 1);
        std::fs::write(dir.join(&n), u).unwrap();
        unames.push(format!("\"{}\"", dir.join(&n).display()));
    }
    let stacks: Vec<(&str, Vec<&str>, Vec<&str>, Vec<&str>)> = vec![
        ("default", vec![IN_DEFAULT], vec![OOV_SIMPLE], vec![PR_NUMERIC, PR_KATAKANA]),
        ("full", vec![IN_DEFAULT, IN_PROLONGED, IN_YOMIGANA], vec![OOV_MECAB, OOV_SIMPLE], vec![PR_NUMERIC, PR_KATAKANA]),
        ("regex", vec![IN_PROLONGED, IN_DEFAULT], vec![OOV_REGEX, OOV_SIMPLE], vec![PR_NUMERIC]),
    ];
    for (name, i, o, p) in stacks {
        let cfg = format!(
            r#"{{"systemDict":"{}","userDict":[{}],"characterDefinitionFile":"char.def","inputTextPlugin":[{}],"oovProviderPlugin":[{}],"pathRewritePlugin":[{}]}}"#,
            dir.join("system.dic").display(), unames.join(","), i.join(","), o.join(","), p.join(",")
        );
        std::fs::write(dir.join(format!("{}.json", name)), cfg).unwrap();
        // the same stack without user dictionaries: loading it analyses nothing (no cost to compute), so whatever is initialised at the
        // first analysis is still uninitialised when the threads of a cold start begin
        let cold = format!(
            r#"{{"systemDict":"{}","userDict":[],"characterDefinitionFile":"char.def","inputTextPlugin":[{}],"oovProviderPlugin":[{}],"pathRewritePlugin":[{}]}}"#,
            dir.join("system.dic").display(), i.join(","), o.join(","), p.join(",")
        );
        std::fs::write(dir.join(format!("{}-cold.json", name)), cold).unwrap();
    }
    println!("{}", json!({"dir": dir.display().to_string(), "configs": ["default", "full", "regex"]}));
    0
}

pub fn load(dir: &Path, cfg: &str) -> JapaneseDictionary {
    let config = Config::new(Some(dir.join(format!("{}.json", cfg))), Some(dir.to_path_buf()), None).expect("config");
    JapaneseDictionary::from_cfg(&config).expect("dictionary")
}

fn morph<D: DictionaryAccess + Clone>(m: &Morpheme<D>, dict: &D, depth: usize) -> Value {
    let pos: Vec<Value> = m.part_of_speech().iter().map(|s| json!(cps(s))).collect();
    let wid = m.word_id();
    let mut v = json!({
        "surface": cps(&m.surface()), "begin": m.begin_c(), "end": m.end_c(),
        "pos": pos, "pos_id": m.part_of_speech_id(),
        "dform": cps(m.dictionary_form()), "norm": cps(m.normalized_form()), "reading": cps(m.reading_form()),
        "wid": [wid.dic(), wid.word()], "dic": m.dictionary_id(), "oov": m.is_oov(), "syn": m.synonym_group_ids(),
    });
    // the word information object as the library's accessors show it (Morpheme.get_word_info() of the binding)
    let wi = m.get_word_info();
    let ids = |a: &[sudachi::dic::word_id::WordId]| -> Vec<[u32; 2]> { a.iter().map(|w| [w.dic() as u32, w.word()]).collect() };
    v["winfo"] = json!({
        "surface": cps(wi.surface()), "hwl": wi.head_word_length(), "pos_id": wi.pos_id(), "norm": cps(wi.normalized_form()),
        "dfwid": wi.dictionary_form_word_id(), "dform": cps(wi.dictionary_form()), "reading": cps(wi.reading_form()),
        "a": ids(wi.a_unit_split()), "b": ids(wi.b_unit_split()), "ws": ids(wi.word_structure()), "syn": wi.synonym_group_ids(),
    });
    if depth > 0 {
        let mut splits = Vec::new();
        for mode in [Mode::A, Mode::B, Mode::C] {
            let mut sub = MorphemeList::empty(dict.clone());
            let splitted = m.split_into(mode, &mut sub).expect("split");
            // "no split" is reported by the flag; the list is left empty then
            let items: Vec<Value> = if splitted { sub.iter().map(|x| morph(&x, dict, depth - 1)).collect() } else { Vec::new() };
            splits.push(Value::Array(items));
        }
        v["splits"] = Value::Array(splits);
    } else {
        v["splits"] = json!([[], [], []]);
    }
    v
}

/// `vh c19-lib <dir> <cfg> <requests.ndjson> <out.ndjson>`
pub fn lib(args: &[String]) -> i32 {
    quiet_panics();
    let dir = PathBuf::from(&args[0]);
    let dict = load(&dir, &args[1]);
    let reqs: Vec<Value> = read_lines(&args[2]).iter().filter(|l| !l.trim().is_empty()).map(|l| serde_json::from_str(l).unwrap()).collect();
    let mut tr = Trace::create(&args[3]);
    let mut tok = StatefulTokenizer::new(&dict, Mode::C);
    let splitter = SentenceSplitter::new().with_checker(dict.lexicon());
    for r in reqs.iter() {
        if r["op"] == "pos" {
            let list: Vec<Value> = dict.grammar().pos_list.iter().map(|p| json!(p)).collect();
            tr.emit(json!({"ev": "lib", "op": "pos", "cfg": args[1], "text": [], "res": "ok", "ms": [], "list": list}));
            continue;
        }
        let text = from_cps(&r["text"]);
        match r["op"].as_str().unwrap() {
            "tok" => {
                let mode = crate::tok::mode_of(r["mode"].as_u64().unwrap() as usize);
                tok.set_mode(mode);
                // the same field request as the caller's (names as in the Python API)
                let mut subset = InfoSubset::empty();
                for f in r["fields"].as_array().unwrap() {
                    subset |= match f.as_str().unwrap() {
                        "surface" => InfoSubset::SURFACE,
                        "pos" => InfoSubset::POS_ID,
                        "normalized_form" => InfoSubset::NORMALIZED_FORM,
                        "dictionary_form" => InfoSubset::DIC_FORM_WORD_ID,
                        "reading_form" => InfoSubset::READING_FORM,
                        "word_structure" => InfoSubset::WORD_STRUCTURE,
                        "split_a" => InfoSubset::SPLIT_A,
                        "split_b" => InfoSubset::SPLIT_B,
                        "synonym_group_id" => InfoSubset::SYNONYM_GROUP_ID,
                        x => panic!("field {}", x),
                    };
                }
                tok.set_subset(subset);
                tok.reset().push_str(&text);
                let res = catch(std::panic::AssertUnwindSafe(|| tok.do_tokenize()));
                match res {
                    Ok(Ok(())) => {
                        let mut list = MorphemeList::empty(&dict);
                        list.collect_results(&mut tok).expect("collect");
                        let ms: Vec<Value> = list.iter().map(|m| morph(&m, &&dict, 2)).collect();
                        tr.emit(json!({"ev": "lib", "op": "tok", "cfg": args[1], "text": r["text"], "mode": r["mode"], "fields": r["fields"], "res": "ok", "ms": ms}));
                    }
                    Ok(Err(e)) => {
                        tr.emit(json!({"ev": "lib", "op": "tok", "cfg": args[1], "text": r["text"], "mode": r["mode"], "fields": r["fields"], "res": "err", "ms": [], "msg": format!("{:?}", e)}));
                    }
                    Err(msg) => {
                        tok = StatefulTokenizer::new(&dict, Mode::C);
                        tr.emit(json!({"ev": "lib", "op": "tok", "cfg": args[1], "text": r["text"], "mode": r["mode"], "fields": r["fields"], "res": "panic", "ms": [], "msg": msg}));
                    }
                }
            }
            "sentences" => {
                let ss: Vec<Value> = splitter.split(&text).map(|(_, s)| json!(cps(s))).collect();
                tr.emit(json!({"ev": "lib", "op": "sentences", "cfg": args[1], "text": r["text"], "res": "ok", "sents": ss}));
            }
            "lookup" => {
                let mut list = MorphemeList::empty(&dict);
                match list.lookup(&text, InfoSubset::all()) {
                    Ok(_) => {
                        let ms: Vec<Value> = list.iter().map(|m| morph(&m, &&dict, 1)).collect();
                        tr.emit(json!({"ev": "lib", "op": "lookup", "cfg": args[1], "text": r["text"], "res": "ok", "ms": ms}));
                    }
                    Err(e) => tr.emit(json!({"ev": "lib", "op": "lookup", "cfg": args[1], "text": r["text"], "res": "err", "ms": [], "msg": format!("{:?}", e)})),
                }
            }
            op => panic!("request {}", op),
        }
    }
    let n = tr.finish();
    println!("{}", json!({"events": n}));
    0
}
