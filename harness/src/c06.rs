//! C06 - runs the TLC-enumerated fault space (field defect classes x matrix text classes, sink
//! failures at every byte) through the real dictionary compiler and records outcome events.
use crate::dicts;
use crate::util::*;
use serde_json::{json, Value};
use std::io::Write;
use sudachi::analysis::stateful_tokenizer::StatefulTokenizer;
use sudachi::analysis::stateless_tokenizer::DictionaryAccess;
use sudachi::dic::build::DictBuilder;
use sudachi::dic::dictionary::JapaneseDictionary;
use sudachi::dic::word_id::WordId;
use sudachi::prelude::*;

/// a malformed value of 36 bytes in 3-byte characters: byte offsets 31, 32, 34, 35 ... are inside a character
const WIDE: &str = "数数数数数数数数数数数数";
const ROW1: &str = "東,0,0,100,東,名詞,普通名詞,一般,*,*,*,ヒガシ,東,*,A,*,*,*,*\n";
const OOV: &str = r#"{"class":"com.worksap.nlp.sudachi.SimpleOovPlugin","oovPOS":["名詞","普通名詞","一般","*","*","*"],"userPOS":"allow","leftId":0,"rightId":0,"cost":1000}"#;

fn matrix_text(c: &str) -> (String, i64, i64) {
    let full = |nl: i64, nr: i64| {
        let mut s = format!("{} {}\n", nl, nr);
        for l in 0..nl { for r in 0..nr { s.push_str(&format!("{} {} {}\n", l, r, l * 10 + r)); } }
        s
    };
    match c {
        "2x2" => (full(2, 2), 2, 2),
        "2x3" => (full(2, 3), 2, 3),
        "3x2" => (full(3, 2), 3, 2),
        "emptyfile" => (String::new(), 2, 2),
        "blank" => ("\n\n  \n".into(), 2, 2),
        "headeronly" => ("2 2\n".into(), 2, 2),
        "badheader" => ("a b\n0 0 0\n".into(), 2, 2),
        "negsize" => ("-1 2\n".into(), 2, 2),
        "cell_at_size" => ("2 2\n0 0 1\n2 0 5\n".into(), 2, 2),
        "cell_beyond" => ("2 2\n0 0 1\n0 7 5\n".into(), 2, 2),
        "cell_neg" => ("2 2\n0 0 1\n-1 0 5\n".into(), 2, 2),
        "shortline" => ("2 2\n0 0\n".into(), 2, 2),
        "garbage" => ("2 2\n0 0 1 zzz\n\u{FEFF}1 1 1\n".into(), 2, 2),
        "dup" => ("2 2\n0 0 1\n0 0 2\n".into(), 2, 2),
        "0x0" => ("0 0\n".into(), 0, 0),
        "cellwide" => (format!("2 2\n0 0 {}\n", WIDE), 2, 2),
        "headerwide" => (format!("{} 2\n0 0 0\n", WIDE), 2, 2),
        "coordwide" => (format!("2 2\n0 a{} 0\n", &WIDE[3..]), 2, 2),
        other => panic!("matrix class {}", other),
    }
}

fn rep(s: &str, n: usize, sep: &str) -> String {
    std::iter::repeat(s).take(n).collect::<Vec<_>>().join(sep)
}

pub fn render(cls: &Value) -> (String, String) {
    let g = |k: &str| cls[k].as_str().unwrap();
    let (mtext, nl, nr) = matrix_text(g("matrix"));
    let idv = |c: &str, max_by_use: i64| -> String {
        match c { "0" => "0".into(), "max" => (max_by_use - 1).max(0).to_string(), "size" => max_by_use.to_string(), "empty" => "".into(),
                  "xwide" => WIDE.into(), "xmixed" => format!("a{}", &WIDE[3..]), other => other.to_string() }
    };
    let lid = idv(g("lid"), nr);
    let rid = idv(g("rid"), nl);
    let cost = match g("cost") { "xwide" => WIDE.to_string(), "xmixed" => format!("-{}", &WIDE[3..]), "huge" => "9".repeat(40), o => o.to_string() };
    let key = match g("key") { "ok" => "京".to_string(), "empty" => "".into(), "long" => "あ".repeat(10000), "toolong" => "あ".repeat(11000), "badescape" => "\\u{110000}".into(), "escape" => "a\\u002cb".into(),
        "u126" => "a".repeat(126), "u127" => "a".repeat(127), "u128" => "a".repeat(128), "u129" => "a".repeat(129), "w127" => "あ".repeat(127), "w128" => "あ".repeat(128), o => panic!("{}", o) };
    let head = match g("head") { "same" => key.clone(), "other" => "頭".into(), "toolong" => "あ".repeat(11000), "u127" => "頭".repeat(127), "u128" => "頭".repeat(128), o => panic!("{}", o) };
    let dic = match g("dic") { "*" => "*", "self" => "1", "other" => "0", "dangling" => "2", "uref" => "U0", "neg" => "-1", "xwide" => WIDE, o => panic!("{}", o) };
    let mode = match g("mode") { "bad" => "Q", "badwide" => WIDE, o => o };
    let splita = match g("splita") { "*" => "*".to_string(), "ids" => "0/0".into(), "dangling" => "0/5".into(),
        "inline_ok" => "\"0/東,名詞,普通名詞,一般,*,*,*,ヒガシ\"".into(), "inline_bad" => "\"無,名詞,普通名詞,一般,*,*,*,ム/0\"".into(),
        "n127" => rep("0", 127, "/"), "n128" => rep("0", 128, "/"), "garbage" => "0/x".into(), "garbagewide" => format!("0/{}", WIDE),
        "inline_wide" => format!("\"{},名詞,普通名詞,一般,*,*,*,{}/0\"", WIDE, WIDE), o => panic!("{}", o) };
    let ws = match g("ws") { "*" => "*".to_string(), "ids" => "0".into(), "dangling" => "9".into(), "n128" => rep("0", 128, "/"), "garbagewide" => format!("U{}", WIDE), o => panic!("{}", o) };
    let syn = match g("syn") { "*" => "*".to_string(), "ids" => "1/2".into(), "n127" => rep("7", 127, "/"), "n128" => rep("7", 128, "/"), "x" => "a".into(), "absent" => "".into(),
        "xwide" => format!("1/{}", WIDE), "huge" => "9".repeat(40), o => panic!("{}", o) };
    let mut cols: Vec<String> = vec![key.clone(), lid, rid, cost, head, "名詞".into(), "普通名詞".into(), "一般".into(), "*".into(), "*".into(), "*".into(),
        "キョウ".into(), key.clone(), dic.into(), mode.into(), splita, "*".into(), ws];
    if g("syn") != "absent" { cols.push(syn); }
    match g("arity") { "full" => {}, "short17" => cols.truncate(17), "short5" => cols.truncate(5), "extra" => cols.push("extra".into()), o => panic!("{}", o) }
    (format!("{}{}\n", ROW1, cols.join(",")), mtext)
}

struct FailingSink { written: usize, limit: usize }
impl Write for FailingSink {
    fn write(&mut self, buf: &[u8]) -> std::io::Result<usize> {
        if self.written >= self.limit { return Err(std::io::Error::new(std::io::ErrorKind::Other, "sink full")); }
        let n = buf.len().min(self.limit - self.written);
        self.written += n;
        Ok(n)
    }
    fn flush(&mut self) -> std::io::Result<()> { Ok(()) }
}

/// A sink that never fails but takes at most `max` bytes per call (what a pipe or a socket may do).
struct ChunkSink { data: Vec<u8>, max: usize }
impl Write for ChunkSink {
    fn write(&mut self, buf: &[u8]) -> std::io::Result<usize> {
        let n = buf.len().min(self.max);
        self.data.extend_from_slice(&buf[..n]);
        Ok(n)
    }
    fn flush(&mut self) -> std::io::Result<()> { Ok(()) }
}

fn compile_user_into<W: Write>(system: &[u8], csv: &[u8], w: &mut W) -> Result<Result<(), String>, String> {
    catch(std::panic::AssertUnwindSafe(|| -> Result<(), String> {
        let dic = sudachi::dic::DictionaryLoader::read_system_dictionary(system).map_err(|e| format!("{:?}", e))?.to_loaded().ok_or("not loaded")?;
        let mut b = DictBuilder::new_user(&dic);
        b.read_lexicon(csv).map_err(|e| format!("{:?}", e))?;
        b.resolve().map_err(|e| format!("{:?}", e))?;
        b.compile(w).map_err(|e| format!("{:?}", e))?;
        Ok(())
    }))
}

/// what is read back for the words of user dictionary 1 (same record shape as `readback`)
fn readback_user(dict: &JapaneseDictionary, nsys: usize, nuser: usize) -> Value {
    let cm = dict.grammar().conn_matrix();
    let mut words = Vec::new();
    for w in 0..nuser {
        let wid = WordId::new(1, w as u32);
        let p = dict.lexicon().get_word_param(wid);
        let wi = dict.lexicon().get_word_info(wid).expect("word info");
        let mut refs: Vec<Value> = Vec::new();
        for r in wi.a_unit_split().iter().chain(wi.b_unit_split()).chain(wi.word_structure()) { refs.push(json!([r.dic(), r.word()])); }
        let u16len = |s: &str| s.chars().map(|c| c.len_utf16()).sum::<usize>();
        words.push(json!({"lid": p.0, "rid": p.1, "dfwi": wi.dictionary_form_word_id(), "refs": refs,
            "narr": [wi.a_unit_split().len(), wi.b_unit_split().len(), wi.word_structure().len(), wi.synonym_group_ids().len()],
            "nstr": [u16len(wi.surface()), u16len(wi.normalized_form()), u16len(wi.reading_form()), wi.head_word_length()]}));
    }
    json!({"nl": cm.num_left(), "nr": cm.num_right(), "nsys": nsys, "nuser": nuser, "user": true, "words": words})
}

fn compile_into<W: Write>(csv: &[u8], matrix: &[u8], w: &mut W) -> Result<Result<(), String>, String> {
    catch(std::panic::AssertUnwindSafe(|| -> Result<(), String> {
        let mut b = DictBuilder::new_system();
        b.read_conn(matrix).map_err(|e| format!("{:?}", e))?;
        b.read_lexicon(csv).map_err(|e| format!("{:?}", e))?;
        b.resolve().map_err(|e| format!("{:?}", e))?;
        b.compile(w).map_err(|e| format!("{:?}", e))?;
        Ok(())
    }))
}

fn readback(dict: &JapaneseDictionary) -> Value {
    let cm = dict.grammar().conn_matrix();
    let n = dict.lexicon().size();
    let mut words = Vec::new();
    for w in 0..n {
        let wid = WordId::new(0, w);
        let p = dict.lexicon().get_word_param(wid);
        let wi = dict.lexicon().get_word_info(wid).expect("word info");
        let mut refs: Vec<Value> = Vec::new();
        for r in wi.a_unit_split().iter().chain(wi.b_unit_split()).chain(wi.word_structure()) { refs.push(json!([r.dic(), r.word()])); }
        let u16len = |s: &str| s.chars().map(|c| c.len_utf16()).sum::<usize>();
        words.push(json!({"lid": p.0, "rid": p.1, "dfwi": wi.dictionary_form_word_id(), "refs": refs,
            "narr": [wi.a_unit_split().len(), wi.b_unit_split().len(), wi.word_structure().len(), wi.synonym_group_ids().len()],
            "nstr": [u16len(wi.surface()), u16len(wi.normalized_form()), u16len(wi.reading_form()), wi.head_word_length()]}));
    }
    json!({"nl": cm.num_left(), "nr": cm.num_right(), "nsys": n, "nuser": 0, "user": false, "words": words})
}

fn probe(dict: JapaneseDictionary, extra: &str) -> String {
    let dict = std::rc::Rc::new(dict);
    for mode in [Mode::C, Mode::A, Mode::B] {
        let mut tok = StatefulTokenizer::new(dict.clone(), mode);
        for text in ["東京", "京", "東京東", "京京", extra, "a京b"] {
            if text.len() > 40000 { continue; }
            tok.reset().push_str(text);
            if let Err(e) = tok.do_tokenize() { return format!("err {:?}", e); }
            let mut ml = MorphemeList::empty(dict.clone());
            if let Err(e) = ml.collect_results(&mut tok) { return format!("err {:?}", e); }
            for m in ml.iter() { let _ = (m.surface().len(), m.part_of_speech().len(), m.dictionary_form().len(), m.normalized_form().len(), m.reading_form().len()); }
        }
    }
    "ok".into()
}

pub fn run(args: &[String]) -> i32 {
    quiet_panics();
    let lines = read_replay_lines(&args[0]);
    let mut tr = Trace::create(&args[1]);
    let sink_cases = arg_u64(args, "--sink-cases", 3) as usize;
    let res = dicts::resource_dir("c06", &[("char.def", "/repo/sudachi/tests/resources/char.def")]);
    let cfg = format!(r#"{{"characterDefinitionFile":"char.def","oovProviderPlugin":[{}]}}"#, OOV);
    let mut run = 0usize;
    let mut sinks_done = 0usize;
    for cls in lines.iter() {
        run += 1;
        let (csv, mtext) = render(cls);
        tr.emit(json!({"ev": "case", "run": run, "cls": cls}));
        let mut bytes: Vec<u8> = Vec::new();
        match compile_into(csv.as_bytes(), mtext.as_bytes(), &mut bytes) {
            Err(msg) => { tr.emit(json!({"ev": "compile", "run": run, "res": "panic", "fail_at": -1, "msg": msg})); continue; }
            Ok(Err(e)) => { tr.emit(json!({"ev": "compile", "run": run, "res": "err", "fail_at": -1, "msg": e.chars().take(160).collect::<String>()})); continue; }
            Ok(Ok(())) => tr.emit(json!({"ev": "compile", "run": run, "res": "ok", "fail_at": -1, "nbytes": bytes.len()})),
        }
        // read back through the public reader
        let loaded = catch(std::panic::AssertUnwindSafe(|| dicts::load(&cfg, &res, bytes.clone(), vec![])));
        let dict = match loaded {
            Ok(Ok(d)) => d,
            Ok(Err(e)) => { tr.emit(json!({"ev": "readback", "run": run, "res": "err", "msg": format!("{:?}", e)})); continue; }
            Err(m) => { tr.emit(json!({"ev": "readback", "run": run, "res": "panic", "msg": m})); continue; }
        };
        match catch(std::panic::AssertUnwindSafe(|| readback(&dict))) {
            Ok(rb) => tr.emit(json!({"ev": "readback", "run": run, "res": "ok", "rb": rb})),
            Err(m) => { tr.emit(json!({"ev": "readback", "run": run, "res": "panic", "msg": m})); continue; }
        }
        let key = cls["key"].as_str().unwrap();
        let extra = if key == "long" { "あ".repeat(10000) } else { "東京".to_string() };
        let pr = catch(std::panic::AssertUnwindSafe(|| probe(dict, &extra)));
        tr.emit(json!({"ev": "probe", "run": run, "res": match pr { Ok(s) => s, Err(m) => format!("panic {}", m) }}));
        // sink failures at every byte of some successfully compiled dictionaries
        if sinks_done < sink_cases && bytes.len() < 4000 {
            sinks_done += 1;
            for k in 0..bytes.len() {
                run += 1;
                tr.emit(json!({"ev": "case", "run": run, "cls": cls, "sink_limit": k}));
                let mut sink = FailingSink { written: 0, limit: k };
                let r = compile_into(csv.as_bytes(), mtext.as_bytes(), &mut sink);
                let res = match r { Err(_) => "panic", Ok(Err(_)) => "err", Ok(Ok(())) => "ok" };
                tr.emit(json!({"ev": "compile", "run": run, "res": res, "fail_at": k}));
            }
            // a sink that takes only part of what it is offered, without ever failing: success still means that the sink holds a valid dictionary
            for chunk in [1usize, 7, 64] {
                run += 1;
                tr.emit(json!({"ev": "case", "run": run, "cls": cls, "sink_chunk": chunk}));
                let mut sink = ChunkSink { data: Vec::new(), max: chunk };
                match compile_into(csv.as_bytes(), mtext.as_bytes(), &mut sink) {
                    Err(msg) => { tr.emit(json!({"ev": "compile", "run": run, "res": "panic", "fail_at": -1, "msg": msg})); continue; }
                    Ok(Err(e)) => { tr.emit(json!({"ev": "compile", "run": run, "res": "err", "fail_at": -1, "msg": e.chars().take(160).collect::<String>()})); continue; }
                    Ok(Ok(())) => tr.emit(json!({"ev": "compile", "run": run, "res": "ok", "fail_at": -1, "nbytes": sink.data.len()})),
                }
                let got = sink.data;
                match catch(std::panic::AssertUnwindSafe(|| dicts::load(&cfg, &res, got, vec![]).map(|d| { let rb = readback(&d); (rb, probe(d, "東京")) }))) {
                    Ok(Ok((rb, pr))) => { tr.emit(json!({"ev": "readback", "run": run, "res": "ok", "rb": rb})); tr.emit(json!({"ev": "probe", "run": run, "res": pr})); }
                    Ok(Err(e)) => tr.emit(json!({"ev": "readback", "run": run, "res": "err", "msg": format!("{:?}", e)})),
                    Err(m) => tr.emit(json!({"ev": "readback", "run": run, "res": "panic", "msg": m})),
                }
            }
        }
    }
    // user dictionaries over system dictionaries whose matrix is not square: every pair of ids around both dimensions
    for (nl, nr) in [(2usize, 3usize), (3, 2), (1, 4), (4, 1), (2, 2)] {
        let mut mtext = format!("{} {}\n", nl, nr);
        for a in 0..nl { for b in 0..nr { mtext.push_str(&format!("{} {} {}\n", a, b, (a * 7 + b) as i64 - 3)); } }
        let sys_csv = "京,0,0,5000,京,名詞,普通名詞,一般,*,*,*,キョウ,京,*,A,*,*,*,*\n";
        let mut sys = Vec::new();
        if !matches!(compile_into(sys_csv.as_bytes(), mtext.as_bytes(), &mut sys), Ok(Ok(()))) { continue; }
        let top = nl.max(nr) as i64 + 1;
        for lid in 0..=top { for rid in 0..=top {
            run += 1;
            let csv = format!("東京,{l},{r},-3000,東京,名詞,普通名詞,一般,*,*,*,トウキョウ,東京,*,A,*,*,*,*\n", l = lid, r = rid);
            tr.emit(json!({"ev": "case", "run": run, "cls": {"user_over": [nl, nr], "lid": lid, "rid": rid}}));
            let mut ub = Vec::new();
            match compile_user_into(&sys, csv.as_bytes(), &mut ub) {
                Err(msg) => { tr.emit(json!({"ev": "compile", "run": run, "res": "panic", "fail_at": -1, "msg": msg})); continue; }
                Ok(Err(e)) => { tr.emit(json!({"ev": "compile", "run": run, "res": "err", "fail_at": -1, "msg": e.chars().take(160).collect::<String>()})); continue; }
                Ok(Ok(())) => tr.emit(json!({"ev": "compile", "run": run, "res": "ok", "fail_at": -1, "nbytes": ub.len()})),
            }
            let sysc = sys.clone();
            match catch(std::panic::AssertUnwindSafe(|| dicts::load(&cfg, &res, sysc, vec![ub]).map(|d| { let rb = readback_user(&d, 1, 1); (rb, probe(d, "東京")) }))) {
                Ok(Ok((rb, pr))) => { tr.emit(json!({"ev": "readback", "run": run, "res": "ok", "rb": rb})); tr.emit(json!({"ev": "probe", "run": run, "res": pr})); }
                Ok(Err(e)) => tr.emit(json!({"ev": "readback", "run": run, "res": "err", "msg": format!("{:?}", e)})),
                Err(m) => tr.emit(json!({"ev": "readback", "run": run, "res": "panic", "msg": m})),
            }
        } }
    }
    let n = tr.finish();
    println!("{}", json!({"events": n, "cases": run, "inputs": lines.len()}));
    0
}
