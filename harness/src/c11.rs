//! C11 - I->S recorders: (a) every word of the fixture dictionaries under field subsets,
//! (b) whole analyses under field subsets / call orders compared with the full-field analysis.
use crate::c05::FIELD_BITS;
use crate::texts;
use crate::tok;
use crate::util::*;
use serde_json::{json, Value};
use sudachi::analysis::stateful_tokenizer::StatefulTokenizer;
use sudachi::analysis::stateless_tokenizer::DictionaryAccess;
use sudachi::dic::subset::InfoSubset;
use sudachi::dic::word_id::WordId;
use sudachi::prelude::*;

fn wview(dict: &sudachi::dic::dictionary::JapaneseDictionary, wid: WordId, s: InfoSubset) -> Result<Value, String> {
    let wi = dict.lexicon().get_word_info_subset(wid, s).map_err(|e| format!("{:?}", e))?;
    let w = |v: &[WordId]| v.iter().map(|x| json!([x.dic(), x.word()])).collect::<Vec<_>>();
    Ok(json!({"surface": cps(wi.surface()), "hwl": wi.head_word_length(), "pos": wi.pos_id(), "norm": cps(wi.normalized_form()), "dform": cps(wi.dictionary_form()),
        "reading": cps(wi.reading_form()), "a": w(wi.a_unit_split()), "b": w(wi.b_unit_split()), "ws": w(wi.word_structure()), "syn": wi.synonym_group_ids()}))
}

pub fn record(args: &[String]) -> i32 {
    quiet_panics();
    let out = &args[0];
    let seed = arg_u64(args, "--seed", 1);
    let nsub = arg_u64(args, "--subsets", 48) as usize; // subsets sampled per word / per text (1024 = all)
    let ntexts = arg_u64(args, "--texts", 60) as usize;
    let mut tr = Trace::create(out);
    let mut rng = Rng::new(seed);
    let worlds = tok::fixture_worlds();
    // (a) word level, on the "full" world's lexicon set (system + two user dictionaries)
    let w0 = &worlds[3];
    let sizes = [("lex.csv", 0u8), ("user1.csv", 1), ("user2.csv", 2)];
    for (f, dic) in sizes {
        let n = read_lines(&format!("/repo/sudachi/tests/resources/{}", f)).iter().filter(|l| !l.trim().is_empty()).count();
        for w in 0..n {
            let wid = WordId::new(dic, w as u32);
            let full = match catch(std::panic::AssertUnwindSafe(|| wview(&w0.dict, wid, InfoSubset::all()))) { Ok(Ok(v)) => v, _ => continue };
            let all = nsub >= 1024;
            let count = if all { 1024 } else { nsub };
            for k in 0..count {
                let bits = if all { k as u32 } else if k < 10 { 1u32 << k } else { rng.below(1024) as u32 };
                let s = InfoSubset::from_bits_truncate(bits).normalize();
                match catch(std::panic::AssertUnwindSafe(|| wview(&w0.dict, wid, s))) {
                    Ok(Ok(v)) => {
                        let mut req = serde_json::Map::new();
                        let mut fl = serde_json::Map::new();
                        for (name, bit) in FIELD_BITS.iter() {
                            if bits & bit != 0 { req.insert(name.to_string(), v[*name].clone()); fl.insert(name.to_string(), full[*name].clone()); }
                        }
                        tr.emit(json!({"ev": "wsub", "dic": dic, "w": w, "bits": bits, "res": "ok", "req": req, "full": fl}));
                    }
                    Ok(Err(e)) => tr.emit(json!({"ev": "wsub", "dic": dic, "w": w, "bits": bits, "res": "err", "msg": e})),
                    Err(m) => tr.emit(json!({"ev": "wsub", "dic": dic, "w": w, "bits": bits, "res": "panic", "msg": m})),
                }
            }
        }
    }
    // (b) tokenizer level
    let mut texts_v: Vec<String> = texts::FIXTURE_SENTENCES.iter().take(40).map(|s| s.to_string()).collect();
    for _ in 0..ntexts { texts_v.push(texts::random_text(&mut rng, 7)); }
    for (ti, text) in texts_v.iter().enumerate() {
        let wi = if ti % 2 == 0 { 3 } else { 6 }; // "full" (with path-rewrite plugins) / "norewrite"
        let world = &worlds[wi];
        let plain = world.meta["n_path_rewrite"] == 0;
        for mi in 0..3 {
            let mode = tok::mode_of(mi);
            let reference = analyse(world, mode, InfoSubset::all(), 0, text);
            for k in 0..(nsub / 4).max(6) {
                let bits = match k { 0 => 0u32, 1 => 1 | 4 | 8, 2 => 4, 3 => 1 | 4 | 8 | 64, _ => rng.below(1024) as u32 };
                let order = k % 3;
                let got = analyse(world, mode, InfoSubset::from_bits_truncate(bits), order, text);
                tr.emit(json!({"ev": "tsub", "world": world.name, "plain": plain, "mode": mi, "bits": bits, "order": order, "text": cps(text), "nbytes": text.len(),
                               "res": got.0, "ms": got.1, "fres": reference.0, "full": reference.1}));
            }
        }
    }
    let n = tr.finish();
    println!("{}", json!({"events": n}));
    0
}

/// order 0: create(mode) then set_subset; 1: create(C), set_subset, set_mode; 2: create(C), set_mode, set_subset, set_mode again
fn analyse(world: &tok::World, mode: Mode, subset: InfoSubset, order: usize, text: &str) -> (String, Vec<Value>) {
    let r = catch(std::panic::AssertUnwindSafe(|| -> Result<Vec<Value>, String> {
        let mut t = match order {
            0 => { let mut t = StatefulTokenizer::new(world.dict.clone(), mode); t.set_subset(subset); t }
            1 => { let mut t = StatefulTokenizer::new(world.dict.clone(), Mode::C); t.set_subset(subset); t.set_mode(mode); t }
            _ => { let mut t = StatefulTokenizer::new(world.dict.clone(), Mode::C); t.set_mode(mode); t.set_subset(subset); t.set_mode(mode); t }
        };
        t.reset().push_str(text);
        t.do_tokenize().map_err(|e| format!("{:?}", e))?;
        let mut ml = MorphemeList::empty(world.dict.clone());
        ml.collect_results(&mut t).map_err(|e| format!("{:?}", e))?;
        Ok(ml.iter().map(|m| json!([m.begin(), m.end(), m.word_id().dic(), m.word_id().word()])).collect())
    }));
    match r {
        Ok(Ok(v)) => ("ok".into(), v),
        Ok(Err(_)) => ("err".into(), vec![]),
        Err(_) => ("panic".into(), vec![]),
    }
}
