//! C11 - I->S recorders: (a) every word of the fixture dictionaries under field subsets,
//! (b) whole analyses under field subsets / call orders compared with the full-field analysis.
use crate::c05::FIELD_BITS;
use crate::texts;
use crate::tok;
use crate::util::*;
use serde_json::{json, Value};
use sudachi::analysis::stateful_tokenizer::StatefulTokenizer;
use sudachi::analysis::stateless_tokenizer::DictionaryAccess;
use sudachi::dic::subset::InfoSubset;
use sudachi::dic::word_id::WordId;
use sudachi::prelude::*;

fn wview(dict: &sudachi::dic::dictionary::JapaneseDictionary, wid: WordId, s: InfoSubset) -> Result<Value, String> {
    let wi = dict.lexicon().get_word_info_subset(wid, s).map_err(|e| format!("{:?}", e))?;
    let w = |v: &[WordId]| v.iter().map(|x| json!([x.dic(), x.word()])).collect::<Vec<_>>();
    Ok(json!({"surface": cps(wi.surface()), "hwl": wi.head_word_length(), "pos": wi.pos_id(), "norm": cps(wi.normalized_form()), "dform": cps(wi.dictionary_form()),
        "reading": cps(wi.reading_form()), "a": w(wi.a_unit_split()), "b": w(wi.b_unit_split()), "ws": w(wi.word_structure()), "syn": wi.synonym_group_ids()}))
}

fn wi_view(wi: &sudachi::dic::lexicon::word_infos::WordInfo) -> Value {
    let w = |v: &[WordId]| v.iter().map(|x| json!([x.dic(), x.word()])).collect::<Vec<_>>();
    json!({"surface": cps(wi.surface()), "hwl": wi.head_word_length(), "pos": wi.pos_id(), "norm": cps(wi.normalized_form()), "dform": cps(wi.dictionary_form()),
        "reading": cps(wi.reading_form()), "a": w(wi.a_unit_split()), "b": w(wi.b_unit_split()), "ws": w(wi.word_structure()), "syn": wi.synonym_group_ids()})
}

/// the fields named by `bits` of a view
fn restrict(v: &Value, bits: u32) -> Value {
    let mut m = serde_json::Map::new();
    for (name, bit) in FIELD_BITS.iter() {
        if bits & bit != 0 { m.insert(name.to_string(), v[*name].clone()); }
    }
    Value::Object(m)
}

/// A small system dictionary whose split units have splits of their own (a unit of a C word is a B word with A units):
/// what is read for a unit must not depend on the mode that produced it.
const NESTED_LEX: &str = "東,7,7,4675,東,名詞,普通名詞,一般,*,*,*,ヒガシ,東,*,A,*,*,*,*\n京,7,7,4675,京,名詞,普通名詞,一般,*,*,*,キョウ,京,*,A,*,*,*,*\n都,8,8,2914,都,名詞,普通名詞,一般,*,*,*,ト,都,*,A,*,*,*,*\n東京,6,6,2816,東京,名詞,固有名詞,地名,一般,*,*,トウキョウ,東京,*,B,0/1,*,0/1,1/7\n東京都,6,8,1320,東京都,名詞,固有名詞,地名,一般,*,*,トウキョウト,東京都,*,C,3/2,3/2,3/2,2/9\n京都,6,6,5293,京都,名詞,固有名詞,地名,一般,*,*,キョウト,京都,*,B,1/2,*,1/2,*\n東京都京都,6,6,293,東京都京都,名詞,固有名詞,地名,一般,*,*,トウキョウトキョウト,東京都京都,*,C,3/2/5,4/5,4/5,*\nに,3,3,4481,に,助詞,格助詞,*,*,*,*,ニ,に,*,A,*,*,*,*\n";
const NESTED_TEXTS: [&str; 6] = ["東京都", "東京都京都", "東京都に京都", "京都東京", "に東京都京都に東", "東京"];

fn nested_world() -> tok::World {
    let sys = crate::dicts::build_system(NESTED_LEX.as_bytes(), &crate::dicts::read("/repo/sudachi/tests/resources/matrix_10x10.def")).expect("nested dictionary");
    let res = crate::dicts::resource_dir("fixture", &[("char.def", "/repo/sudachi/tests/resources/char.def")]);
    let cfg = r#"{"characterDefinitionFile":"char.def","inputTextPlugin":[],"oovProviderPlugin":[{"class":"com.worksap.nlp.sudachi.SimpleOovPlugin","oovPOS":["名詞","普通名詞","一般","*","*","*"],"leftId":8,"rightId":8,"cost":6000}],"pathRewritePlugin":[]}"#;
    let dict = crate::dicts::load(cfg, &res, sys, vec![]).expect("nested world");
    tok::World { name: "nested".into(), dict: std::rc::Rc::new(dict), meta: json!({"n_path_rewrite": 0}) }
}

pub fn record(args: &[String]) -> i32 {
    quiet_panics();
    let out = &args[0];
    let seed = arg_u64(args, "--seed", 1);
    let nsub = arg_u64(args, "--subsets", 48) as usize; // subsets sampled per word / per text (1024 = all)
    let ntexts = arg_u64(args, "--texts", 60) as usize;
    let mut tr = Trace::create(out);
    let mut rng = Rng::new(seed);
    let worlds = tok::fixture_worlds();
    // (a) word level, on the "full" world's lexicon set (system + two user dictionaries)
    let w0 = &worlds[3];
    let sizes = [("lex.csv", 0u8), ("user1.csv", 1), ("user2.csv", 2)];
    for (f, dic) in sizes {
        let n = read_lines(&format!("/repo/sudachi/tests/resources/{}", f)).iter().filter(|l| !l.trim().is_empty()).count();
        for w in 0..n {
            let wid = WordId::new(dic, w as u32);
            let full = match catch(std::panic::AssertUnwindSafe(|| wview(&w0.dict, wid, InfoSubset::all()))) { Ok(Ok(v)) => v, _ => continue };
            let all = nsub >= 1024;
            let count = if all { 1024 } else { nsub };
            for k in 0..count {
                let bits = if all { k as u32 } else if k < 10 { 1u32 << k } else { rng.below(1024) as u32 };
                let s = InfoSubset::from_bits_truncate(bits).normalize();
                match catch(std::panic::AssertUnwindSafe(|| wview(&w0.dict, wid, s))) {
                    Ok(Ok(v)) => {
                        let mut req = serde_json::Map::new();
                        let mut fl = serde_json::Map::new();
                        for (name, bit) in FIELD_BITS.iter() {
                            if bits & bit != 0 { req.insert(name.to_string(), v[*name].clone()); fl.insert(name.to_string(), full[*name].clone()); }
                        }
                        tr.emit(json!({"ev": "wsub", "dic": dic, "w": w, "bits": bits, "res": "ok", "req": req, "full": fl}));
                    }
                    Ok(Err(e)) => tr.emit(json!({"ev": "wsub", "dic": dic, "w": w, "bits": bits, "res": "err", "msg": e})),
                    Err(m) => tr.emit(json!({"ev": "wsub", "dic": dic, "w": w, "bits": bits, "res": "panic", "msg": m})),
                }
            }
        }
    }
    // (b) tokenizer level: the fixture worlds with and without path-rewrite plugins, and a world whose split units have units of their own
    let nested = nested_world();
    let mut texts_v: Vec<String> = texts::FIXTURE_SENTENCES.iter().take(40).map(|s| s.to_string()).collect();
    for _ in 0..ntexts { texts_v.push(texts::random_text(&mut rng, 7)); }
    let mut jobs: Vec<(&tok::World, String)> = Vec::new();
    for (ti, text) in texts_v.iter().enumerate() {
        jobs.push((if ti % 2 == 0 { &worlds[3] } else { &worlds[6] }, text.clone())); // "full" (with path-rewrite plugins) / "norewrite"
    }
    for t in NESTED_TEXTS { jobs.push((&nested, t.to_string())); }
    for (ji, (world, text)) in jobs.iter().enumerate() {
        let plain = world.meta["n_path_rewrite"] == 0;
        let small = world.name == "nested" || ji < 6;
        for mi in 0..3 {
            let mode = tok::mode_of(mi);
            let reference = analyse(world, mode, 1023, 0, text);
            // every order of calls with the empty / surface-only / plugin-covering / split requests, then sampled requests
            let mut reqs: Vec<(u32, usize)> = Vec::new();
            if small { for b in [0u32, 1, 13, 64, 128, 77, 1023] { for o in 0..NORDERS { reqs.push((b, o)); } } }
            else { for (k, b) in [0u32, 13, 4, 77, 64 | 128].iter().enumerate() { reqs.push((*b, (k + ji) % NORDERS)); } }
            for k in 0..(nsub / 4).max(6) { reqs.push((rng.below(1024) as u32, (k + ji) % NORDERS)); }
            for (bits, order) in reqs {
                let got = analyse(world, mode, bits, order, text);
                tr.emit(json!({"ev": "tsub", "world": world.name, "plain": plain, "mode": mi, "bits": bits, "order": order, "text": cps(text), "nbytes": text.len(),
                               "res": got.0, "ms": got.1, "req": got.2, "lreq": got.3, "fres": reference.0, "full": reference.1, "freq": restrict_all(&reference.4, bits)}));
            }
        }
    }
    let n = tr.finish();
    println!("{}", json!({"events": n}));
    0
}

pub const NORDERS: usize = 6;

fn restrict_all(views: &[Value], bits: u32) -> Vec<Value> { views.iter().map(|v| restrict(v, bits)).collect() }

/// The request is `bits` (1023 = every field); the tokenizer ends in `mode` after one of these call orders:
///  0: create(mode), set_subset          1: create(C), set_subset, set_mode          2: create(C), set_mode, set_subset, set_mode again
///  3: create(A), set_subset, set_mode   4: create(B), set_subset, set_mode(C), set_mode
///  5: create(mode), set_subset, an analysis in each other mode in between (set_mode away and back, as a per-call mode override does)
/// Returns (outcome, morphemes as [begin,end,dic,word], the requested fields of every morpheme as its word information shows them,
/// the same fields of the same word read from the lexicon with every field loaded (null for OOV and merged tokens), every field as shown).
fn analyse(world: &tok::World, mode: Mode, bits: u32, order: usize, text: &str) -> (String, Vec<Value>, Vec<Value>, Vec<Value>, Vec<Value>) {
    let subset = InfoSubset::from_bits_truncate(bits);
    let r = catch(std::panic::AssertUnwindSafe(|| -> Result<(Vec<Value>, Vec<Value>, Vec<Value>, Vec<Value>), String> {
        let d = || world.dict.clone();
        let mut t = match order {
            0 => { let mut t = StatefulTokenizer::new(d(), mode); t.set_subset(subset); t }
            1 => { let mut t = StatefulTokenizer::new(d(), Mode::C); t.set_subset(subset); t.set_mode(mode); t }
            2 => { let mut t = StatefulTokenizer::new(d(), Mode::C); t.set_mode(mode); t.set_subset(subset); t.set_mode(mode); t }
            3 => { let mut t = StatefulTokenizer::new(d(), Mode::A); t.set_subset(subset); t.set_mode(mode); t }
            4 => { let mut t = StatefulTokenizer::new(d(), Mode::B); t.set_subset(subset); t.set_mode(Mode::C); t.set_mode(mode); t }
            _ => {
                let mut t = StatefulTokenizer::new(d(), mode);
                t.set_subset(subset);
                for other in [Mode::A, Mode::B, Mode::C] {
                    if other == mode { continue; }
                    let old = t.set_mode(other);
                    t.reset().push_str(text);
                    let _ = t.do_tokenize();
                    t.set_mode(old);
                }
                t
            }
        };
        t.reset().push_str(text);
        t.do_tokenize().map_err(|e| format!("{:?}", e))?;
        let mut ml = MorphemeList::empty(world.dict.clone());
        ml.collect_results(&mut t).map_err(|e| format!("{:?}", e))?;
        let ms = ml.iter().map(|m| json!([m.begin(), m.end(), m.word_id().dic(), m.word_id().word()])).collect();
        let shown: Vec<Value> = ml.iter().map(|m| wi_view(m.get_word_info())).collect();
        let req = shown.iter().map(|v| restrict(v, bits)).collect();
        let plain = world.meta["n_path_rewrite"] == 0;
        let lreq = ml.iter().map(|m| {
            if !plain || m.is_oov() { return json!({"none": 1}); }
            match world.dict.lexicon().get_word_info_subset(m.word_id(), InfoSubset::all()) { Ok(wi) => restrict(&wi_view(&wi), bits), Err(_) => json!({"none": 1}) }
        }).collect();
        Ok((ms, req, lreq, shown))
    }));
    match r {
        Ok(Ok(v)) => ("ok".into(), v.0, v.1, v.2, v.3),
        Ok(Err(_)) => ("err".into(), vec![], vec![], vec![], vec![]),
        Err(_) => ("panic".into(), vec![], vec![], vec![], vec![]),
    }
}
