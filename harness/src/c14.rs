//! C14 - path-rewrite plugins only merge adjacent tokens.  I->S recorder: analyses with the
//! numeral / katakana joining plugins in several settings and orders (hook H3 gives the path
//! before and after every plugin), plus the same analysis without path-rewrite plugins.
use crate::dicts;
use crate::tok;
use crate::util::*;
use serde_json::{json, Value};
use std::rc::Rc;
use sudachi::analysis::stateful_tokenizer::StatefulTokenizer;
use sudachi::analysis::stateless_tokenizer::DictionaryAccess;
use sudachi::dic::dictionary::JapaneseDictionary;
use sudachi::prelude::*;

fn lexicon() -> String {
    let mut lex = String::new();
    for c in "0123456789〇一二三四五六七八九十百千万億兆".chars() {
        lex.push_str(&format!("{c},1,1,100,{c},名詞,数詞,*,*,*,*,{c},{c},*,A,*,*,*,*\n", c = c));
    }
    lex.push_str("\"\\u002c\",2,2,100,\"\\u002c\",補助記号,読点,*,*,*,*,\"\\u002c\",\"\\u002c\",*,A,*,*,*,*\n");
    lex.push_str(".,2,2,100,.,補助記号,句点,*,*,*,*,.,.,*,A,*,*,*,*\n");
    for (w, pos) in [("円", "名詞,普通名詞,助数詞可能,*,*,*"), ("は", "助詞,係助詞,*,*,*,*"), ("アイ", "名詞,普通名詞,一般,*,*,*"), ("アイウ", "名詞,固有名詞,一般,*,*,*"),
                     ("ス", "名詞,普通名詞,一般,*,*,*"), ("ー", "補助記号,一般,*,*,*,*"), ("二千", "名詞,固有名詞,一般,*,*,*"), ("カタカナ", "名詞,普通名詞,一般,*,*,*")] {
        lex.push_str(&format!("{w},3,3,50,{w},{pos},ヨミ,{w},*,A,*,*,*,*\n", w = w, pos = pos));
    }
    // compounds with declared A/B units (rows 31 = アイウ, 30 = アイ, 32 = ス, 34 = 二千, 28 = 円): a merged token that STARTS with one must not inherit them
    lex.push_str("アイウアイ,3,3,40,アイウアイ,名詞,固有名詞,一般,*,*,*,ヨミ,アイウアイ,*,C,31/30,31/30,*,*\n");
    lex.push_str("スアイ,3,3,40,スアイ,名詞,普通名詞,一般,*,*,*,ヨミ,スアイ,*,B,32/30,*,*,*\n");
    lex.push_str("二千円,3,3,40,二千円,名詞,普通名詞,一般,*,*,*,ヨミ,二千円,*,C,34/28,34/28,*,*\n");
    lex
}

fn world(plugins: &[(&str, Value)]) -> (Rc<JapaneseDictionary>, Vec<Value>) {
    let mut m = String::from("5 5\n");
    for l in 0..5 { for r in 0..5 { m.push_str(&format!("{} {} {}\n", l, r, 10 + l - r)); } }
    let sys = dicts::build_system(lexicon().as_bytes(), m.as_bytes()).expect("dictionary");
    let res = dicts::resource_dir("c14", &[("char.def", "/repo/resources/char.def")]);
    let pl: Vec<String> = plugins.iter().map(|(_, v)| v.to_string()).collect();
    let cfg = format!(r#"{{"characterDefinitionFile":"char.def","oovProviderPlugin":[{{"class":"com.worksap.nlp.sudachi.SimpleOovPlugin","oovPOS":["補助記号","一般","*","*","*","*"],"userPOS":"allow","leftId":0,"rightId":0,"cost":9000}}],"pathRewritePlugin":[{}]}}"#, pl.join(","));
    let dict = Rc::new(dicts::load(&cfg, &res, sys, vec![]).expect("world loads"));
    let g = dict.grammar();
    let rules: Vec<Value> = plugins.iter().map(|(kind, v)| {
        if *kind == "numeric" {
            json!({"kind": "numeric", "pos": g.get_part_of_speech_id(&["名詞", "数詞", "*", "*", "*", "*"]).unwrap(), "normalize": v.get("enableNormalize").and_then(|x| x.as_bool()).unwrap_or(true)})
        } else {
            let p: Vec<String> = v["oovPOS"].as_array().unwrap().iter().map(|x| x.as_str().unwrap().to_string()).collect();
            json!({"kind": "katakana", "pos": g.get_part_of_speech_id(&p).unwrap(), "normalize": false})
        }
    }).collect();
    (dict, rules)
}

pub fn record(args: &[String]) -> i32 {
    quiet_panics();
    let mut tr = Trace::create(&args[0]);
    let seed = arg_u64(args, "--seed", 1);
    let n = arg_u64(args, "--n", 300) as usize;
    let mut rng = Rng::new(seed);
    let num = |norm: bool| ("numeric", json!({"class": "com.worksap.nlp.sudachi.JoinNumericPlugin", "enableNormalize": norm}));
    let kat = |min: usize, pos: &[&str]| ("katakana", json!({"class": "com.worksap.nlp.sudachi.JoinKatakanaOovPlugin", "oovPOS": pos, "minLength": min}));
    let p1 = ["名詞", "固有名詞", "一般", "*", "*", "*"];
    let p2 = ["名詞", "普通名詞", "一般", "*", "*", "*"];
    let settings: Vec<Vec<(&str, Value)>> = vec![
        vec![num(true), kat(3, &p1)], vec![num(false), kat(1, &p2)], vec![kat(0, &p1), num(true)], vec![num(true)], vec![kat(3, &p2)], vec![kat(2, &p1), num(false)],
    ];
    let (plain, _) = world(&[]);
    let pieces = ["アイウアイ", "スアイ", "二千円", "1", "2", "0", "00", "5", "一", "二", "十", "百", "千", "万", "億", ",", ".", "ア", "イ", "ウ", "ァ", "ー", "アイ", "アイウ", "ス", "カ", "は", "円", "a", "二千", "カタカナ", "ｱ", "あ"];
    let fixtures = ["アイウアイエ", "アイウアイ", "アイウアイァ", "スアイエ", "エアイウアイ", "二千円", "1二千円", "アイウアイ1", "1,234.5円", "123", "二千円", "二千三百", "ァアイウ", "アイウァ", "カタカナ1,000", "1,000カタカナ", "1.", "1,", ",1", "１２３", "アイウエ", "ースア", "アー", "ァ", "1,23,456", "3.14.15", "二千1.5千", "1万2千ア"];
    let mut run = 0usize;
    for plugins in settings.iter() {
        let (dict, rules) = world(plugins);
        tr.emit(json!({"ev": "rules", "run": run + 1, "rules": rules}));
        let w = tok::World { name: "c14".into(), dict: dict.clone(), meta: json!({"n_path_rewrite": plugins.len()}) };
        let mut t = StatefulTokenizer::new(dict.clone(), Mode::C);
        let mut texts: Vec<String> = fixtures.iter().map(|s| s.to_string()).collect();
        for _ in 0..n / settings.len() { let k = 1 + rng.below(8); texts.push((0..k).map(|_| rng.pick_str(&pieces)).collect()); }
        for (ti, text) in texts.iter().enumerate() {
            run += 1;
            // two analyses out of three in mode C, the others in A / B: the split stage follows the plugins
            let mode = match ti % 6 { 1 => Mode::A, 4 => Mode::B, _ => Mode::C };
            tok::record_run(&mut tr, run, &w, &mut t, mode, text, json!({}));
            // the same analysis without any path-rewrite plugin, in the same mode
            let mut t2 = StatefulTokenizer::new(plain.clone(), mode);
            t2.reset().push_str(text);
            let r = catch(std::panic::AssertUnwindSafe(|| -> Result<Vec<usize>, String> {
                t2.do_tokenize().map_err(|e| format!("{:?}", e))?;
                let mut ml = MorphemeList::empty(plain.clone());
                ml.collect_results(&mut t2).map_err(|e| format!("{:?}", e))?;
                let mut b: Vec<usize> = Vec::new();
                for m in ml.iter() { b.push(m.begin_c()); b.push(m.end_c()); }
                b.sort(); b.dedup();
                Ok(b)
            }));
            if let Ok(Ok(b)) = r { tr.emit(json!({"ev": "noplugin", "run": run, "bounds": b, "mode": tok::mode_idx(mode)})); }
        }
    }
    let cnt = tr.finish();
    println!("{}", json!({"events": cnt, "runs": run}));
    0
}

// ------------------------------------------------------------------ S->I replay of the transcribed loops
const KIND_CHARS: [char; 11] = ['1', '0', '十', '万', ',', '.', 'ア', 'カ', 'ァ', 'は', '二'];

fn replay_world(minlen: u64, normalize: bool) -> Rc<JapaneseDictionary> {
    let mut lex = String::new();
    for c in ['1', '0', '十', '万'] { lex.push_str(&format!("{c},1,1,100,{c},名詞,数詞,*,*,*,*,{c},{c},*,A,*,*,*,*\n", c = c)); }
    lex.push_str("\"\\u002c\",2,2,100,\"\\u002c\",補助記号,読点,*,*,*,*,\"\\u002c\",\"\\u002c\",*,A,*,*,*,*\n");
    lex.push_str(".,2,2,100,.,補助記号,句点,*,*,*,*,.,.,*,A,*,*,*,*\n");
    lex.push_str("カ,3,3,100,カ,名詞,普通名詞,一般,*,*,*,カ,カ,*,A,*,*,*,*\n");
    lex.push_str("は,4,4,100,は,助詞,係助詞,*,*,*,*,ハ,は,*,A,*,*,*,*\n");
    lex.push_str("二,3,3,100,二,名詞,普通名詞,一般,*,*,*,ニ,二,*,A,*,*,*,*\n");
    lex.push_str("東,3,3,100,東,名詞,固有名詞,一般,*,*,*,ヒガシ,東,*,A,*,*,*,*\n");
    let mut m = String::from("5 5\n");
    for l in 0..5 { for r in 0..5 { m.push_str(&format!("{} {} 10\n", l, r)); } }
    let sys = dicts::build_system(lex.as_bytes(), m.as_bytes()).expect("dictionary");
    let res = dicts::resource_dir("c14r", &[("char.def", "/repo/resources/char.def")]);
    let cfg = format!(r#"{{"characterDefinitionFile":"char.def","oovProviderPlugin":[{{"class":"com.worksap.nlp.sudachi.SimpleOovPlugin","oovPOS":["未知語","*","*","*","*","*"],"userPOS":"allow","leftId":0,"rightId":0,"cost":9000}}],"pathRewritePlugin":[{{"class":"com.worksap.nlp.sudachi.JoinNumericPlugin","enableNormalize":{}}},{{"class":"com.worksap.nlp.sudachi.JoinKatakanaOovPlugin","oovPOS":["名詞","固有名詞","一般","*","*","*"],"minLength":{}}}]}}"#, normalize, minlen);
    Rc::new(dicts::load(&cfg, &res, sys, vec![]).expect("world loads"))
}

fn pos_kind(dict: &JapaneseDictionary, pos_id: u64) -> &'static str {
    let p = dict.grammar().pos_components(pos_id as u16).join(",");
    match p.as_str() {
        "名詞,数詞,*,*,*,*" => "NUM", "名詞,固有名詞,一般,*,*,*" => "KPOS", "補助記号,読点,*,*,*,*" | "補助記号,句点,*,*,*,*" => "SYM",
        "未知語,*,*,*,*,*" => "OOV", "名詞,普通名詞,一般,*,*,*" => "N", "助詞,係助詞,*,*,*,*" => "P", _ => "?",
    }
}

pub fn replay(args: &[String]) -> i32 {
    quiet_panics();
    let lines = read_replay_lines(&args[0]);
    // the real paths of every enumerated input are also written as a trace (validated by Trace_PathRewrite)
    let mut tr = arg_val(args, "--trace").map(|p| Trace::create(&p));
    let mut last_key: Option<(u64, bool)> = None;
    let mut worlds: std::collections::BTreeMap<(u64, bool), Rc<JapaneseDictionary>> = Default::default();
    let mut mismatches: Vec<Value> = Vec::new();
    let (mut compared, mut skipped) = (0usize, 0usize);
    for (li, v) in lines.iter().enumerate() {
        let key = (v["minlen"].as_u64().unwrap(), v["normalize"].as_bool().unwrap());
        let dict = worlds.entry(key).or_insert_with(|| replay_world(key.0, key.1)).clone();
        let text: String = v["kinds"].as_array().unwrap().iter().map(|k| KIND_CHARS[k.as_u64().unwrap() as usize - 1]).collect();
        sudachi::verif::install();
        let mut tok = StatefulTokenizer::new(dict.clone(), Mode::C);
        tok.reset().push_str(&text);
        let r = catch(std::panic::AssertUnwindSafe(|| tok.do_tokenize()));
        let evs = sudachi::verif::take();
        sudachi::verif::uninstall();
        match r {
            Ok(Ok(())) => {}
            Ok(Err(e)) => { mismatches.push(json!({"line": li, "what": "analysis failed", "text": text, "got": format!("{:?}", e), "abstract": v})); continue; }
            Err(m) => { mismatches.push(json!({"line": li, "what": "panic", "text": text, "got": m, "abstract": v})); continue; }
        }
        if let Some(t) = tr.as_mut() {
            if last_key != Some(key) {
                let g = dict.grammar();
                t.emit(json!({"ev": "rules", "run": li, "rules": [
                    {"kind": "numeric", "pos": g.get_part_of_speech_id(&["名詞", "数詞", "*", "*", "*", "*"]).unwrap(), "normalize": key.1},
                    {"kind": "katakana", "pos": g.get_part_of_speech_id(&["名詞", "固有名詞", "一般", "*", "*", "*"]).unwrap(), "normalize": false}]}));
                last_key = Some(key);
            }
            for e in evs.iter().filter(|e| e["ev"] == "path" && e["stage"] != "split") { let mut e = e.clone(); e["run"] = json!(li); t.emit(e); }
        }
        let stage = |name: &str, i: u64| evs.iter().find(|e| e["ev"] == "path" && e["stage"] == name && e["i"] == i).map(|e| e["nodes"].clone());
        let best = stage("best", 0).unwrap();
        // the abstract input is the path of one-character tokens: only comparable when the real analysis chose exactly that path
        if !best.as_array().unwrap().iter().enumerate().all(|(i, n)| n["b"] == i && n["e"] == i + 1) { skipped += 1; continue; }
        compared += 1;
        let view = |nodes: &Value| -> Vec<Value> { nodes.as_array().unwrap().iter().map(|n| json!({"b": n["b"], "e": n["e"], "norm": n["norm"], "pos": pos_kind(&dict, n["pos"].as_u64().unwrap())})).collect() };
        let want = |k: &str| -> Vec<Value> { v[k].as_array().unwrap().iter().map(|n| json!({"b": n["b"], "e": n["e"], "norm": n["norm"], "pos": n["pos"]})).collect() };
        let got_num = view(&stage("rewrite", 0).unwrap());
        if got_num != want("num") { mismatches.push(json!({"line": li, "what": "path after the numeral plugin", "text": text, "expected": want("num"), "got": got_num, "abstract": v})); }
        let got_kat = view(&stage("rewrite", 1).unwrap());
        if got_kat != want("kat") { mismatches.push(json!({"line": li, "what": "path after the katakana plugin", "text": text, "expected": want("kat"), "got": got_kat, "abstract": v})); }
        if mismatches.len() >= 20 { break; }
    }
    if let Some(t) = tr { t.finish(); }
    println!("{}", json!({"behaviours": lines.len(), "compared": compared, "skipped_other_best_path": skipped, "mismatches": mismatches}));
    0
}
