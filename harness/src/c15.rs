//! C15 - numeral parser / numeral joining.  S->I: every string TLC enumerated (with the transcribed
//! parser's verdict and the structural oracle's class) is run through the real parser (hook H5) and,
//! embedded in text, through a real tokenizer with a numeral dictionary.
use crate::dicts;
use crate::util::*;
use serde_json::{json, Value};
use std::rc::Rc;
use sudachi::analysis::stateful_tokenizer::StatefulTokenizer;
use sudachi::dic::dictionary::JapaneseDictionary;
use sudachi::plugin::path_rewrite::join_numeric::verif_numeric_parse;
use sudachi::prelude::*;

pub fn parse_cmd(args: &[String]) -> i32 {
    for a in args { println!("{} -> {}", a, verif_numeric_parse(a)); }
    0
}

const NUM_POS: &str = "名詞,数詞,*,*,*,*";

/// dictionary in which every numeral character is a one-character word tagged as numeral
pub fn numeral_dict(enable_normalize: bool, with_katakana: bool) -> Rc<JapaneseDictionary> {
    let mut lex = String::new();
    for c in "0123456789〇一二三四五六七八九十百千万億兆".chars() {
        lex.push_str(&format!("{c},1,1,100,{c},{p},{c},{c},*,A,*,*,*,*\n", c = c, p = NUM_POS));
    }
    for (c, esc) in [(',', "\"\\u002c\""), ('.', ".")] {
        let _ = c;
        lex.push_str(&format!("{e},2,2,100,{e},補助記号,読点,*,*,*,*,{e},{e},*,A,*,*,*,*\n", e = esc));
    }
    lex.push_str("円,3,3,100,円,名詞,普通名詞,助数詞可能,*,*,*,エン,円,*,A,*,*,*,*\n");
    lex.push_str("は,4,4,100,は,助詞,係助詞,*,*,*,*,ハ,は,*,A,*,*,*,*\n");
    let mut m = String::from("5 5\n");
    for l in 0..5 { for r in 0..5 { m.push_str(&format!("{} {} {}\n", l, r, 10)); } }
    let sys = dicts::build_system(lex.as_bytes(), m.as_bytes()).expect("numeral dictionary");
    let res = dicts::resource_dir("c15", &[("char.def", "/repo/resources/char.def")]);
    let kat = if with_katakana { r#",{"class":"com.worksap.nlp.sudachi.JoinKatakanaOovPlugin","oovPOS":["名詞","普通名詞","一般","*","*","*"],"minLength":3}"# } else { "" };
    let cfg = format!(r#"{{"characterDefinitionFile":"char.def","oovProviderPlugin":[{{"class":"com.worksap.nlp.sudachi.SimpleOovPlugin","oovPOS":["名詞","普通名詞","一般","*","*","*"],"userPOS":"allow","leftId":0,"rightId":0,"cost":30000}}],"pathRewritePlugin":[{{"class":"com.worksap.nlp.sudachi.JoinNumericPlugin","enableNormalize":{}}}{}]}}"#, enable_normalize, kat);
    Rc::new(dicts::load(&cfg, &res, sys, vec![]).expect("numeral dictionary loads"))
}

fn tokens(dict: &Rc<JapaneseDictionary>, text: &str) -> Result<Vec<Value>, String> {
    let mut tok = StatefulTokenizer::new(dict.clone(), Mode::C);
    tok.reset().push_str(text);
    tok.do_tokenize().map_err(|e| format!("{:?}", e))?;
    let mut ml = MorphemeList::empty(dict.clone());
    ml.collect_results(&mut tok).map_err(|e| format!("{:?}", e))?;
    Ok(ml.iter().map(|m| json!({"s": cps(&m.surface()), "norm": cps(m.normalized_form()), "pos": m.part_of_speech().join(",")})).collect())
}

/// `vh c15-replay <file>`: per TLC line {s, class, accepted, norm, err, decimal}
pub fn replay(args: &[String]) -> i32 {
    quiet_panics();
    let lines = read_replay_lines(&args[0]);
    let tokenize_every = arg_u64(args, "--tokenize-every", 7) as usize;
    let dict = numeral_dict(true, false);
    let mut mismatches: Vec<Value> = Vec::new();
    let mut parsed = 0usize;
    let mut tokenized = 0usize;
    let mut tolerated = 0usize;
    let mut drift = 0usize;
    for (li, v) in lines.iter().enumerate() {
        let s = from_cps(&v["s"]);
        parsed += 1;
        let r = match catch(std::panic::AssertUnwindSafe(|| verif_numeric_parse(&s))) { Ok(r) => r, Err(m) => { mismatches.push(json!({"what": "parser panic", "s": s, "got": m, "abstract": v})); continue; } };
        // (a) not gating: the transcribed parser and the real one should step alike (reported as drift)
        let norm: String = from_cps(&v["norm"]);
        if r["accepted"] != v["accepted"] || (r["accepted"] == true && r["norm"].as_str().unwrap() != norm) || r["err"].as_str().unwrap().to_uppercase() != v["err"].as_str().unwrap() {
            drift += 1;
        }
        // (b) gating: the verdicts the property fixes, against the values TLC computed from the structural oracle
        let dec = from_cps(&v["decimal"]);
        let accepted = r["accepted"] == true;
        if v["class"] == "wf" && !(accepted && r["norm"].as_str().unwrap() == dec) {
            mismatches.push(json!({"what": "well-formed numeral not accepted with its decimal value", "s": s, "expected": dec, "got": {"accepted": r["accepted"], "norm": r["norm"]}, "abstract": v}));
        }
        if v["class"] != "wf" && accepted && (dec.is_empty() || r["norm"].as_str().unwrap() != dec) {
            mismatches.push(json!({"what": "string joined into a wrong value", "s": s, "expected": if dec.is_empty() { "(refused: no additive reading)".to_string() } else { dec.clone() }, "got": {"accepted": true, "norm": r["norm"]}, "abstract": v}));
        }
        if v["class"] == "malformed" && r["accepted"] == true { tolerated += 1; }
        // token level: the numeral between two non-numeral words
        let class = v["class"].as_str().unwrap();
        if li % tokenize_every == 0 || class == "wf" && li % 2 == 0 {
            tokenized += 1;
            let text = format!("は{}円", s);
            match catch(std::panic::AssertUnwindSafe(|| tokens(&dict, &text))) {
                Ok(Ok(ts)) => {
                    if class == "wf" {
                        // one morpheme carrying the decimal rendering
                        let ok = ts.len() == 3 && from_cps(&ts[1]["s"]) == s && from_cps(&ts[1]["norm"]) == dec;
                        if !ok { mismatches.push(json!({"what": "well-formed numeral is not one token with its decimal value", "text": text, "expected": dec, "got": ts, "abstract": v})); }
                    } else {
                        // not a well-formed numeral: if it is joined as a whole, it must carry its additive reading
                        for t in &ts {
                            let surf = from_cps(&t["s"]);
                            if surf.chars().count() > 1 && surf == s && (dec.is_empty() || from_cps(&t["norm"]) != dec) {
                                mismatches.push(json!({"what": "numeral joined into a wrong value", "text": text, "expected": dec, "got": ts, "abstract": v}));
                            }
                        }
                    }
                }
                Ok(Err(e)) => mismatches.push(json!({"what": "analysis failed", "text": text, "got": e, "abstract": v})),
                Err(m) => mismatches.push(json!({"what": "analysis panicked", "text": text, "got": m, "abstract": v})),
            }
        }
        if mismatches.len() >= 20 { break; }
    }
    println!("{}", json!({"behaviours": lines.len(), "parsed": parsed, "tokenized": tokenized, "tolerated_joins": tolerated, "transcription_drift": drift, "mismatches": mismatches}));
    0
}

// ------------------------------------------------------------------ I->S recorder
const KD: [&str; 10] = ["〇", "一", "二", "三", "四", "五", "六", "七", "八", "九"];

fn render_group(rng: &mut Rng, v: u32, first: bool) -> String {
    // a value 1..9999 in one of several spellings
    match rng.below(4) {
        0 => v.to_string(),
        1 => { let s = v.to_string(); if s.len() == 4 && first && rng.chance(1, 2) { format!("{},{}", &s[..1], &s[1..]) } else { s } }
        2 => v.to_string().chars().map(|c| KD[c.to_digit(10).unwrap() as usize]).collect(),
        _ => {
            let mut s = String::new();
            let ds = [v / 1000 % 10, v / 100 % 10, v / 10 % 10, v % 10];
            for (i, u) in ["千", "百", "十"].iter().enumerate() {
                let d = ds[i];
                if d == 0 { continue; }
                if d > 1 || rng.chance(1, 3) { if rng.chance(1, 2) { s.push_str(KD[d as usize]); } else { s.push_str(&d.to_string()); } }
                s.push_str(u);
            }
            if ds[3] > 0 { if rng.chance(1, 2) { s.push_str(KD[ds[3] as usize]); } else { s.push_str(&ds[3].to_string()); } }
            s
        }
    }
}

fn random_numeral(rng: &mut Rng) -> String {
    match rng.below(7) {
        0 => { // long plain digit string, arbitrarily large, maybe separators / fraction / leading zeros
            let n = 1 + rng.below(40);
            let mut ds: String = (0..n).map(|_| char::from_digit(rng.below(10) as u32, 10).unwrap()).collect();
            if rng.chance(1, 3) && !ds.starts_with('0') && n > 3 {
                let mut out = String::new();
                let first = n % 3;
                for (i, c) in ds.chars().enumerate() { if i > 0 && i >= first && (i - first) % 3 == 0 && !(first == 0 && i == 0) { out.push(','); } out.push(c); }
                ds = out.trim_start_matches(',').to_string();
            }
            if rng.chance(1, 3) { ds.push('.'); for _ in 0..(1 + rng.below(5)) { ds.push(char::from_digit(rng.below(10) as u32, 10).unwrap()); } }
            ds
        }
        1 => { let n = 1 + rng.below(12); (0..n).map(|_| KD[rng.below(10)]).collect() }
        2 => { // fraction with a unit
            let u = *rng.pick(&["千", "万", "億", "兆"]);
            format!("{}.{}{}", 1 + rng.below(9), 1 + rng.below(99), u)
        }
        _ => { // unit numeral from a value structure
            let mut s = String::new();
            let mut first = true;
            for u in ["兆", "億", "万", ""] {
                if rng.chance(2, 5) { continue; }
                let v = 1 + rng.below(9999) as u32;
                let g = if rng.chance(1, 5) {
                    // a fractional coefficient, possibly on a small unit
                    format!("{}.{}{}", 1 + rng.below(9), 1 + rng.below(99), *rng.pick(&["", "千", "百"]))
                } else {
                    render_group(rng, v, first)
                };
                s.push_str(&g);
                s.push_str(u);
                first = false;
            }
            if s.is_empty() { s.push_str("十"); }
            s
        }
    }
}

fn near_miss(rng: &mut Rng, s: &str) -> String {
    let cs: Vec<char> = s.chars().collect();
    let mut v = cs.clone();
    match rng.below(7) {
        0 => { let i = rng.below(v.len() + 1); v.insert(i, ','); }
        1 => { v.push('.'); }
        2 => { let i = rng.below(v.len()); let u = *rng.pick(&['十', '百', '千', '万', '億', '兆']); v.insert(i, u); }
        3 => { if v.len() > 1 { let i = rng.below(v.len() - 1); v.swap(i, i + 1); } }
        4 => { let i = rng.below(v.len()); v.insert(i, '.'); }
        5 => { for c in ['1', '.', '5', '千', '6', '0', '0'] { v.push(c); } v.push(if rng.chance(1, 2) { '.' } else { ',' }); }
        _ => { if let Some(i) = v.iter().position(|c| *c == ',') { v.remove(i); let j = (i + 1).min(v.len()); v.insert(j, ','); } else { v.insert(0, ','); } }
    }
    v.into_iter().collect()
}

pub fn record(args: &[String]) -> i32 {
    quiet_panics();
    let mut tr = Trace::create(&args[0]);
    let seed = arg_u64(args, "--seed", 1);
    let n = arg_u64(args, "--n", 400) as usize;
    let mut rng = Rng::new(seed);
    let dict = numeral_dict(true, true);
    let fixtures = ["1000", "001000", "〇一〇〇〇", "00.1000", "000", "二十七", "千三百二十七", "千十七", "三千二百十七", "千", "万", "5万", "三千二百十七万", "1.5千", "1.5百万", "1.5百万1.5千20",
        "1.5千5百", "1.5千500", "6.", "6.ア", ".6", "1,000", "0,000", "000,000", "2,4", "1000,00", "一,億", "1,,000", "123,456,789", "1,234.56", "二〇〇〇万", "一億三千万", "六三四", "1,234,567.89", "12,345,6", "二万1.5千", "1.5億2,300", "3.2兆4,500.75",
        // groups that do not add up, followed by a dangling separator (the part before the separator is not a numeral either)
        "1.5千600.", "3.27万2604.", "1.5千600,", "二千三千.", "1万2万,", "1.5千600", "3.27万2604", "7,726兆955億7.16万8637."];
    // some left contexts hold separators that cannot belong to a numeral, followed by other tokens: what they switch off must be back on for `s`
    let lefts = ["は", "", "ア", "、", "カタカナ", "円", "円,約と", "版.約は", "1,23,と", "1.2.3.は", ",は", ".ア", "円,.は"];
    let rights = ["円", "", "は", "ア", "。", "カ"];
    let mut run = 0usize;
    let mut cases: Vec<String> = fixtures.iter().map(|s| s.to_string()).collect();
    for _ in 0..n { let w = random_numeral(&mut rng); if rng.chance(1, 3) { cases.push(near_miss(&mut rng, &w)); } cases.push(w); }
    for s in cases.iter() {
        run += 1;
        let p = match catch(std::panic::AssertUnwindSafe(|| verif_numeric_parse(s))) { Ok(p) => p, Err(m) => { tr.emit(json!({"ev": "parse", "run": run, "s": cps(s), "panic": m})); continue; } };
        let steps: Vec<Value> = p["steps"].as_array().unwrap().iter().map(|st| {
            let x = &st["st"];
            json!({"c": st["c"], "ok": st["ok"], "p": {"dl": x["dl"], "first": x["first"], "comma": x["comma"], "hang": x["hang"], "err": x["err"].as_str().unwrap().to_uppercase(),
                   "total": x["total"], "sub": x["sub"], "tmp": x["tmp"]}})
        }).collect();
        tr.emit(json!({"ev": "parse", "run": run, "s": cps(s), "steps": steps, "accepted": p["accepted"], "err": p["err"].as_str().unwrap().to_uppercase(), "norm": cps(p["norm"].as_str().unwrap())}));
        let (l, r) = (*rng.pick(&lefts), *rng.pick(&rights));
        let text = format!("{}{}{}", l, s, r);
        match catch(std::panic::AssertUnwindSafe(|| tokens(&dict, &text))) {
            Ok(Ok(ts)) => tr.emit(json!({"ev": "join", "run": run, "s": cps(s), "left": cps(l), "right": cps(r), "tokens": ts.iter().map(|t| json!({"s": t["s"], "norm": t["norm"], "num": t["pos"].as_str().unwrap().starts_with("名詞,数詞")})).collect::<Vec<_>>()})),
            Ok(Err(e)) => tr.emit(json!({"ev": "join", "run": run, "s": cps(s), "err": e})),
            Err(m) => tr.emit(json!({"ev": "join", "run": run, "s": cps(s), "err": format!("panic {}", m)})),
        }
    }
    let n = tr.finish();
    println!("{}", json!({"events": n, "runs": run}));
    0
}
