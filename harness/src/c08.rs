//! C08/C01 (map part) - S->I replay of TLC-enumerated edit histories on the real InputBuffer.
use crate::dicts;
use crate::util::*;
use serde_json::{json, Value};
use sudachi::analysis::stateless_tokenizer::DictionaryAccess;
use sudachi::input_text::InputBuffer;
use sudachi::analysis::Node;
use sudachi::analysis::node::ResultNode;
use sudachi::dic::subset::InfoSubset;
use sudachi::dic::word_id::WordId;
use sudachi::prelude::MorphemeList;

fn cps_of(v: &Value) -> Vec<u32> {
    v.as_array().unwrap().iter().map(|x| x.as_u64().unwrap() as u32).collect()
}

pub fn replay(args: &[String]) -> i32 {
    quiet_panics();
    let path = args.last().unwrap();
    let lines = read_replay_lines(path);
    let (sys, _) = dicts::test_dict_bytes(false);
    let res = dicts::resource_dir("test", &[("char.def", "/repo/sudachi/tests/resources/char.def")]);
    let dict = dicts::load(
        r#"{"oovProviderPlugin":[{"class":"com.worksap.nlp.sudachi.SimpleOovPlugin","oovPOS":["名詞","普通名詞","一般","*","*","*"],"leftId":8,"rightId":8,"cost":6000}]}"#,
        &res, sys, vec![]).expect("dictionary");
    let mut mismatches: Vec<Value> = Vec::new();
    let mut steps = 0usize;
    for (li, v) in lines.iter().enumerate() {
        let hist = v["hist"].as_array().unwrap();
        let text = from_cps(&hist[0]["text"]);
        let r = catch(std::panic::AssertUnwindSafe(|| -> Option<Value> {
            let mut buf = InputBuffer::new();
            buf.reset().push_str(&text);
            if buf.start_build().is_err() {
                return Some(json!({"step": 0, "what": "start_build failed"}));
            }
            let mut alive = true;
            for (bi, batch) in hist[1..].iter().enumerate() {
                steps += 1;
                let ops: Vec<(usize, usize, String)> = batch["ops"].as_array().unwrap().iter()
                    .map(|o| (o["s"].as_u64().unwrap() as usize, o["e"].as_u64().unwrap() as usize, from_cps(&o["w"]))).collect();
                let variant = (li + bi) % 3;
                let held: Vec<String> = ops.iter().map(|o| o.2.clone()).collect();
                let held_ref: &Vec<String> = unsafe { std::mem::transmute(&held) }; // lives for the whole closure call
                let r = buf.with_editor(|_, mut ed| {
                    for (k, (s, e, w)) in ops.iter().enumerate() {
                        match variant {
                            0 => ed.replace_own(*s..*e, w.clone()),
                            1 => ed.replace_ref(*s..*e, held_ref[k].as_str()),
                            _ => {
                                let mut it = w.chars();
                                match it.next() {
                                    None => ed.replace_ref(*s..*e, ""),
                                    Some(c) => ed.replace_char_iter(*s..*e, c, it),
                                }
                            }
                        }
                    }
                    Ok(ed)
                });
                let want_st = batch["st"].as_str().unwrap();
                match (&r, want_st) {
                    (Ok(()), "rw") => {}
                    (Err(_), "toolong") => { alive = false; break; }
                    _ => return Some(json!({"step": bi + 1, "what": "outcome", "expected": want_st, "got": format!("{:?}", r.is_ok())})),
                }
                let got_mod = cps(buf.current());
                if got_mod != cps_of(&batch["mod"]) {
                    return Some(json!({"step": bi + 1, "what": "mod", "expected": batch["mod"], "got": got_mod}));
                }
                let mut got_mb: Vec<usize> = buf.current().char_indices().map(|(b, _)| buf.get_original_index(b)).collect();
                got_mb.push(buf.get_original_index(buf.current().len()));
                let want_mb: Vec<usize> = batch["mb"].as_array().unwrap().iter().map(|x| x.as_u64().unwrap() as usize).collect();
                if got_mb != want_mb {
                    return Some(json!({"step": bi + 1, "what": "m2o at boundaries", "expected": want_mb, "got": got_mb}));
                }
            }
            if alive && !buf.current().is_empty() {
                if buf.build(dict.grammar()).is_err() {
                    return Some(json!({"step": hist.len(), "what": "build failed"}));
                }
                let n = buf.current_chars().len();
                let got_oc: Vec<usize> = (0..=n).map(|i| buf.to_orig_char_idx(i)).collect();
                let want_oc: Vec<usize> = v["oc"].as_array().unwrap().iter().map(|x| x.as_u64().unwrap() as usize).collect();
                if got_oc != want_oc {
                    return Some(json!({"step": hist.len(), "what": "original code-point index at boundaries", "expected": want_oc, "got": got_oc}));
                }
                let last = hist.last().unwrap();
                let got_ob: Vec<usize> = (0..=n).map(|i| buf.to_orig_byte_idx(i)).collect();
                let want_mb: Vec<usize> = last["mb"].as_array().unwrap().iter().map(|x| x.as_u64().unwrap() as usize).collect();
                if hist.len() > 1 && got_ob != want_mb {
                    return Some(json!({"step": hist.len(), "what": "to_orig_byte_idx", "expected": want_mb, "got": got_ob}));
                }
            }
            // morphemes covering one character each, read back through the public Morpheme accessors
            if alive && !buf.current().is_empty() {
                let n = buf.current_chars().len();
                let offs: Vec<usize> = (0..=n).map(|i| buf.to_curr_byte_idx(i)).collect();
                let nodes: Vec<ResultNode> = (0..n).map(|i| {
                    ResultNode::new(Node::new(i as u16, (i + 1) as u16, 0, 0, 0, WordId::oov(0)), 0, offs[i] as u16, offs[i + 1] as u16, Default::default())
                }).collect();
                let list = MorphemeList::from_components(&dict, buf, nodes, InfoSubset::all());
                let tiles = v["tiles"].as_array().unwrap();
                if tiles.len() != list.len() {
                    return Some(json!({"step": hist.len(), "what": "number of single-character morphemes", "expected": tiles.len(), "got": list.len()}));
                }
                let oc = v["oc"].as_array().unwrap();
                for (i, m) in list.iter().enumerate() {
                    let got = json!({"b": m.begin(), "e": m.end(), "s": cps(&m.surface())});
                    if got != tiles[i] {
                        return Some(json!({"step": hist.len(), "what": "morpheme begin/end/surface", "index": i, "expected": tiles[i], "got": got}));
                    }
                    if json!(m.begin_c()) != oc[i] || json!(m.end_c()) != oc[i + 1] {
                        return Some(json!({"step": hist.len(), "what": "morpheme begin_c/end_c", "index": i, "expected": [oc[i], oc[i + 1]], "got": [m.begin_c(), m.end_c()]}));
                    }
                }
            }
            None
        }));
        match r {
            Ok(None) => {}
            Ok(Some(mut m)) => {
                m["line"] = json!(li);
                m["abstract"] = v.clone();
                mismatches.push(m);
            }
            Err(msg) => mismatches.push(json!({"line": li, "what": "panic", "got": msg, "abstract": v})),
        }
        if mismatches.len() >= 20 {
            break;
        }
    }
    println!("{}", json!({"behaviours": lines.len(), "steps": steps, "mismatches": mismatches}));
    0
}
