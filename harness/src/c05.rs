//! C05 / C11 - S->I replay of TLC-enumerated lexicon rows through the real compiler, loader and
//! word-info reader (full load = declared data; every field subset agrees with the full load),
//! plus recorders for the repository's own dictionaries.
use crate::dicts;
use crate::util::*;
use serde_json::{json, Value};
use sudachi::analysis::stateless_tokenizer::DictionaryAccess;
use sudachi::dic::build::DictBuilder;
use sudachi::dic::dictionary::JapaneseDictionary;
use sudachi::dic::lexicon::word_infos::WordInfo;
use sudachi::dic::storage::{Storage, SudachiDicData};
use sudachi::dic::subset::InfoSubset;
use sudachi::dic::word_id::WordId;
use sudachi::config::ConfigBuilder;

pub const POS_T: [&str; 3] = ["名詞,普通名詞,一般,*,*,*", "動詞,一般,*,*,*,*", "助詞,格助詞,*,*,*,*"];
const MATRIX1: &[u8] = b"1 1\n0 0 0\n";
const OOV: &str = r#"{"class":"com.worksap.nlp.sudachi.SimpleOovPlugin","oovPOS":["名詞","普通名詞","一般","*","*","*"],"userPOS":"allow","leftId":0,"rightId":0,"cost":1000}"#;

/// abstract string <<letter, length in UTF-16 units>> -> real string
pub fn materialize(v: &Value) -> String {
    let s = &v["s"];
    let c = s[0].as_str().unwrap();
    let n = s[1].as_u64().unwrap() as usize;
    match c {
        "a" => "a".repeat(n),
        "k" => "あ".repeat(n),
        "y" => "𠮷".repeat(n / 2),
        "" => String::new(),
        other => panic!("letter {}", other),
    }
}

fn ids(v: &Value) -> Vec<u64> {
    v.as_array().unwrap().iter().map(|x| x.as_u64().unwrap()).collect()
}

fn slash(v: &[u64]) -> String {
    if v.is_empty() { "*".to_string() } else { v.iter().map(|x| x.to_string()).collect::<Vec<_>>().join("/") }
}

pub fn row_csv(r: &Value) -> String {
    let a = ids(&r["a"]);
    let b = ids(&r["b"]);
    let dic = r["dic"].as_i64().unwrap();
    format!("{},0,0,100,{},{},{},{},{},{},{},{},{},{}\n",
        materialize(&r["key"]), materialize(&r["head"]), POS_T[r["pos"].as_u64().unwrap() as usize],
        materialize(&r["reading"]), materialize(&r["norm"]),
        if dic < 0 { "*".to_string() } else { dic.to_string() },
        if a.is_empty() && b.is_empty() { "A" } else { "C" },
        slash(&a), slash(&b), slash(&ids(&r["ws"])), slash(&ids(&r["syn"])))
}

pub fn compile_fixed_time(csv: &[u8], matrix: &[u8]) -> Result<Vec<u8>, String> {
    let mut b = DictBuilder::new_system();
    b.set_compile_time(std::time::UNIX_EPOCH + std::time::Duration::from_secs(1_600_000_000));
    b.read_conn(matrix).map_err(|e| format!("{:?}", e))?;
    b.read_lexicon(csv).map_err(|e| format!("{:?}", e))?;
    b.resolve().map_err(|e| format!("{:?}", e))?;
    let mut out = Vec::new();
    b.compile(&mut out).map_err(|e| format!("{:?}", e))?;
    Ok(out)
}

fn load_bytes(sys: Storage) -> Result<JapaneseDictionary, String> {
    let res = dicts::resource_dir("c05", &[("char.def", "/repo/sudachi/tests/resources/char.def")]);
    let cfg = format!(r#"{{"characterDefinitionFile":"char.def","oovProviderPlugin":[{}]}}"#, OOV);
    let cfg = ConfigBuilder::from_bytes(cfg.as_bytes()).map_err(|e| format!("{:?}", e))?.resource_path(res).build();
    JapaneseDictionary::from_cfg_storage(&cfg, SudachiDicData::new(sys)).map_err(|e| format!("{:?}", e))
}

/// accessor view of a word info (what the property compares)
pub fn view(dict: &JapaneseDictionary, wi: &WordInfo) -> Value {
    let pos_id = wi.pos_id();
    let pos = if (pos_id as usize) < dict.grammar().pos_list.len() { dict.grammar().pos_components(pos_id).join(",") } else { format!("<pos id {} out of range>", pos_id) };
    json!({
        "surface": wi.surface(), "hwl": wi.head_word_length(), "pos": pos,
        "norm": wi.normalized_form(), "dform": wi.dictionary_form(), "reading": wi.reading_form(),
        "a": wi.a_unit_split().iter().map(|w| json!([w.dic(), w.word()])).collect::<Vec<_>>(),
        "b": wi.b_unit_split().iter().map(|w| json!([w.dic(), w.word()])).collect::<Vec<_>>(),
        "ws": wi.word_structure().iter().map(|w| json!([w.dic(), w.word()])).collect::<Vec<_>>(),
        "syn": wi.synonym_group_ids(),
    })
}

pub const FIELD_BITS: [(&str, u32); 10] = [("surface", 1), ("hwl", 2), ("pos", 4), ("norm", 8), ("dform", 16), ("reading", 32), ("a", 64), ("b", 128), ("ws", 256), ("syn", 512)];

fn expected_view(e: &Value) -> Value {
    let refs = |v: &Value| v.as_array().unwrap().iter().map(|x| json!([0, x])).collect::<Vec<_>>();
    json!({
        "surface": materialize(&e["surface"]), "hwl": e["hwl"], "pos": POS_T[e["pos"].as_u64().unwrap() as usize],
        "norm": materialize(&e["norm"]), "dform": materialize(&e["dform"]), "reading": materialize(&e["reading"]),
        "a": refs(&e["a"]), "b": refs(&e["b"]), "ws": refs(&e["ws"]), "syn": e["syn"],
    })
}

/// `vh c05-replay [--subsets] file`: C05 checks (round trip, determinism, alignment); with
/// --subsets the C11 check (all 1024 subsets, closed by InfoSubset::normalize).
pub fn replay(args: &[String]) -> i32 {
    quiet_panics();
    let path = args.last().unwrap();
    let subsets = args.iter().any(|a| a == "--subsets");
    let lines = read_replay_lines(path);
    let mut mismatches: Vec<Value> = Vec::new();
    let mut rejected = 0usize;
    let mut reads = 0usize;
    for (li, v) in lines.iter().enumerate() {
        let rows = v["rows"].as_array().unwrap();
        let csv: String = rows.iter().map(row_csv).collect();
        let r = catch(std::panic::AssertUnwindSafe(|| -> Result<Option<Value>, String> {
            let bytes = compile_fixed_time(csv.as_bytes(), MATRIX1)?;
            let dict = load_bytes(Storage::Owned(bytes.clone()))?;
            let lex = dict.lexicon();
            if !subsets {
                // determinism
                let again = compile_fixed_time(csv.as_bytes(), MATRIX1)?;
                if again != bytes {
                    return Ok(Some(json!({"what": "two compilations with the same timestamp differ", "expected": bytes.len(), "got": again.len()})));
                }
                // alignment independence: the same bytes at an odd address
                let mut shifted = vec![0u8; bytes.len() + 1];
                shifted[1..].copy_from_slice(&bytes);
                let leaked: &'static [u8] = Box::leak(shifted.into_boxed_slice());
                let dict2 = load_bytes(Storage::Borrowed(&leaked[1..]))?;
                for w in 0..rows.len() {
                    reads += 1;
                    let wid = WordId::new(0, w as u32);
                    let want = expected_view(&v["expected"][w]);
                    let got = view(&dict, &lex.get_word_info(wid).map_err(|e| format!("{:?}", e))?);
                    if got != want {
                        return Ok(Some(json!({"what": "full load differs from the declared row", "word": w, "expected": want, "got": got})));
                    }
                    let got2 = view(&dict2, &dict2.lexicon().get_word_info(wid).map_err(|e| format!("{:?}", e))?);
                    if got2 != want {
                        return Ok(Some(json!({"what": "load at an unaligned address differs from the declared row", "word": w, "expected": want, "got": got2})));
                    }
                    let p = lex.get_word_param(wid);
                    if p != (0, 0, 100) {
                        return Ok(Some(json!({"what": "word parameters", "word": w, "expected": [0, 0, 100], "got": [p.0, p.1, p.2]})));
                    }
                }
            } else {
                for w in 0..rows.len() {
                    let wid = WordId::new(0, w as u32);
                    let want = expected_view(&v["expected"][w]);
                    for bits in 0..1024u32 {
                        reads += 1;
                        let s = InfoSubset::from_bits_truncate(bits).normalize();
                        let got = view(&dict, &lex.get_word_info_subset(wid, s).map_err(|e| format!("{:?}", e))?);
                        for (name, bit) in FIELD_BITS.iter() {
                            if bits & bit != 0 && got[*name] != want[*name] {
                                return Ok(Some(json!({"what": "requested field differs under a subset", "word": w, "subset": bits, "field": name, "expected": want[*name], "got": got[*name]})));
                            }
                        }
                    }
                }
            }
            Ok(None)
        }));
        match r {
            Ok(Ok(None)) => {}
            Ok(Ok(Some(mut m))) => {
                m["line"] = json!(li);
                m["abstract"] = v.clone();
                m["csv"] = json!(csv);
                mismatches.push(m);
            }
            Ok(Err(_)) => rejected += 1,
            Err(msg) => mismatches.push(json!({"line": li, "what": "panic", "got": msg, "abstract": v, "csv": csv})),
        }
        if mismatches.len() >= 20 {
            break;
        }
    }
    println!("{}", json!({"behaviours": lines.len(), "reads": reads, "rejected": rejected, "mismatches": mismatches}));
    0
}

// ------------------------------------------------------------------ I->S recorder (C05)
fn esc(s: &str, rng: &mut Rng) -> String {
    // render a field, using the lexicon's \u escapes for characters the CSV layer would mangle
    // and, now and then, for ordinary characters too
    let mut out = String::new();
    for c in s.chars() {
        if c == ',' || c == '"' || c == '\\' || c == '/' || (c as u32) < 0x20 || rng.chance(1, 12) {
            if (c as u32) <= 0xFFFF && rng.chance(1, 2) { out.push_str(&format!("\\u{:04x}", c as u32)); } else { out.push_str(&format!("\\u{{{:X}}}", c as u32)); }
        } else {
            out.push(c);
        }
    }
    out
}

// '#' and ';' are ordinary letters of a lexicon source (no comment lines, no other delimiter)
const LET: [&str; 14] = ["a", "Z", "あ", "ん", "東", "京", "ア", "𠮷", "𩸽", "é", "1", "・", "#", ";"];

fn rand_str(rng: &mut Rng) -> String {
    // lengths in UTF-16 units around the 1-byte / 2-byte length-prefix boundary
    let units = match rng.below(12) { 0 => 126, 1 => 127, 2 => 128, 3 => 129, 4 => 255, 5 => 300, _ => 1 + rng.below(6) };
    let mut s = String::new();
    let mut n = 0;
    let base = rng.pick_str(&LET).to_string();
    while n < units {
        let piece = if rng.chance(3, 4) { base.as_str() } else { rng.pick_str(&LET) };
        let u: usize = piece.chars().map(|c| c.len_utf16()).sum();
        if n + u > units { s.push('x'); n += 1; } else { s.push_str(piece); n += u; }
    }
    s
}

struct GRow { key: String, head: String, pos: usize, norm: String, reading: String, dic: i64, a: Vec<Value>, b: Vec<Value>, ws: Vec<u64>, syn: Vec<u64>, lid: i64, rid: i64, cost: i64 }

pub fn record(args: &[String]) -> i32 {
    quiet_panics();
    let out = &args[0];
    let seed = arg_u64(args, "--seed", 1);
    let ndicts = arg_u64(args, "--dicts", 20) as usize;
    let mut tr = Trace::create(out);
    let mut rng = Rng::new(seed);
    let mut run = 0usize;
    // ---- generated lexicons + matrices
    for _ in 0..ndicts {
        run += 1;
        let nl = 1 + rng.below(6);
        let nr = if rng.chance(1, 2) { nl } else { 1 + rng.below(6) };
        let mut cells: Vec<(usize, usize, i64)> = Vec::new();
        for lft in 0..nl { for rgt in 0..nr { if rng.chance(5, 6) { cells.push((lft, rgt, rng.range(-32768, 32767))); } } }
        if rng.chance(1, 3) && !cells.is_empty() { let c = *rng.pick(&cells); cells.push((c.0, c.1, rng.range(-9, 9))); } // a later line overrides
        let mut mtext = format!("{} {}\n", nl, nr);
        for (a, b, c) in &cells { mtext.push_str(&format!("{} {} {}\n", a, b, c)); }
        let idmax = nl.min(nr) as i64;
        let nrows = 1 + rng.below(10);
        let mut rows: Vec<GRow> = Vec::new();
        for i in 0..nrows {
            let key = rand_str(&mut rng);
            let head = if rng.chance(2, 3) { key.clone() } else { rand_str(&mut rng) };
            let norm = if rng.chance(1, 2) { head.clone() } else { rand_str(&mut rng) };
            let reading = match rng.below(3) { 0 => head.clone(), 1 => key.clone(), _ => rand_str(&mut rng) };
            let dic = match rng.below(4) { 0 => -1, 1 => i as i64, _ => rng.below(nrows) as i64 };
            // homographs: sometimes a row repeats key, headword, part of speech and reading of an earlier row (cost and other forms differ);
            // an inline reference that names them means the FIRST such row
            let twin = if i > 0 && rng.chance(1, 4) { let t = rng.below(i); if rows[t].key == rows[t].head { Some(t) } else { None } } else { None };
            let (key, head, reading, pos) = match twin { Some(t) => (rows[t].key.clone(), rows[t].head.clone(), rows[t].reading.clone(), rows[t].pos), None => (key, head, reading, rng.below(POS_T.len())) };
            rows.push(GRow { key, head, pos, norm, reading, dic, a: vec![], b: vec![], ws: vec![], syn: vec![], lid: rng.below(idmax as usize) as i64, rid: rng.below(idmax as usize) as i64, cost: rng.range(-32767, 32767) });
        }
        // every fourth lexicon has no references at all (a line the reader loses or adds then shows as shifted entries, not as a refused
        // source) and has lines that begin with '#' and ';'
        let plain = run % 4 == 0;
        if plain {
            for r in rows.iter_mut() { r.dic = -1; }
            let k = rows.len() / 2;
            rows[k].key = format!("#{}", rows[k].key);
            rows[0].key = format!(";{}", rows[0].key);
        }
        // references (numeric and inline) and arrays of 0 / few / 127 items
        for i in 0..nrows {
            if plain { break; }
            let mk = |rng: &mut Rng, rows: &Vec<GRow>| -> Vec<Value> {
                let n = match rng.below(8) { 0 => 127, 1 | 2 => 2 + rng.below(3), _ => 0 };
                (0..n).map(|_| { let t = rng.below(nrows); if rng.chance(1, 3) && rows[t].key == rows[t].head { json!({"k": "inline", "s": cps(&rows[t].key), "p": rows[t].pos, "r": cps(&rows[t].reading), "t": t}) } else { json!({"k": "id", "w": t}) } }).collect()
            };
            let a = mk(&mut rng, &rows); let b = mk(&mut rng, &rows);
            rows[i].a = a; rows[i].b = b;
            rows[i].ws = (0..match rng.below(6) { 0 => 127, 1 => 3, _ => 0 }).map(|_| rng.below(nrows) as u64).collect();
            rows[i].syn = (0..match rng.below(6) { 0 => 127, 1 => 2, _ => 0 }).map(|_| rng.below(4_000_000) as u64).collect();
        }
        let mut csv = String::new();
        for r in &rows {
            let refs = |v: &Vec<Value>, rng: &mut Rng| -> String {
                if v.is_empty() { return "*".into(); }
                v.iter().map(|x| if x["k"] == "id" { x["w"].to_string() } else { let t = x["t"].as_u64().unwrap() as usize; format!("{},{},{}", esc(&rows[t].key, rng), POS_T[rows[t].pos], esc(&rows[t].reading, rng)) }).collect::<Vec<_>>().join("/")
            };
            let (a, b) = (refs(&r.a, &mut rng), refs(&r.b, &mut rng));
            let q = |s: String| if s.contains(',') { format!("\"{}\"", s) } else { s };
            csv.push_str(&format!("{},{},{},{},{},{},{},{},{},{},{},{},{},{}\n", esc(&r.key, &mut rng), r.lid, r.rid, r.cost, esc(&r.head, &mut rng), POS_T[r.pos],
                esc(&r.reading, &mut rng), esc(&r.norm, &mut rng), if r.dic < 0 { "*".into() } else { r.dic.to_string() },
                if r.a.is_empty() && r.b.is_empty() { "A" } else { "C" }, q(a), q(b), slash(&r.ws), slash(&r.syn)));
        }
        let jrows: Vec<Value> = rows.iter().map(|r| json!({"key": cps(&r.key), "head": cps(&r.head), "pos": r.pos, "norm": cps(&r.norm), "reading": cps(&r.reading), "dic": r.dic,
            "a": r.a.iter().map(|x| if x["k"] == "id" { x.clone() } else { json!({"k": "inline", "s": x["s"], "p": x["p"], "r": x["r"]}) }).collect::<Vec<_>>(),
            "b": r.b.iter().map(|x| if x["k"] == "id" { x.clone() } else { json!({"k": "inline", "s": x["s"], "p": x["p"], "r": x["r"]}) }).collect::<Vec<_>>(),
            "ws": r.ws.iter().map(|w| json!({"k": "id", "w": w})).collect::<Vec<_>>(), "syn": r.syn, "lid": r.lid, "rid": r.rid, "cost": r.cost})).collect();
        let res = catch(std::panic::AssertUnwindSafe(|| -> Result<(), String> {
            let bytes = compile_fixed_time(csv.as_bytes(), mtext.as_bytes())?;
            let again = compile_fixed_time(csv.as_bytes(), mtext.as_bytes())?;
            let dict = load_bytes(Storage::Owned(bytes.clone()))?;
            let mut shifted = vec![0u8; bytes.len() + 1];
            shifted[1..].copy_from_slice(&bytes);
            let leaked: &'static [u8] = Box::leak(shifted.into_boxed_slice());
            let dict2 = load_bytes(Storage::Borrowed(&leaked[1..]))?;
            tr.emit(json!({"ev": "rows", "run": run, "rows": jrows, "csv": csv}));
            let mut same = true;
            for w in 0..rows.len() {
                let wid = WordId::new(0, w as u32);
                let p = dict.lexicon().get_word_param(wid);
                let mut v = full_view(&dict, wid)?;
                v["lid"] = json!(p.0); v["rid"] = json!(p.1); v["cost"] = json!(p.2);
                let p2 = dict2.lexicon().get_word_param(wid);
                let mut v2 = full_view(&dict2, wid)?;
                v2["lid"] = json!(p2.0); v2["rid"] = json!(p2.1); v2["cost"] = json!(p2.2);
                same &= v == v2;
                tr.emit(json!({"ev": "winfo", "run": run, "w": w, "view": v}));
            }
            let cm = dict.grammar().conn_matrix();
            let read: Vec<Vec<i64>> = (0..nl).map(|a| (0..nr).map(|b| cm.cost(a as u16, b as u16) as i64).collect()).collect();
            let cm2 = dict2.grammar().conn_matrix();
            let read2: Vec<Vec<i64>> = (0..nl).map(|a| (0..nr).map(|b| cm2.cost(a as u16, b as u16) as i64).collect()).collect();
            same &= read == read2;
            tr.emit(json!({"ev": "conn", "run": run, "nl": nl, "nr": nr, "cells": cells.iter().map(|c| json!([c.0, c.1, c.2])).collect::<Vec<_>>(), "read": read}));
            tr.emit(json!({"ev": "bytes", "run": run, "equal": again == bytes, "unaligned_equal": same, "n": bytes.len()}));
            Ok(())
        }));
        match res {
            Ok(Ok(())) => {}
            Ok(Err(e)) => tr.emit(json!({"ev": "refused", "run": run, "msg": e})),
            Err(m) => tr.emit(json!({"ev": "refused", "run": run, "panic": m})),
        }
    }
    let n = tr.finish();
    println!("{}", json!({"events": n, "runs": run}));
    0
}

fn full_view(dict: &JapaneseDictionary, wid: WordId) -> Result<Value, String> {
    let wi = dict.lexicon().get_word_info(wid).map_err(|e| format!("{:?}", e))?;
    let pos = dict.grammar().pos_components(wi.pos_id()).join(",");
    let posidx = POS_T.iter().position(|p| *p == pos).map(|x| x as i64).unwrap_or(-1);
    let w = |v: &[WordId]| v.iter().map(|x| if x.dic() == 0 { x.word() as i64 } else { -2 }).collect::<Vec<_>>();
    Ok(json!({"surface": cps(wi.surface()), "hwl": wi.head_word_length(), "pos": posidx, "norm": cps(wi.normalized_form()), "dform": cps(wi.dictionary_form()),
        "reading": cps(wi.reading_form()), "a": w(wi.a_unit_split()), "b": w(wi.b_unit_split()), "ws": w(wi.word_structure()), "syn": wi.synonym_group_ids()}))
}

// ------------------------------------------------------------------ front ends of the compiler (library side)
/// `vh c05-sources <dir> --seed S --n N`: N build jobs as files: job<k>/matrix.def, lex<i>.csv (1..3 files, the concatenation
/// is one lexicon), user<i>.csv; some jobs carry a defect (a row with a bad id, a broken matrix line) so that refusals are compared too.
pub fn sources(args: &[String]) -> i32 {
    let dir = std::path::PathBuf::from(&args[0]);
    let seed = arg_u64(args, "--seed", 1);
    let n = arg_u64(args, "--n", 12) as usize;
    let mut rng = Rng::new(seed ^ 0xb11d);
    let mut jobs = Vec::new();
    for k in 0..n {
        let jd = dir.join(format!("job{}", k));
        std::fs::create_dir_all(&jd).unwrap();
        let d = crate::gen::GenDict::random(&mut rng, &crate::gen::LETTERS, 12);
        let mut matrix = d.matrix_text();
        let csv = d.lex_csv();
        let lines: Vec<&str> = csv.lines().collect();
        let nfiles = 1 + rng.below(3.min(lines.len()));
        let mut files = Vec::new();
        let per = (lines.len() + nfiles - 1) / nfiles;
        for (fi, chunk) in lines.chunks(per.max(1)).enumerate() {
            let mut text = chunk.join("\n");
            text.push('\n');
            if k % 5 == 3 && fi == 0 {
                text.push_str("bad,99,99,1,bad,名詞,普通名詞,一般,*,*,*,ヨミ,bad,*,A,*,*,*,*\n"); // ids outside the matrix
            }
            let p = jd.join(format!("lex{}.csv", fi));
            std::fs::write(&p, text).unwrap();
            files.push(p.display().to_string());
        }
        if k % 7 == 5 {
            matrix.push_str("0 0 notanumber\n");
        }
        std::fs::write(jd.join("matrix.def"), &matrix).unwrap();
        // a user lexicon over this system dictionary: existing POS, references by number
        let idmax = d.nl.min(d.nr);
        let mut user = String::new();
        for u in 0..(1 + rng.below(3)) {
            let key: String = (0..2 + rng.below(2)).map(|_| *rng.pick(&crate::gen::LETTERS)).collect();
            user.push_str(&format!("{k}{u},{l},{r},{c},{k}{u},{pos},ヨミ,{k}{u},*,A,*,*,*,*\n", k = key, u = u, l = rng.below(idmax), r = rng.below(idmax), c = rng.range(-500, 9000), pos = crate::gen::POS[rng.below(crate::gen::POS.len())]));
        }
        std::fs::write(jd.join("user.csv"), &user).unwrap();
        let desc = match k % 4 { 0 => String::new(), 1 => format!("job {} description", k), 2 => "説明 ✓".to_string(), _ => "x".repeat(40) };
        jobs.push(json!({"job": k, "dir": jd.display().to_string(), "matrix": jd.join("matrix.def").display().to_string(), "lex": files, "user": jd.join("user.csv").display().to_string(), "desc": desc}));
    }
    // the repository's own fixture sources (split units of several words, user dictionary over it)
    {
        let jd = dir.join(format!("job{}", n));
        std::fs::create_dir_all(&jd).unwrap();
        for f in ["lex.csv", "matrix_10x10.def", "user1.csv"] {
            std::fs::copy(format!("{}/{}", dicts::TEST_RES, f), jd.join(f)).unwrap();
        }
        // one more lexicon file: words with several synonym groups and three-unit splits
        std::fs::write(jd.join("lex_more.csv"), "東京都京都,6,8,5000,東京都京都,名詞,固有名詞,地名,一般,*,*,トウキョウトキョウト,東京都京都,*,C,5/9/3,6/3,5/9/3,1/22/333\n").unwrap();
        jobs.push(json!({"job": n, "dir": jd.display().to_string(), "matrix": jd.join("matrix_10x10.def").display().to_string(),
            "lex": [jd.join("lex.csv").display().to_string(), jd.join("lex_more.csv").display().to_string()], "user": jd.join("user1.csv").display().to_string(), "desc": "fixture sources"}));
    }
    std::fs::write(dir.join("jobs.json"), serde_json::to_string(&jobs).unwrap()).unwrap();
    println!("{}", json!({"jobs": n + 1}));
    0
}

/// `vh c05-libbuild <jobs.json>`: the library builds every job (system, then user over it) into <dir>/lib_system.dic / lib_user.dic
pub fn libbuild(args: &[String]) -> i32 {
    quiet_panics();
    let jobs: Vec<Value> = serde_json::from_str(&std::fs::read_to_string(&args[0]).unwrap()).unwrap();
    let mut out = Vec::new();
    for j in jobs.iter() {
        let dir = std::path::PathBuf::from(j["dir"].as_str().unwrap());
        let desc = j["desc"].as_str().unwrap().to_string();
        let r = catch(std::panic::AssertUnwindSafe(|| -> Result<(), String> {
            let mut b = sudachi::dic::build::DictBuilder::new_system();
            b.set_description(desc.clone());
            b.read_conn(std::path::Path::new(j["matrix"].as_str().unwrap())).map_err(|e| format!("{:?}", e))?;
            for f in j["lex"].as_array().unwrap() {
                b.read_lexicon(std::path::Path::new(f.as_str().unwrap())).map_err(|e| format!("{:?}", e))?;
            }
            b.resolve().map_err(|e| format!("{:?}", e))?;
            let mut bytes = Vec::new();
            b.compile(&mut bytes).map_err(|e| format!("{:?}", e))?;
            std::fs::write(dir.join("lib_system.dic"), &bytes).unwrap();
            Ok(())
        }));
        let sys_ok = matches!(r, Ok(Ok(())));
        out.push(json!({"job": j["job"], "kind": "system", "res": if sys_ok { "ok" } else { "err" }, "file": dir.join("lib_system.dic").display().to_string()}));
        if sys_ok {
            // a user dictionary is built against the LOADED system dictionary; each front end loads it in its own way:
            // the command-line tool with the default configuration, the Python function with a minimal one (no plugins)
            for (kind, minimal) in [("user", false), ("user_min", true)] {
                let r2 = catch(std::panic::AssertUnwindSafe(|| -> Result<(), String> {
                    let cfg = if minimal {
                        sudachi::config::Config::minimal_at(std::path::PathBuf::from(&args[1])).with_system_dic(dir.join("lib_system.dic"))
                    } else {
                        sudachi::config::Config::new(None, None, Some(dir.join("lib_system.dic"))).map_err(|e| format!("{:?}", e))?
                    };
                    let dict = JapaneseDictionary::from_cfg(&cfg).map_err(|e| format!("{:?}", e))?;
                    let mut b = sudachi::dic::build::DictBuilder::new_user(&dict);
                    b.set_description(desc.clone());
                    b.read_lexicon(std::path::Path::new(j["user"].as_str().unwrap())).map_err(|e| format!("{:?}", e))?;
                    b.resolve().map_err(|e| format!("{:?}", e))?;
                    let mut bytes = Vec::new();
                    b.compile(&mut bytes).map_err(|e| format!("{:?}", e))?;
                    std::fs::write(dir.join(format!("lib_{}.dic", kind)), &bytes).unwrap();
                    Ok(())
                }));
                out.push(json!({"job": j["job"], "kind": kind, "res": if matches!(r2, Ok(Ok(()))) { "ok" } else { "err" }, "file": dir.join(format!("lib_{}.dic", kind)).display().to_string(),
                                "msg": match r2 { Ok(Err(e)) => e, Err(m) => m, _ => String::new() }}));
            }
        }
    }
    println!("{}", serde_json::to_string(&out).unwrap());
    0
}

/// `vh c05-libdump <jobs.json> <out.ndjson>`: what the library reads back from every lib_system.dic, loaded the way `sudachi dump` loads
/// it (DictionaryLoader::read_any_dictionary + to_loaded): POS list, matrix size and every cell, parameters and word info of every word
pub fn libdump(args: &[String]) -> i32 {
    quiet_panics();
    let jobs: Vec<Value> = serde_json::from_str(&std::fs::read_to_string(&args[0]).unwrap()).unwrap();
    let mut lines = Vec::new();
    for j in jobs.iter() {
        let p = std::path::PathBuf::from(j["dir"].as_str().unwrap()).join("lib_system.dic");
        let Ok(bytes) = std::fs::read(&p) else { continue };
        let r = catch(std::panic::AssertUnwindSafe(|| -> Result<Value, String> {
            let loader = unsafe { sudachi::dic::DictionaryLoader::read_any_dictionary(&bytes) }.map_err(|e| format!("{:?}", e))?;
            let dict = loader.to_loaded().ok_or("no grammar")?;
            let g = dict.grammar();
            let pos: Vec<Vec<Vec<u32>>> = g.pos_list.iter().map(|p| p.iter().map(|c| cps(c)).collect()).collect();
            let conn = g.conn_matrix();
            let (nl, nr) = (conn.num_left(), conn.num_right());
            let mut cells = Vec::new();
            for l in 0..nl {
                for r in 0..nr {
                    cells.push(conn.cost(l as u16, r as u16) as i64);
                }
            }
            let lex = dict.lexicon();
            let mut words = Vec::new();
            for i in 0..lex.size() {
                let wid = WordId::checked(0, i).map_err(|e| format!("{:?}", e))?;
                let (l, r, c) = lex.get_word_param(wid);
                let wi = lex.get_word_info(wid).map_err(|e| format!("{:?}", e))?;
                let w = |v: &[WordId]| v.iter().map(|x| vec![x.dic() as i64, x.word() as i64]).collect::<Vec<_>>();
                words.push(json!({"l": l, "r": r, "c": c, "surface": cps(wi.surface()), "hwl": wi.head_word_length(), "norm": cps(wi.normalized_form()),
                    "dfw": wi.dictionary_form_word_id(), "reading": cps(wi.reading_form()), "a": w(wi.a_unit_split()), "b": w(wi.b_unit_split()),
                    "ws": w(wi.word_structure()), "syn": wi.synonym_group_ids()}));
            }
            Ok(json!({"ev": "libdump", "run": j["job"], "job": j["job"], "pos": pos, "nl": nl, "nr": nr, "conn": cells, "words": words}))
        }));
        if let Ok(Ok(v)) = r {
            lines.push(serde_json::to_string(&v).unwrap());
        }
    }
    std::fs::write(&args[1], lines.join("\n") + "\n").unwrap();
    println!("{}", json!({"dumped": lines.len()}));
    0
}
