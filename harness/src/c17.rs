//! C17 - character classes.  S->I replay of TLC-enumerated definition files and
//! I->S recording of lookups over every Unicode scalar value.
use crate::util::*;
use serde_json::{json, Value};
use sudachi::dic::category_type::CategoryType;
use sudachi::dic::character_category::CharacterCategory;

const NAMES: [(&str, u32); 17] = [
    ("DEFAULT", 0), ("SPACE", 1), ("KANJI", 2), ("SYMBOL", 3), ("NUMERIC", 4), ("ALPHA", 5),
    ("HIRAGANA", 6), ("KATAKANA", 7), ("KANJINUMERIC", 8), ("GREEK", 9), ("CYRILLIC", 10),
    ("USER1", 11), ("USER2", 12), ("USER3", 13), ("USER4", 14), ("NOOOVBOW", 30), ("NOOOVBOW2", 31),
];

fn bit_name(bit: u32) -> &'static str {
    NAMES.iter().find(|(_, b)| *b == bit).map(|(n, _)| *n).expect("class bit")
}

pub fn bits_of(c: CategoryType) -> Vec<u32> {
    (0..32).filter(|b| c.bits() & (1u32 << b) != 0).collect()
}

fn render(defs: &[(u32, u32, Vec<u32>)]) -> String {
    let mut s = String::from("# generated\n");
    for (lo, hi, cats) in defs {
        let names: Vec<&str> = cats.iter().map(|b| bit_name(*b)).collect();
        if lo == hi {
            s.push_str(&format!("0x{:04X} {}\n", lo, names.join(" ")));
        } else {
            s.push_str(&format!("0x{:04X}..0x{:04X} {}\n", lo, hi, names.join(" ")));
        }
    }
    s
}

/// order-preserving concretisations of abstract code points 0..=n
fn concretisations(n: u32) -> Vec<(&'static str, Vec<u32>)> {
    let ident: Vec<u32> = (0..=n).collect();
    let kana: Vec<u32> = (0..=n).map(|k| 0x3041 + k).collect();
    let split = (n + 1) / 2;
    let gap: Vec<u32> = (0..=n)
        .map(|k| if k < split { 0xD7FF - split + k } else { 0xE000 + (k - split) })
        .collect();
    let top: Vec<u32> = (0..=n).map(|k| 0x10FFFE - n + k).collect();
    let bmp: Vec<u32> = (0..=n).map(|k| 0xFFFE - split + 1 + k).collect();
    // edge maps: the last scalar before the surrogate block / the last scalar value itself is
    // a range end (such files are rejected by the pinned loader; if a loader accepts them the
    // lookups must still be right). Abstract cp n (never inside a range) has no image there and
    // is mapped onto the image of n-1's successor where one exists.
    let gap_edge: Vec<u32> = (0..=n)
        .map(|k| if k < split { 0xD800 - split + k } else { 0xE000 + (k - split) })
        .collect();
    let top_edge: Vec<u32> = (0..=n).map(|k| if k < n { 0x10FFFF - (n - 1) + k } else { 0x10FFFF }).collect();
    vec![("zero", ident), ("kana", kana), ("surrogate-gap", gap), ("top", top), ("bmp-edge", bmp),
         ("gap-edge", gap_edge), ("top-edge", top_edge)]
}

/// abstract class ids (1, 2, 3) -> real class bits, several assignments
const CLASS_MAPS: [[u32; 4]; 3] = [[0, 2, 30, 7], [0, 14, 1, 31], [0, 5, 9, 10]];

pub fn replay(args: &[String]) -> i32 {
    quiet_panics();
    let path = args.last().unwrap();
    let only = arg_val(args, "--only");
    let lines = read_replay_lines(path);
    let mut mismatches: Vec<Value> = Vec::new();
    let mut drift = 0usize;
    let mut runs = 0usize;
    let mut load_fail = 0usize;
    let mut iter_panic: Option<String> = None;
    for (li, v) in lines.iter().enumerate() {
        let lookup = v["lookup"].as_array().unwrap();
        let n = lookup.len() as u32 - 1; // abstract cps 0..=n
        let adefs: Vec<(u32, u32, Vec<u32>)> = v["defs"]
            .as_array()
            .unwrap()
            .iter()
            .map(|d| {
                (
                    d["lo"].as_u64().unwrap() as u32,
                    d["hi"].as_u64().unwrap() as u32,
                    d["cats"].as_array().unwrap().iter().map(|c| c.as_u64().unwrap() as u32).collect(),
                )
            })
            .collect();
        let concs = concretisations(n);
        if let Some(o) = &only {
            // replay of one counterexample: try every class map under the named concretisation
            let _ = o;
        }
        let (cname, cmap) = match &only {
            Some(o) => concs.iter().find(|(nm, _)| nm == o).expect("concretisation"),
            None => &concs[li % concs.len()],
        };
        let clsmap = &CLASS_MAPS[(li / concs.len()) % CLASS_MAPS.len()];
        let defs: Vec<(u32, u32, Vec<u32>)> = adefs
            .iter()
            .map(|(lo, hi, cats)| (cmap[*lo as usize], cmap[*hi as usize], cats.iter().map(|c| clsmap[*c as usize]).collect()))
            .collect();
        let text = render(&defs);
        runs += 1;
        let loaded = catch(|| CharacterCategory::from_reader(text.as_bytes()));
        let cc = match loaded {
            Ok(Ok(cc)) => cc,
            Ok(Err(_)) => {
                load_fail += 1;
                continue;
            }
            Err(msg) => {
                mismatches.push(json!({"line": li, "conc": cname, "panic": msg, "text": text, "abstract": v}));
                continue;
            }
        };
        for k in 0..=n {
            if *cname == "top-edge" && k == n {
                continue; // no scalar value above U+10FFFF
            }
            let mut want: Vec<u32> = lookup[k as usize].as_array().unwrap().iter().map(|c| clsmap[c.as_u64().unwrap() as usize]).collect();
            want.sort();
            let ch = char::from_u32(cmap[k as usize]).unwrap();
            let got = bits_of(cc.get_category_types(ch));
            if got != want {
                mismatches.push(json!({"line": li, "conc": cname, "acp": k, "cp": ch as u32, "expected": want, "got": got, "text": text, "abstract": v}));
                break;
            }
        }
        // compiled boundaries (not fixed by the property): report as drift only
        let mut want_b: Vec<u32> = v["bounds"].as_array().unwrap().iter().map(|b| {
            let b = b.as_u64().unwrap() as u32;
            if b <= n { cmap[b as usize] } else { cmap[n as usize] + 1 }
        }).collect();
        want_b.dedup();
        let got_b = catch(std::panic::AssertUnwindSafe(|| cc.iter().skip(1).map(|(r, _)| r.start as u32).collect::<Vec<u32>>()));
        match got_b {
            Ok(got_b) => {
                if cmap.windows(2).all(|w| w[1] == w[0] + 1) && got_b != want_b {
                    drift += 1;
                }
            }
            Err(_) => {
                if iter_panic.is_none() {
                    iter_panic = Some(text.clone());
                }
                drift += 1;
            }
        }
    }
    println!("{}", json!({"behaviours": lines.len(), "runs": runs, "load_fail": load_fail, "mismatches": mismatches, "drift": drift, "iter_panic": iter_panic}));
    0
}

fn parse_def_file(path: &str) -> Vec<(u32, u32, Vec<u32>)> {
    // independent reading of the documented syntax: "0xAAAA[..0xBBBB] CLASS [CLASS...] [# comment]"
    let mut out = Vec::new();
    for line in read_lines(path) {
        let line = line.trim();
        if !line.starts_with("0x") {
            continue;
        }
        let cols: Vec<&str> = line.split_whitespace().collect();
        let mut r = cols[0].split("..");
        let lo = u32::from_str_radix(r.next().unwrap().trim_start_matches("0x"), 16).unwrap();
        let hi = r.next().map(|h| u32::from_str_radix(h.trim_start_matches("0x"), 16).unwrap()).unwrap_or(lo);
        let mut cats = Vec::new();
        for c in &cols[1..] {
            if c.starts_with('#') {
                break;
            }
            if *c == "ALL" {
                cats.extend(0..30u32); // ALL = every class bit except NOOOVBOW/NOOOVBOW2
                continue;
            }
            cats.push(NAMES.iter().find(|(n, _)| n == c).map(|(_, b)| *b).expect("class name"));
        }
        cats.sort();
        cats.dedup();
        out.push((lo, hi, cats));
    }
    out
}

fn random_defs(rng: &mut Rng) -> Vec<(u32, u32, Vec<u32>)> {
    const ANCHORS: [u32; 16] = [0, 1, 0x30, 0x7F, 0x80, 0x7FF, 0x800, 0x3040, 0xD7F0, 0xE000, 0xFFF0, 0x10000, 0x1F300, 0x10FFF0, 0x4E00, 0xFF10];
    let nlines = 1 + rng.below(12);
    let nanch = 1 + rng.below(3);
    let anchors: Vec<u32> = (0..nanch).map(|_| *rng.pick(&ANCHORS)).collect();
    let mut out = Vec::new();
    for _ in 0..nlines {
        let a = *rng.pick(&anchors);
        let lo = a + rng.below(12) as u32;
        let mut hi = if rng.chance(1, 4) { lo } else { lo + rng.below(10) as u32 };
        if rng.chance(1, 5) {
            // range ends exactly at the edge of the scalar-value space
            for edge in [0xD7FFu32, 0x10FFFF] {
                if lo <= edge && edge - lo < 40 {
                    hi = edge;
                }
            }
        }
        let ncat = 1 + rng.below(3);
        let mut cats: Vec<u32> = (0..ncat).map(|_| NAMES[rng.below(NAMES.len())].1).collect();
        cats.sort();
        cats.dedup();
        out.push((lo, hi, cats));
    }
    out
}

fn record_one(tr: &mut Trace, run: usize, src: &str, defs: &[(u32, u32, Vec<u32>)], text: &str) {
    let jdefs: Vec<Value> = defs.iter().map(|(lo, hi, c)| json!({"lo": lo, "hi": hi, "cats": c})).collect();
    let loaded = catch(|| CharacterCategory::from_reader(text.as_bytes()));
    match loaded {
        Err(msg) => tr.emit(json!({"ev": "cdef", "run": run, "src": src, "defs": jdefs, "res": "panic", "msg": msg})),
        Ok(Err(_)) => tr.emit(json!({"ev": "cdef", "run": run, "src": src, "defs": jdefs, "res": "err"})),
        Ok(Ok(cc)) => {
            tr.emit(json!({"ev": "cdef", "run": run, "src": src, "defs": jdefs, "res": "ok"}));
            // run-length encoded lookups over every Unicode scalar value
            let mut start: u32 = 0;
            let mut cur = cc.get_category_types('\0');
            let mut prev: u32 = 0;
            for cp in 1..=0x10FFFFu32 {
                let ch = match char::from_u32(cp) {
                    Some(c) => c,
                    None => continue,
                };
                let c = cc.get_category_types(ch);
                if c != cur {
                    tr.emit(json!({"ev": "crun", "run": run, "lo": start, "hi": prev, "cats": bits_of(cur)}));
                    start = cp;
                    cur = c;
                }
                prev = cp;
            }
            tr.emit(json!({"ev": "crun", "run": run, "lo": start, "hi": prev, "cats": bits_of(cur)}));
            tr.emit(json!({"ev": "cend", "run": run}));
        }
    }
}

pub fn record(args: &[String]) -> i32 {
    quiet_panics();
    let out = &args[0];
    let seed = arg_u64(args, "--seed", 1);
    let n = arg_u64(args, "--n", 30) as usize;
    let mut tr = Trace::create(out);
    let mut run = 0;
    for f in ["/repo/resources/char.def", "/repo/sudachi/tests/resources/char.def", "/repo/python/tests/resources/char.def"] {
        if std::path::Path::new(f).exists() {
            let defs = parse_def_file(f);
            let text = std::fs::read_to_string(f).unwrap();
            run += 1;
            record_one(&mut tr, run, f, &defs, &text);
        }
    }
    let mut rng = Rng::new(seed);
    for _ in 0..n {
        let defs = random_defs(&mut rng);
        let text = render(&defs);
        run += 1;
        record_one(&mut tr, run, "random", &defs, &text);
    }
    let n = tr.finish();
    println!("{}", json!({"events": n, "runs": run}));
    0
}
