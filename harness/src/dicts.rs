//! Building and loading dictionaries for the drivers (real DictBuilder / from_cfg_storage).
use std::path::{Path, PathBuf};
use sudachi::config::ConfigBuilder;
use sudachi::dic::build::DictBuilder;
use sudachi::dic::dictionary::JapaneseDictionary;
use sudachi::dic::storage::{Storage, SudachiDicData};
use sudachi::dic::DictionaryLoader;
use sudachi::error::SudachiResult;

pub const TEST_RES: &str = "/repo/sudachi/tests/resources";
pub const MAIN_RES: &str = "/repo/resources";

pub fn read(path: &str) -> Vec<u8> {
    std::fs::read(path).unwrap_or_else(|e| panic!("read {}: {}", path, e))
}

pub fn build_system(lex: &[u8], matrix: &[u8]) -> SudachiResult<Vec<u8>> {
    let mut b = DictBuilder::new_system();
    b.read_conn(matrix)?;
    b.read_lexicon(lex)?;
    b.resolve()?;
    let mut out = Vec::new();
    b.compile(&mut out)?;
    Ok(out)
}

pub fn build_user(system: &[u8], lex: &[u8]) -> SudachiResult<Vec<u8>> {
    let dic = DictionaryLoader::read_system_dictionary(system)?.to_loaded().expect("system dictionary");
    let mut b = DictBuilder::new_user(&dic);
    b.read_lexicon(lex)?;
    b.resolve()?;
    let mut out = Vec::new();
    b.compile(&mut out)?;
    Ok(out)
}

/// Load a dictionary from in-memory bytes with the given JSON configuration; relative
/// resource names (char.def, unk.def, rewrite.def ...) resolve against `resource_dir`.
pub fn load(config_json: &str, resource_dir: &Path, system: Vec<u8>, users: Vec<Vec<u8>>) -> SudachiResult<JapaneseDictionary> {
    let cfg = ConfigBuilder::from_bytes(config_json.as_bytes())?.resource_path(PathBuf::from(resource_dir)).build();
    let mut data = SudachiDicData::new(Storage::Owned(system));
    for u in users {
        data.add_user(Storage::Owned(u));
    }
    JapaneseDictionary::from_cfg_storage(&cfg, data)
}

/// The repository's test dictionary (lex.csv + user1/2.csv over matrix_10x10) as bytes.
pub fn test_dict_bytes(with_users: bool) -> (Vec<u8>, Vec<Vec<u8>>) {
    let sys = build_system(&read(&format!("{}/lex.csv", TEST_RES)), &read(&format!("{}/matrix_10x10.def", TEST_RES))).expect("test system dictionary");
    let mut users = Vec::new();
    if with_users {
        for u in ["user1.csv", "user2.csv"] {
            users.push(build_user(&sys, &read(&format!("{}/{}", TEST_RES, u))).expect("test user dictionary"));
        }
    }
    (sys, users)
}

pub fn scratch_dir(name: &str) -> PathBuf {
    let d = PathBuf::from("/verif/work/res").join(name);
    std::fs::create_dir_all(&d).unwrap();
    d
}

/// A resource directory holding copies of the given files (name -> source path).
pub fn resource_dir(name: &str, files: &[(&str, &str)]) -> PathBuf {
    let d = scratch_dir(name);
    for (n, src) in files {
        std::fs::copy(src, d.join(n)).unwrap_or_else(|e| panic!("copy {}: {}", src, e));
    }
    d
}
