//! Small shared helpers: deterministic PRNG, NDJSON writer, panic capture.
use serde_json::Value;
use std::fs::File;
use std::io::{BufRead, BufReader, BufWriter, Write};

/// splitmix64 / xorshift: deterministic, seedable, no external crate.
pub struct Rng(u64);
impl Rng {
    pub fn new(seed: u64) -> Rng {
        Rng(seed.wrapping_mul(0x9E3779B97F4A7C15).wrapping_add(0xD1B54A32D192ED03) | 1)
    }
    pub fn next(&mut self) -> u64 {
        self.0 = self.0.wrapping_add(0x9E3779B97F4A7C15);
        let mut z = self.0;
        z = (z ^ (z >> 30)).wrapping_mul(0xBF58476D1CE4E5B9);
        z = (z ^ (z >> 27)).wrapping_mul(0x94D049BB133111EB);
        z ^ (z >> 31)
    }
    /// uniform in 0..n (n > 0)
    pub fn below(&mut self, n: usize) -> usize {
        (self.next() % (n as u64)) as usize
    }
    pub fn range(&mut self, lo: i64, hi: i64) -> i64 {
        lo + (self.next() % ((hi - lo + 1) as u64)) as i64
    }
    pub fn chance(&mut self, num: u32, den: u32) -> bool {
        (self.next() % den as u64) < num as u64
    }
    pub fn pick<'a, T>(&mut self, xs: &'a [T]) -> &'a T {
        &xs[self.below(xs.len())]
    }
    /// pick a string out of a slice of &str / String
    pub fn pick_str<'a, S: AsRef<str>>(&mut self, xs: &'a [S]) -> &'a str {
        xs[self.below(xs.len())].as_ref()
    }
}

pub struct Trace {
    w: BufWriter<File>,
    pub n: usize,
}
impl Trace {
    pub fn create(path: &str) -> Trace {
        Trace { w: BufWriter::new(File::create(path).expect("create trace")), n: 0 }
    }
    pub fn emit(&mut self, v: Value) {
        serde_json::to_writer(&mut self.w, &v).unwrap();
        self.w.write_all(b"\n").unwrap();
        self.n += 1;
    }
    pub fn finish(mut self) -> usize {
        self.w.flush().unwrap();
        self.n
    }
}

pub fn read_lines(path: &str) -> Vec<String> {
    BufReader::new(File::open(path).expect("open")).lines().map(|l| l.unwrap()).collect()
}

/// TLC prints `<<"REPLAY", "{...json...}">>`; the JSON is a TLA+ string literal with
/// escaped quotes.  Returns the decoded JSON values of all such lines.
pub fn read_replay_lines(path: &str) -> Vec<Value> {
    let mut out = Vec::new();
    for l in read_lines(path) {
        if let Some(v) = parse_replay_line(&l) {
            out.push(v);
        }
    }
    out
}

pub fn parse_replay_line(l: &str) -> Option<Value> {
    let l = l.trim();
    let start = l.find(", \"")? + 2;
    if !l.ends_with(">>") {
        return None;
    }
    let lit = &l[start..l.len() - 2];
    // lit is a TLA+ string literal "...." with \" and \\ escapes == JSON string literal
    let s: String = serde_json::from_str(lit).ok()?;
    serde_json::from_str(&s).ok()
}

pub fn cps(s: &str) -> Vec<u32> {
    s.chars().map(|c| c as u32).collect()
}

pub fn from_cps(v: &Value) -> String {
    v.as_array().unwrap().iter().map(|x| char::from_u32(x.as_u64().unwrap() as u32).unwrap()).collect()
}

/// Run f, turning a panic of the code under test into Err(message) (a panic is data).
thread_local! { static IN_CATCH: std::cell::Cell<u32> = std::cell::Cell::new(0); }
thread_local! { static LAST_LOC: std::cell::RefCell<String> = std::cell::RefCell::new(String::new()); }

/// source location (file:line) of the most recent panic caught on this thread
pub fn last_panic_location() -> String {
    LAST_LOC.with(|l| l.borrow().clone())
}

pub fn catch<T>(f: impl FnOnce() -> T + std::panic::UnwindSafe) -> Result<T, String> {
    IN_CATCH.with(|c| c.set(c.get() + 1));
    let r = std::panic::catch_unwind(f);
    IN_CATCH.with(|c| c.set(c.get() - 1));
    match r {
        Ok(v) => Ok(v),
        Err(e) => {
            let msg = if let Some(s) = e.downcast_ref::<&str>() {
                s.to_string()
            } else if let Some(s) = e.downcast_ref::<String>() {
                s.clone()
            } else {
                "panic".to_string()
            };
            Err(msg)
        }
    }
}

/// Panics of the code under test (inside `catch`) are silent; panics of the harness
/// itself are still printed.
pub fn quiet_panics() {
    let default = std::panic::take_hook();
    std::panic::set_hook(Box::new(move |info| {
        if let Some(l) = info.location() {
            let file = l.file().trim_start_matches("/repo/");
            LAST_LOC.with(|x| *x.borrow_mut() = format!("{}:{}", file, l.line()));
        }
        if IN_CATCH.with(|c| c.get()) == 0 {
            default(info);
        }
    }));
}

pub fn arg_val(args: &[String], name: &str) -> Option<String> {
    args.iter().position(|a| a == name).and_then(|i| args.get(i + 1).cloned())
}

pub fn arg_u64(args: &[String], name: &str, default: u64) -> u64 {
    arg_val(args, name).and_then(|v| v.parse().ok()).unwrap_or(default)
}
