//! vh - verification harness for the TLA+ specifications in /verif/spec.
//! It contains no oracles: it drives the real sudachi.rs code, records what it did as
//! NDJSON events (I->S), or steps TLC-generated behaviours through the real objects and
//! reports where the projected state differs from what TLC computed (S->I).
mod util;
mod c17;
mod c08;
mod c09;
mod c10;
mod c02;
mod c04;
mod c05;
mod c06;
mod c07;
mod c11;
mod c12;
mod c13;
mod c14;
mod c15;
mod c03;
mod c16;
mod c18;
mod c19;
mod cfg;
mod c20;
mod gen;
mod dicts;
mod texts;
mod tok;

fn main() {
    let args: Vec<String> = std::env::args().collect();
    if args.len() < 2 {
        eprintln!("usage: vh <subcommand> ...");
        std::process::exit(2);
    }
    let rest = &args[2..];
    let code = match args[1].as_str() {
        "c17-replay" => c17::replay(rest),
        "c17-record" => c17::record(rest),
        "c08-replay" => c08::replay(rest),
        "tok-record" => tok::record(rest),
        "c02-replay" => c02::replay(rest),
        "c02-record" => c02::record(rest),
        "c04-replay" => c04::replay(rest),
        "c04-record" => c04::record(rest),
        "c04-why" => c04::why(rest),
        "c05-replay" => c05::replay(rest),
        "c05-sources" => c05::sources(rest),
        "c05-libbuild" => c05::libbuild(rest),
        "c05-libdump" => c05::libdump(rest),
        "c05-record" => c05::record(rest),
        "c11-record" => c11::record(rest),
        "c06-run" => c06::run(rest),
        "c20-run" => c20::run(rest),
        "c03-record" => c03::record(rest),
        "c03-replay" => c03::replay(rest),
        "c03-single" => c03::single(rest),
        "c02-usercost" => c02::usercost(rest),
        "c18-run" => c18::run(rest),
        "cfg-replay" => cfg::replay(rest),
        "c19-world" => c19::world(rest),
        "c19-lib" => c19::lib(rest),
        "c16-run" => c16::run(rest),
        "c07-replay" => c07::replay(rest),
        "c07-record" => c07::record(rest),
        "c09-record" => c09::record(rest),
        "c10-run" => c10::run(rest),
        "c12-replay" => c12::replay(rest),
        "c13-replay" => c13::replay(rest),
        "c13-record" => c13::record(rest),
        "c14-record" => c14::record(rest),
        "c14-replay" => c14::replay(rest),
        "c15-parse" => c15::parse_cmd(rest),
        "c15-replay" => c15::replay(rest),
        "c15-record" => c15::record(rest),
        "c12-record" => c12::record(rest),
        other => {
            eprintln!("unknown subcommand {}", other);
            2
        }
    };
    std::process::exit(code);
}
