//! Generic recorder of whole tokenizations: runs the real StatefulTokenizer with the hooks
//! installed and writes one NDJSON event stream (hook events + driver events).
use crate::dicts;
use crate::texts;
use crate::util::*;
use serde_json::{json, Value};
use std::rc::Rc;
use sudachi::analysis::stateful_tokenizer::StatefulTokenizer;
use sudachi::analysis::node::{LatticeNode, ResultNode};
use sudachi::dic::dictionary::JapaneseDictionary;
use sudachi::dic::subset::InfoSubset;
use sudachi::input_text::InputBuffer;
use sudachi::prelude::*;

pub struct World {
    pub name: String,
    pub dict: Rc<JapaneseDictionary>,
    pub meta: Value,
}

const IN_DEFAULT: &str = r#"{"class":"com.worksap.nlp.sudachi.DefaultInputTextPlugin"}"#;
const IN_PROLONGED: &str = r#"{"class":"com.worksap.nlp.sudachi.ProlongedSoundMarkPlugin","prolongedSoundMarks":["ー","-","⁓","〜","〰"],"replacementSymbol":"ー"}"#;
const IN_YOMIGANA: &str = r#"{"class":"com.worksap.nlp.sudachi.IgnoreYomiganaPlugin","leftBrackets":["(","（"],"rightBrackets":[")","）"],"maxYomiganaLength":4}"#;
const OOV_SIMPLE: &str = r#"{"class":"com.worksap.nlp.sudachi.SimpleOovPlugin","oovPOS":["名詞","普通名詞","一般","*","*","*"],"leftId":8,"rightId":8,"cost":6000}"#;
const OOV_MECAB: &str = r#"{"class":"com.worksap.nlp.sudachi.MeCabOovPlugin","charDef":"char.def","unkDef":"unk2.def"}"#;
const OOV_REGEX: &str = r#"{"class":"com.worksap.nlp.sudachi.RegexOovProvider","oovPOS":["名詞","普通名詞","REGEX","REGEX","REGEX","REGEX"],"leftId":5,"rightId":5,"cost":-32000,"userPOS":"allow","regex":"[-a-zA-Z0-9]+","maxLength":400}"#;
const PR_NUMERIC: &str = r#"{"class":"com.worksap.nlp.sudachi.JoinNumericPlugin","enableNormalize":true}"#;
const PR_NUMERIC_NONORM: &str = r#"{"class":"com.worksap.nlp.sudachi.JoinNumericPlugin","enableNormalize":false}"#;
const PR_KATAKANA: &str = r#"{"class":"com.worksap.nlp.sudachi.JoinKatakanaOovPlugin","oovPOS":["名詞","普通名詞","一般","*","*","*"],"minLength":3}"#;
const PR_KATAKANA1: &str = r#"{"class":"com.worksap.nlp.sudachi.JoinKatakanaOovPlugin","oovPOS":["名詞","固有名詞","一般","*","*","*"],"minLength":1}"#;

/// a user dictionary whose words are written in kana but split into the system dictionary's kanji units (the unit key lengths do not
/// add up to the word's length: the last unit must inherit the parent's end), and two short katakana words whose HEADWORD (column 4)
/// has another byte length than the key they are found by (column 0): whatever is derived from the headword's length instead of the
/// matched text shows when they are merged into a longer katakana token
pub const KANA_USER: &str = "とうきょうと,6,8,-3000,とうきょうと,名詞,固有名詞,地名,一般,*,*,トウキョウト,東京都,*,C,5/9,5/9,*,*\nきょうとふ,6,6,-3000,きょうとふ,名詞,固有名詞,地名,一般,*,*,キョウトフ,京都府,*,B,*,3/9,*,*\nアイウアイ,7,7,-2000,アイウアイ,名詞,普通名詞,一般,*,*,*,アイウアイ,アイウアイ,*,C,11/10,11/10,*,*\nキロ,7,7,-2000,㌔,名詞,普通名詞,一般,*,*,*,キロ,キロ,*,A,*,*,*,*\nメガ,7,7,-2000,メガメガ,名詞,普通名詞,一般,*,*,*,メガ,メガ,*,A,*,*,*,*\n";
pub fn kana_user_keys() -> Value {
    json!([{"key": cps("とうきょうと"), "lid": 6}, {"key": cps("きょうとふ"), "lid": 6}, {"key": cps("アイウアイ"), "lid": 7}, {"key": cps("キロ"), "lid": 7}, {"key": cps("メガ"), "lid": 7}])
}

fn cfg_json(input: &[&str], oov: &[&str], pr: &[&str]) -> String {
    format!(
        r#"{{"characterDefinitionFile":"char.def","inputTextPlugin":[{}],"oovProviderPlugin":[{}],"pathRewritePlugin":[{}]}}"#,
        input.join(","), oov.join(","), pr.join(",")
    )
}

/// The repository's fixture dictionary under every plugin stack of interest.
pub fn fixture_worlds() -> Vec<World> {
    let res = dicts::resource_dir("fixture", &[
        ("char.def", "/repo/sudachi/tests/resources/char.def"),
        ("unk2.def", "/repo/sudachi/tests/resources/unk2.def"),
        ("rewrite.def", "/repo/sudachi/tests/resources/rewrite.def"),
    ]);
    let stacks: Vec<(&str, Vec<&str>, Vec<&str>, Vec<&str>)> = vec![
        ("plain", vec![], vec![OOV_SIMPLE], vec![]),
        ("default", vec![IN_DEFAULT], vec![OOV_SIMPLE], vec![PR_NUMERIC, PR_KATAKANA]),
        ("default+prolonged", vec![IN_DEFAULT, IN_PROLONGED], vec![OOV_MECAB, OOV_SIMPLE], vec![PR_NUMERIC, PR_KATAKANA]),
        ("full", vec![IN_DEFAULT, IN_PROLONGED, IN_YOMIGANA], vec![OOV_MECAB, OOV_SIMPLE], vec![PR_NUMERIC, PR_KATAKANA]),
        ("reordered", vec![IN_YOMIGANA, IN_PROLONGED, IN_DEFAULT], vec![OOV_MECAB, OOV_REGEX, OOV_SIMPLE], vec![PR_KATAKANA1, PR_NUMERIC_NONORM]),
        ("prolonged-first", vec![IN_PROLONGED, IN_DEFAULT, IN_YOMIGANA], vec![OOV_REGEX, OOV_SIMPLE], vec![PR_NUMERIC]),
        ("norewrite", vec![IN_DEFAULT, IN_PROLONGED, IN_YOMIGANA], vec![OOV_MECAB, OOV_SIMPLE], vec![]),
        // the SHIPPED character definition (resources/char.def): kanji numerals, Greek, Cyrillic ... carry their own classes there,
        // so kanji numerals reach the numeral plugin and class runs differ from those of the cut-down test definition
        ("shipped-chardef", vec![IN_DEFAULT, IN_PROLONGED, IN_YOMIGANA], vec![OOV_SIMPLE], vec![PR_NUMERIC, PR_KATAKANA]),
    ];
    let mut out = Vec::new();
    // a user dictionary whose words are written in kana but split into the system dictionary's kanji units:
    // the unit key lengths do not add up to the word's length (the last unit must inherit the parent's end)
    let kana_user = KANA_USER;
    for (name, i, o, p) in stacks {
        let (sys, mut users) = dicts::test_dict_bytes(true);
        let mut extra_lex: Vec<Value> = Vec::new();
        if name == "full" || name == "plain" || name == "norewrite" || name == "reordered" {
            users.push(dicts::build_user(&sys, kana_user.as_bytes()).expect("kana user dictionary"));
            extra_lex.push(json!([[6, 8, -3000], [6, 6, -3000], [7, 7, -2000], [7, 7, -2000], [7, 7, -2000]]));
        }
        let cfg = cfg_json(&i, &o, &p);
        let res = if name == "shipped-chardef" {
            dicts::resource_dir("fixture-shipped", &[("char.def", "/repo/resources/char.def"), ("rewrite.def", "/repo/resources/rewrite.def")])
        } else { res.clone() };
        let dict = dicts::load(&cfg, &res, sys, users).unwrap_or_else(|e| panic!("world {}: {:?}", name, e));
        out.push(World {
            name: name.to_string(),
            dict: Rc::new(dict),
            meta: json!({"n_input_plugins": i.len(), "n_oov": o.len(), "n_path_rewrite": p.len(), "has_fallback_oov": true, "extra_lex": extra_lex}),
        });
    }
    out
}

pub fn mode_of(i: usize) -> Mode {
    match i % 3 {
        0 => Mode::A,
        1 => Mode::B,
        _ => Mode::C,
    }
}
pub fn mode_idx(m: Mode) -> usize {
    match m {
        Mode::A => 0,
        Mode::B => 1,
        Mode::C => 2,
    }
}

/// Morphemes of a finished analysis, read through the public accessors only.
pub fn morphemes_json(list: &MorphemeList<Rc<JapaneseDictionary>>, nodes_bytes: &[(usize, usize)]) -> Value {
    let mut out = Vec::new();
    for (i, m) in list.iter().enumerate() {
        let pos: Vec<Value> = m.part_of_speech().iter().map(|s| json!(cps(s))).collect();
        out.push(json!({
            "begin": m.begin(), "end": m.end(), "begin_c": m.begin_c(), "end_c": m.end_c(),
            "surface": cps(&m.surface()),
            "bb": nodes_bytes.get(i).map(|x| x.0), "eb": nodes_bytes.get(i).map(|x| x.1),
            "wid": m.word_id().as_raw(), "dic": m.dictionary_id(), "oov": m.is_oov(),
            "pos_id": m.part_of_speech_id(), "pos": pos,
            "norm": cps(m.normalized_form()), "dform": cps(m.dictionary_form()), "reading": cps(m.reading_form()),
            "total": m.total_cost(), "syn": m.synonym_group_ids(),
        }));
    }
    Value::Array(out)
}

/// One analysis on a (possibly reused) tokenizer; emits run / hook events / result.
pub fn record_run(tr: &mut Trace, run: usize, world: &World, tok: &mut StatefulTokenizer<Rc<JapaneseDictionary>>, mode: Mode, text: &str, extra: Value) -> Option<MorphemeList<Rc<JapaneseDictionary>>> {
    tr.emit(json!({"ev": "run", "run": run, "world": world.name, "mode": mode_idx(mode), "text": cps(text), "nbytes": text.len(), "meta": world.meta, "extra": extra}));
    sudachi::verif::install();
    tok.set_mode(mode);
    let res = catch(std::panic::AssertUnwindSafe(|| {
        tok.reset().push_str(text);
        tok.do_tokenize()
    }));
    let events = sudachi::verif::take();
    sudachi::verif::uninstall();
    for mut e in events {
        e["run"] = json!(run);
        tr.emit(e);
    }
    match res {
        Err(msg) => {
            tr.emit(json!({"ev": "result", "run": run, "res": "panic", "msg": msg}));
            // a panic leaves the tokenizer in an unspecified state: continue with a new one
            *tok = StatefulTokenizer::new(world.dict.clone(), mode);
            None
        }
        Ok(Err(e)) => {
            let kind = match e {
                SudachiError::InputTooLong(_, _) => "toolong",
                SudachiError::EosBosDisconnect => "disconnect",
                _ => "err",
            };
            tr.emit(json!({"ev": "result", "run": run, "res": kind, "msg": format!("{:?}", e)}));
            None
        }
        Ok(Ok(())) => {
            let mut input = InputBuffer::new();
            let mut nodes: Vec<ResultNode> = Vec::new();
            let mut subset = InfoSubset::all();
            if let Err(msg) = catch(std::panic::AssertUnwindSafe(|| tok.swap_result(&mut input, &mut nodes, &mut subset))) {
                tr.emit(json!({"ev": "result", "run": run, "res": "panic", "msg": msg, "where": "swap_result"}));
                *tok = StatefulTokenizer::new(world.dict.clone(), mode);
                return None;
            }
            let nb: Vec<(usize, usize)> = nodes.iter().map(|n| (n.begin_bytes(), n.end_bytes())).collect();
            let nc: Vec<Value> = nodes.iter().map(|n| json!([n.begin(), n.end()])).collect();
            let modtext = cps(input.current());
            // the word-start table the buffer reports for the rewritten text (per character)
            let bow: Vec<bool> = {
                use sudachi::input_text::InputTextIndex;
                let n = input.current_chars().len();
                (0..n).map(|i| input.can_bow(input.to_curr_byte_idx(i))).collect()
            };
            let list = MorphemeList::from_components(world.dict.clone(), input, nodes, subset);
            let r = catch(std::panic::AssertUnwindSafe(|| morphemes_json(&list, &nb)));
            // the difference of the first and last total costs; split pieces carry i32::MAX (known finding of C03): 0 when it cannot be computed
            let internal = catch(std::panic::AssertUnwindSafe(|| list.get_internal_cost())).unwrap_or(0);
            match r {
                Ok(ms) => {
                    tr.emit(json!({"ev": "result", "run": run, "res": "ok", "morphemes": ms, "mod": modtext, "bow": bow, "chars": nc, "internal_cost": internal}));
                    Some(list)
                }
                Err(msg) => {
                    tr.emit(json!({"ev": "result", "run": run, "res": "panic", "msg": msg, "where": "accessors"}));
                    None
                }
            }
        }
    }
}

/// `vh tok-record <out> --seed S --n N`: fixture sentences + random structured texts over all fixture worlds and modes.
pub fn record(args: &[String]) -> i32 {
    quiet_panics();
    let out = &args[0];
    let seed = arg_u64(args, "--seed", 1);
    let n = arg_u64(args, "--n", 300) as usize;
    let maxp = arg_u64(args, "--pieces", 8) as usize;
    let worlds = fixture_worlds();
    let mut tr = Trace::create(out);
    let mut rng = Rng::new(seed);
    let mut run = 0usize;
    if let Some(single) = arg_val(args, "--single") {
        // re-run one recorded case on the current code: {"world":..,"mode":..,"text":[cps]}
        let v: Value = serde_json::from_str(&single).expect("--single json");
        let w = worlds.iter().find(|w| w.name == v["world"].as_str().unwrap()).expect("world");
        let mut tok = StatefulTokenizer::new(w.dict.clone(), Mode::C);
        record_run(&mut tr, 1, w, &mut tok, mode_of(v["mode"].as_u64().unwrap() as usize), &from_cps(&v["text"]), json!({}));
        let n = tr.finish();
        println!("{}", json!({"events": n, "runs": 1}));
        return 0;
    }
    let mut toks: Vec<StatefulTokenizer<Rc<JapaneseDictionary>>> = worlds.iter().map(|w| StatefulTokenizer::new(w.dict.clone(), Mode::C)).collect();
    for (k, s) in texts::FIXTURE_SENTENCES.iter().enumerate() {
        for (wi, w) in worlds.iter().enumerate() {
            run += 1;
            record_run(&mut tr, run, w, &mut toks[wi], mode_of(k + wi), s, json!({}));
        }
    }
    for k in 0..n {
        let text = texts::random_text(&mut rng, maxp);
        let wi = rng.below(worlds.len());
        run += 1;
        record_run(&mut tr, run, &worlds[wi], &mut toks[wi], mode_of(k), &text, json!({}));
    }
    // the caller's reusable result list (Python binding, command-line tool): results are swapped into ONE MorphemeList per
    // tokenizer; inputs that are or become empty follow non-empty ones
    for (wi, w) in worlds.iter().enumerate() {
        let mut tok = StatefulTokenizer::new(w.dict.clone(), Mode::C);
        let mut list = MorphemeList::empty(w.dict.clone());
        let seq = ["東京都に行った", "京都。東京", "", "東京都", "", "", "(あ)", " ", "", "ｶﾞｷﾞ", "", "1,234.5円", "京都", ""];
        for (k, s) in seq.iter().enumerate() {
            run += 1;
            record_run_reuse(&mut tr, run, w, &mut tok, &mut list, mode_of(k + wi), s);
        }
    }
    let n = tr.finish();
    println!("{}", json!({"events": n, "runs": run}));
    0
}

/// Like record_run, but the result is collected into the caller's reused list (MorphemeList::collect_results).
pub fn record_run_reuse(tr: &mut Trace, run: usize, world: &World, tok: &mut StatefulTokenizer<Rc<JapaneseDictionary>>, list: &mut MorphemeList<Rc<JapaneseDictionary>>, mode: Mode, text: &str) {
    tr.emit(json!({"ev": "run", "run": run, "world": world.name, "mode": mode_idx(mode), "text": cps(text), "nbytes": text.len(), "meta": world.meta, "extra": {"reused_list": true}}));
    sudachi::verif::install();
    tok.set_mode(mode);
    let res = catch(std::panic::AssertUnwindSafe(|| {
        tok.reset().push_str(text);
        tok.do_tokenize()
    }));
    let events = sudachi::verif::take();
    sudachi::verif::uninstall();
    for mut e in events {
        e["run"] = json!(run);
        tr.emit(e);
    }
    match res {
        Err(msg) => {
            tr.emit(json!({"ev": "result", "run": run, "res": "panic", "msg": msg}));
            *tok = StatefulTokenizer::new(world.dict.clone(), mode);
        }
        Ok(Err(e)) => tr.emit(json!({"ev": "result", "run": run, "res": "err", "msg": format!("{:?}", e)})),
        Ok(Ok(())) => {
            let r = catch(std::panic::AssertUnwindSafe(|| list.collect_results(tok).map(|_| morphemes_json(list, &[]))));
            match r {
                Ok(Ok(ms)) => tr.emit(json!({"ev": "result", "run": run, "res": "ok", "morphemes": ms, "reused_list": true})),
                Ok(Err(e)) => tr.emit(json!({"ev": "result", "run": run, "res": "err", "msg": format!("{:?}", e)})),
                Err(msg) => {
                    tr.emit(json!({"ev": "result", "run": run, "res": "panic", "msg": msg, "where": "accessors"}));
                    *tok = StatefulTokenizer::new(world.dict.clone(), mode);
                    *list = MorphemeList::empty(world.dict.clone());
                }
            }
        }
    }
}
