//! C18: N threads, each with its own tokenizer, analysing against ONE shared loaded dictionary.
//! Events: global dictionary events (dict_write / frozen, ordered by a global sequence number taken under the sink lock),
//! oracle{text, mode, ms} (single-threaded results before the threads start and again after they finish),
//! fingerprint{digest} (everything observable of the dictionary through its public API, before and after),
//! begin/end{thread, seq, text, mode, ms} per thread with a per-thread sequence number.
use crate::c19;
use crate::texts;
use crate::util::*;
use serde_json::{json, Value};
use std::path::PathBuf;
use std::sync::{Arc, Barrier};
use sudachi::analysis::stateful_tokenizer::StatefulTokenizer;
use sudachi::analysis::stateless_tokenizer::DictionaryAccess;
use sudachi::dic::dictionary::JapaneseDictionary;
use sudachi::dic::lexicon_set::LexiconSet;
use sudachi::prelude::*;

// the dictionary must be shareable at all: this is checked by the compiler
fn assert_send_sync<T: Send + Sync>() {}
#[allow(dead_code)]
fn static_checks() {
    assert_send_sync::<JapaneseDictionary>();
    assert_send_sync::<Arc<JapaneseDictionary>>();
}

fn analyse(tok: &mut StatefulTokenizer<Arc<JapaneseDictionary>>, dict: &Arc<JapaneseDictionary>, text: &str, mode: Mode) -> Value {
    tok.set_mode(mode);
    let r = catch(std::panic::AssertUnwindSafe(|| {
        tok.reset().push_str(text);
        tok.do_tokenize()?;
        let mut list = MorphemeList::empty(dict.clone());
        list.collect_results(tok)?;
        let ms: Vec<Value> = list.iter().map(|m| json!([m.begin_c(), m.end_c(), m.word_id().dic(), m.word_id().word(), m.part_of_speech_id(), m.total_cost(), m.begin(), m.end()])).collect();
        let r: SudachiResult<Value> = Ok(Value::Array(ms));
        r
    }));
    match r {
        Ok(Ok(v)) => v,
        Ok(Err(e)) => json!([["err", format!("{:?}", e)]]),
        Err(msg) => {
            *tok = StatefulTokenizer::new(dict.clone(), mode);
            json!([["panic", msg]])
        }
    }
}

/// everything of the dictionary that the public API shows: connection costs, word parameters, parts of speech, a probe lookup
fn fingerprint(dict: &JapaneseDictionary) -> Value {
    let g = dict.grammar();
    let conn = g.conn_matrix();
    let mut h: u64 = 0xcbf29ce484222325;
    let mut mix = |x: u64| {
        h ^= x;
        h = h.wrapping_mul(0x100000001b3);
    };
    for l in 0..conn.num_left() {
        for r in 0..conn.num_right() {
            mix(conn.cost(l as u16, r as u16) as u16 as u64);
        }
    }
    for p in g.pos_list.iter() {
        for s in p.iter() {
            for b in s.bytes() {
                mix(b as u64);
            }
        }
    }
    let lex: &LexiconSet = dict.lexicon();
    let mut nwords = 0u64;
    for probe in ["東京都", "京都", "東京", "行く", "に", "特A", "な", "アイアイウ", "1", "東京府", "ぴさる", "ぴらる"] {
        for e in lex.lookup(probe.as_bytes(), 0) {
            let (l, r, c) = lex.get_word_param(e.word_id);
            mix(e.word_id.as_raw() as u64);
            mix(l as u16 as u64);
            mix(r as u16 as u64);
            mix(c as u16 as u64);
            nwords += 1;
        }
    }
    json!({"hash": format!("{:016x}", h), "num_left": conn.num_left(), "num_right": conn.num_right(), "npos": g.pos_list.len(), "probe_entries": nwords})
}

fn pool() -> Vec<String> {
    let mut v: Vec<String> = texts::FIXTURE_SENTENCES.iter().map(|s| s.to_string()).collect();
    let mut rng = Rng::new(77);
    for _ in 0..40 {
        v.push(texts::random_text(&mut rng, 8));
    }
    // mixed scripts and OOV stretches: character categories and all OOV providers are in play
    for s in ["あアａA1一ｱ𠮷?あアａA1一", "ぴさるとピサル123abcＡＢＣ", "六三四と1,234.5と二〇二〇年", "コンピューターーとスーーパー", "東京(とうきょう)都", "xyzアイウ東京府京都府ｶﾞｷﾞ"] {
        v.push(s.to_string());
    }
    v
}

fn dump(tr: &mut Trace, shared: &Vec<Arc<std::sync::Mutex<std::collections::BTreeMap<(usize, usize, String), (usize, usize)>>>>) {
    for (th, m) in shared.iter().enumerate() {
        let seen = m.lock().unwrap_or_else(|p| p.into_inner());
        let mut evs: Vec<Value> = seen.iter().map(|((ti, m, ms), (count, first))| {
            json!({"ev": "end", "thread": th, "seq": first, "text": ti, "mode": m, "ms": serde_json::from_str::<Value>(ms).unwrap(), "count": count})
        }).collect();
        evs.sort_by_key(|e| e["seq"].as_u64().unwrap());
        for e in evs {
            tr.emit(e);
        }
    }
}

/// `vh c18-run <world-dir> <out.ndjson> --threads N --iters K --seed S`
pub fn run(args: &[String]) -> i32 {
    quiet_panics();
    let dir = PathBuf::from(&args[0]);
    let nthreads = arg_u64(args, "--threads", 8) as usize;
    let iters = arg_u64(args, "--iters", 300) as usize;
    let seed = arg_u64(args, "--seed", 1);
    let cfg = arg_val(args, "--cfg").unwrap_or_else(|| "full".to_string());
    let mut tr = Trace::create(&args[1]);
    sudachi::verif::install_global();
    let dict = Arc::new(c19::load(&dir, &cfg));
    tr.emit(json!({"ev": "loaded", "cfg": cfg, "threads": nthreads}));
    tr.emit(json!({"ev": "fingerprint", "when": "before", "fp": fingerprint(&dict)}));
    let texts = pool();
    if let Some(p) = arg_val(args, "--dump-texts") {
        std::fs::write(p, serde_json::to_string(&texts).unwrap()).unwrap();
    }
    let oracle = |tr: &mut Trace, when: &str| {
        let mut tok = StatefulTokenizer::new(dict.clone(), Mode::C);
        for (ti, t) in texts.iter().enumerate() {
            for m in 0..3usize {
                let ms = analyse(&mut tok, &dict, t, crate::tok::mode_of(m));
                tr.emit(json!({"ev": "oracle", "when": when, "text": ti, "mode": m, "ms": ms}));
            }
        }
    };
    oracle(&mut tr, "before");
    let barrier = Arc::new(Barrier::new(nthreads));
    let mut handles = Vec::new();
    type Seen = std::collections::BTreeMap<(usize, usize, String), (usize, usize)>;
    let shared: Vec<Arc<std::sync::Mutex<Seen>>> = (0..nthreads).map(|_| Arc::new(std::sync::Mutex::new(Seen::new()))).collect();
    for th in 0..nthreads {
        let mine = shared[th].clone();
        let dict = dict.clone();
        let barrier = barrier.clone();
        let texts = texts.clone();
        handles.push(std::thread::spawn(move || {
            quiet_panics();
            let mut rng = Rng::new(seed * 1000 + th as u64);
            let mut tok = StatefulTokenizer::new(dict.clone(), Mode::C);
            // identical outcomes of one thread are counted, not repeated: (text, mode, result) -> (count, first sequence number)
            barrier.wait();
            for k in 0..iters {
                let ti = rng.below(texts.len());
                let m = rng.below(3);
                let ms = analyse(&mut tok, &dict, &texts[ti], crate::tok::mode_of(m));
                {
                    // the thread's own table (the lock is uncontended; the main thread reads it only after the run or at a hang)
                    let mut seen = mine.lock().unwrap();
                    let e = seen.entry((ti, m, ms.to_string())).or_insert((0, k));
                    e.0 += 1;
                }
                if k % 16 == th % 16 {
                    std::thread::yield_now();
                }
            }
            Vec::<Value>::new()
        }));
    }
    // watchdog: an analysis that never returns is an outcome too (the threads cannot be cancelled: report and leave)
    let limit = std::time::Duration::from_secs(arg_u64(args, "--limit", 120));
    let start = std::time::Instant::now();
    while handles.iter().any(|h| !h.is_finished()) {
        if start.elapsed() > limit {
            let alive = handles.iter().filter(|h| !h.is_finished()).count();
            for e in sudachi::verif::take_global() {
                tr.emit(e);
            }
            dump(&mut tr, &shared);
            tr.emit(json!({"ev": "hang", "threads_still_running": alive, "after_secs": limit.as_secs()}));
            tr.finish();
            println!("{}", json!({"events": 0, "hang": alive}));
            std::process::exit(0);
        }
        std::thread::sleep(std::time::Duration::from_millis(20));
    }
    let mut per_thread: Vec<Vec<Value>> = Vec::new();
    for h in handles {
        match h.join() {
            Ok(v) => per_thread.push(v),
            Err(_) => per_thread.push(vec![json!({"ev": "thread_died"})]),
        }
    }
    // global (dictionary-level) events first, in the order of their global sequence numbers
    for e in sudachi::verif::take_global() {
        tr.emit(e);
    }
    for v in per_thread {
        for e in v {
            tr.emit(e);
        }
    }
    dump(&mut tr, &shared);
    oracle(&mut tr, "after");
    tr.emit(json!({"ev": "fingerprint", "when": "after", "fp": fingerprint(&dict)}));
    for e in sudachi::verif::take_global() {
        tr.emit(e);
    }
    // cold starts: a freshly loaded dictionary (no user dictionary, so loading analysed nothing) whose very first analyses are made by
    // several threads at once; the reference is a single-threaded run on another fresh dictionary of the same configuration
    let cold_trials = arg_u64(args, "--cold-trials", 0) as usize;
    let cold_cfg = format!("{}-cold", cfg);
    if cold_trials > 0 && dir.join(format!("{}.json", cold_cfg)).exists() {
        const OFF: usize = 500;
        let nt = nthreads.min(8);
        let refd = Arc::new(c19::load(&dir, &cold_cfg));
        let _ = sudachi::verif::take_global(); // the publication judged by this trace is that of the main dictionary
        // the texts that need every plugin (half-width kana with rewrite rules, prolonged marks, readings in brackets, numerals), and a few plain ones
        let cold_texts: Vec<usize> = (texts.len() - 6..texts.len()).chain(0..4).collect();
        {
            let mut tok = StatefulTokenizer::new(refd.clone(), Mode::C);
            for ti in &cold_texts { for m in 0..3usize {
                let ms = analyse(&mut tok, &refd, &texts[*ti], crate::tok::mode_of(m));
                tr.emit(json!({"ev": "oracle", "when": "before", "text": OFF + ti, "mode": m, "ms": ms}));
            } }
        }
        let mut seen: std::collections::BTreeMap<(usize, usize, usize, String), usize> = Default::default();
        for trial in 0..cold_trials {
            let d = Arc::new(c19::load(&dir, &cold_cfg));
            let _ = sudachi::verif::take_global();
            let barrier = Arc::new(Barrier::new(nt));
            let mut hs = Vec::new();
            for th in 0..nt {
                let (d, barrier, texts, cold_texts) = (d.clone(), barrier.clone(), texts.clone(), cold_texts.clone());
                hs.push(std::thread::spawn(move || {
                    quiet_panics();
                    let mut tok = StatefulTokenizer::new(d.clone(), Mode::C);
                    let mut out = Vec::new();
                    barrier.wait();
                    for k in 0..3 {
                        // the last analysis of every thread is the text with rewrite rules: whatever the first analyses left behind shows there
                        let ti = if k == 2 { cold_texts[5] } else { cold_texts[(th + trial + k * 3) % cold_texts.len()] };
                        let m = (th + k) % 3;
                        out.push((ti, m, analyse(&mut tok, &d, &texts[ti], crate::tok::mode_of(m)).to_string()));
                    }
                    out
                }));
            }
            let start = std::time::Instant::now();
            while hs.iter().any(|h| !h.is_finished()) {
                if start.elapsed() > std::time::Duration::from_secs(15) {
                    let alive = hs.iter().filter(|h| !h.is_finished()).count();
                    tr.emit(json!({"ev": "hang", "threads_still_running": alive, "after_secs": 15, "cold_trial": trial}));
                    tr.finish();
                    println!("{}", json!({"events": 0, "hang": alive}));
                    std::process::exit(0);
                }
                std::thread::sleep(std::time::Duration::from_millis(1));
            }
            for (th, h) in hs.into_iter().enumerate() {
                match h.join() {
                    Ok(v) => for (ti, m, ms) in v { *seen.entry((th, ti, m, ms)).or_insert(0) += 1; },
                    Err(_) => tr.emit(json!({"ev": "thread_died", "cold_trial": trial})),
                }
            }
        }
        for ((th, ti, m, ms), count) in seen {
            tr.emit(json!({"ev": "end", "thread": th, "seq": 0, "text": OFF + ti, "mode": m, "ms": serde_json::from_str::<Value>(&ms).unwrap(), "count": count, "cold": true}));
        }
    }
    let n = tr.finish();
    println!("{}", json!({"events": n, "threads": nthreads, "iters": iters, "texts": texts.len()}));
    0
}
