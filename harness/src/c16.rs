//! C16 - sentence splitting.  Runs TLC-enumerated (text, limit, lexicon, checker on/off) cases and
//! seeded random real-Unicode texts through the real SentenceSplitter and records the ranges.
use crate::dicts;
use crate::util::*;
use serde_json::{json, Value};
use std::collections::BTreeMap;
use std::rc::Rc;
use sudachi::analysis::stateless_tokenizer::DictionaryAccess;
use sudachi::dic::dictionary::JapaneseDictionary;
use sudachi::sentence_splitter::{SentenceSplitter, SplitSentences};

fn dict_with(words: &[String]) -> Rc<JapaneseDictionary> {
    let mut lex = String::from("東,0,0,100,東,名詞,普通名詞,一般,*,*,*,ヒガシ,東,*,A,*,*,*,*\n");
    for w in words {
        let k: String = w.chars().map(|c| if c == ',' { "\\u002c".to_string() } else { c.to_string() }).collect();
        lex.push_str(&format!("{k},0,0,100,{k},名詞,普通名詞,一般,*,*,*,ヨミ,{k},*,A,*,*,*,*\n", k = k));
    }
    let sys = dicts::build_system(lex.as_bytes(), b"1 1\n0 0 0\n").expect("dictionary");
    let res = dicts::resource_dir("c16", &[("char.def", "/repo/sudachi/tests/resources/char.def")]);
    let cfg = r#"{"characterDefinitionFile":"char.def","oovProviderPlugin":[{"class":"com.worksap.nlp.sudachi.SimpleOovPlugin","oovPOS":["名詞","普通名詞","一般","*","*","*"],"leftId":0,"rightId":0,"cost":20000}]}"#;
    Rc::new(dicts::load(cfg, &res, sys, vec![]).expect("dictionary loads"))
}

fn split(text: &str, limit: usize, dict: Option<&JapaneseDictionary>) -> Value {
    let r = catch(std::panic::AssertUnwindSafe(|| -> Value {
        let sp = SentenceSplitter::with_limit(limit);
        let sp = match dict { Some(d) => sp.with_checker(d.lexicon()), None => sp };
        let mut ranges: Vec<Value> = Vec::new();
        let mut slices: Vec<Value> = Vec::new();
        let cap = text.chars().count() + 2;
        for (n, (r, s)) in sp.split(text).enumerate() {
            if n > cap { return json!({"res": "diverged"}); }
            // byte offsets -> code point offsets (std; a range off a character boundary cannot be sliced)
            if !text.is_char_boundary(r.start) || !text.is_char_boundary(r.end) { return json!({"res": "offboundary", "range": [r.start, r.end]}); }
            ranges.push(json!([text[..r.start].chars().count(), text[..r.end].chars().count()]));
            slices.push(json!(cps(s)));
        }
        json!({"res": "ok", "ranges": ranges, "slices": slices})
    }));
    match r { Ok(v) => v, Err(m) => json!({"res": "panic", "msg": m}) }
}

pub fn run(args: &[String]) -> i32 {
    quiet_panics();
    let lines = read_replay_lines(&args[0]);
    let mut tr = Trace::create(&args[1]);
    let seed = arg_u64(args, "--seed", 1);
    let nrandom = arg_u64(args, "--random", 300) as usize;
    let mut dicts_by_lex: BTreeMap<String, Rc<JapaneseDictionary>> = BTreeMap::new();
    let mut run = 0usize;
    let mut emit = |tr: &mut Trace, run: usize, text: &str, limit: usize, words: &Vec<String>, uselex: bool, dicts_by_lex: &mut BTreeMap<String, Rc<JapaneseDictionary>>| {
        let key = words.join("\u{1}");
        let d = dicts_by_lex.entry(key).or_insert_with(|| dict_with(words)).clone();
        let mut v = split(text, limit, if uselex { Some(&d) } else { None });
        v["ev"] = json!("sent"); v["run"] = json!(run); v["t"] = json!(cps(text)); v["limit"] = json!(limit);
        v["lex"] = json!(words.iter().map(|w| cps(w)).collect::<Vec<_>>()); v["uselex"] = json!(uselex);
        tr.emit(v);
    };
    for l in lines.iter() {
        run += 1;
        let words: Vec<String> = l["lex"].as_array().unwrap().iter().map(from_cps).collect();
        emit(&mut tr, run, &from_cps(&l["t"]), l["limit"].as_u64().unwrap() as usize, &words, l["uselex"].as_bool().unwrap(), &mut dicts_by_lex);
    }
    // random real texts: multi-byte characters at the window edge and inside the 30-byte look-back, nested brackets, headers
    let mut rng = Rng::new(seed);
    let pieces = ["。", "？", "！", "!", "?", "…", ".", "．", "・", "・・・", ",", "、", "（", "）", "「", "」", "(", ")", "a", "1", "１", "一", "と", "や", "の", "っ", "です", "あ", "いう", "漢字", " ", "　", "<br>", "<BR><br>", "\n", "𠮷", "é", "な。な", "x。", "3.14", "1.", "ｱ", "\\", "/", "-", "^", "]"];
    let lexes: Vec<Vec<String>> = vec![vec![], vec!["。".into()], vec!["な。な".into(), "。".into()], vec!["あ。".into(), "いう。あい".into(), "x。".into()], vec!["éééééééééééé!é".into(), "。".into(), "abcdefghijkl!mn".into()]];
    let fixtures = ["あいうえお。", "あいう。えお。", "あいう。。えお。", "あいうえお", "あいう えお。", "あいう.えお", "3.141", "四百十.〇", "あいうえお!??", "あ（いう。え）お", "（あ（いう）。え）お", "あ（いう）。えお",
        "1. あいう。えお", "あいう?えお", "あいう?)えお", "あいう?,えお", "あいう?です。", "あいう?って。", "あいう?という。", "あいう?の？です。", "1.と2.が。", "1.やb.から。", "1.の12.が。", "ばな。なです。",
        "テスト。テスト", "1）彼は「うん。いいよ」と言った。", "abcdefghijkl!mn次", "éééééééééééé!é。あ", "あ。あ", "a<br><br>b", "・・・そう", "え・・お"];
    for k in 0..(nrandom + fixtures.len() * lexes.len()) {
        run += 1;
        let (text, li) = if k < fixtures.len() * lexes.len() { (fixtures[k % fixtures.len()].to_string(), k / fixtures.len()) } else {
            let n = 1 + rng.below(14);
            ((0..n).map(|_| rng.pick_str(&pieces)).collect::<String>(), rng.below(lexes.len()))
        };
        let limit = if k % 5 == 0 { 4096 } else { 1 + rng.below(50) };
        emit(&mut tr, run, &text, limit, &lexes[li], k % 3 != 0 || li > 0, &mut dicts_by_lex);
    }
    let n = tr.finish();
    println!("{}", json!({"events": n, "runs": run}));
    0
}
