"""C18 - one loaded dictionary can be shared by concurrent tokenizers.

spec/Concurrent.tla        dictionary = a value written only by the loader's mutation points and frozen at publication; an analysis = Begin . Read* . End
                           on a tokenizer owned by its thread; variants: sound, guarded_shared (exclusive borrow) and three deliberately broken designs
spec/MC_Concurrent*.cfg    every interleaving of 3 threads x 2 analyses x 2 dictionary reads: EveryResultSequential, DictImmutable hold for the sound
                           designs and are violated by each broken one (negative control)
spec/Trace_Concurrent.tla  real executions: the loader's dict_write/frozen hook events (global sequence number), dictionary fingerprints and single-threaded
                           oracle results before/after, the outcome of every analysis of every Rust thread (own tokenizer over one Arc<JapaneseDictionary>)
                           and of every Python thread (own Tokenizer, one shared pre-tokenizer, one shared Tokenizer)
Schedules of the real code are those the OS produces (threads released by a barrier, staggered yields); TLC explores all interleavings of the model only.
"""
import json
import os
import subprocess
import sys
from . import common as C
from . import c19

PID = "C18"
W = os.path.join(C.WORK, "c18")
BROKEN = {"write_after_freeze": "DictImmutable", "shared_tokenizer": "EveryResultSequential", "split_lock": "EveryResultSequential"}


def mc(out):
    for v in ("sound", "guarded_shared"):
        r = C.tlc_mc("MC_Concurrent", f"MC_Concurrent_{v}.cfg", workers=10, timeout=40000, coverage=(v == "sound"))
        if r.violated:
            out.violation(f"model invariant {r.violated} violated in MC_Concurrent[{v}]", {"tlc_tail": r.tail}, signature=f"C18/model/{v}/{r.violated}")
        if v == "sound":
            out.require_actions(r, ["LoadWrite", "Freeze", "Begin", "Read", "End"])
        out.add_mc(f"MC_Concurrent[{v}]", r, {"threads": 3, "runs": 2, "reads": 2})
    for v, inv in BROKEN.items():
        r = C.tlc_mc("MC_Concurrent", f"MC_Concurrent_{v}.cfg", workers=4, timeout=40000, coverage=False)
        if r.violated != inv:
            raise C.ToolError(f"negative control: the broken design `{v}` does not violate {inv} (got {r.violated}) - the invariants would be vacuous")
    out.cov["negative_controls"] = "write_after_freeze violates DictImmutable; shared_tokenizer and split_lock violate EveryResultSequential"


def apalache(out):
    """the inductive invariant of the sound design (any number of reads per analysis and of analyses per thread), with a negative control"""
    import shutil
    import tempfile
    spec = os.path.join(os.path.dirname(os.path.dirname(os.path.abspath(__file__))), "spec")
    od = os.path.join(C.WORK, "apalache")
    tmp = os.path.join(C.WORK, "apalache_src")
    shutil.rmtree(tmp, ignore_errors=True)
    os.makedirs(tmp)
    for f in ("Concurrent.tla", "APA_Concurrent.tla"):
        shutil.copy(os.path.join(spec, f), tmp)
    bad = open(os.path.join(spec, "APA_Concurrent.tla")).read().replace('Variant = "sound"', 'Variant = "write_after_freeze"').replace("MODULE APA_Concurrent", "MODULE APA_Concurrent_bad")
    open(os.path.join(tmp, "APA_Concurrent_bad.tla"), "w").write(bad)

    def run(mod, args):
        p = subprocess.run(["apalache-mc", "check", f"--out-dir={od}", "--cinit=ConstInit"] + args + [mod + ".tla"], cwd=tmp, stdout=subprocess.PIPE, stderr=subprocess.STDOUT, text=True, timeout=1800)
        if "The outcome is: NoError" in p.stdout:
            return "ok"
        if "The outcome is: Error" in p.stdout:
            return "violated"
        raise C.ToolError("apalache-mc failed: " + p.stdout[-600:])

    steps = [("base case", "APA_Concurrent", ["--inv=IndInv", "--length=0"], "ok"),
             ("induction step", "APA_Concurrent", ["--init=IndInit", "--inv=IndInv", "--length=1"], "ok"),
             ("IndInv implies EveryResultSequential and DictImmutable", "APA_Concurrent", ["--init=IndInit", "--inv=Safety", "--length=0"], "ok"),
             ("non-vacuity of IndInit", "APA_Concurrent", ["--init=IndInit", "--inv=NoInterestingState", "--length=0"], "violated"),
             ("negative control: write after publication breaks the induction", "APA_Concurrent_bad", ["--init=IndInit", "--inv=IndInv", "--length=1"], "violated")]
    for name, mod, args, want in steps:
        got = run(mod, args)
        if got != want:
            if want == "ok":
                out.violation(f"Apalache: {name} of the inductive invariant of Concurrent fails", {"kind": "model", "step": name}, signature=f"C18/model/apalache/{name}")
            else:
                raise C.ToolError(f"Apalache control `{name}` passed although it must fail: the inductive argument would be vacuous")
    out.cov["inductive_invariant"] = ("Apalache: IndInv of the per-thread-tokenizer design is inductive for 4 threads and UNBOUNDED reads per analysis / analyses per thread "
                                      "(base case, step, IndInv => safety), IndInit is satisfiable in an interesting state, and the write-after-publication design fails the step")
    shutil.rmtree(od, ignore_errors=True)


def rust_run(world, cfg, threads, iters, seed, tag):
    os.makedirs(W, exist_ok=True)
    tp = os.path.join(W, f"rust_{tag}.ndjson")
    texts = os.path.join(W, "texts.json")
    p = C.run_vh(["c18-run", world, tp, "--cfg", cfg, "--threads", threads, "--iters", iters, "--seed", seed, "--limit", 120, "--dump-texts", texts, "--cold-trials", 200 if iters <= 3000 else 3000], timeout=600)
    ev = C.read_ndjson(tp)
    g = sorted([e for e in ev if e["ev"] in ("dict_write", "frozen")], key=lambda e: e["gseq"])
    return g, [e for e in ev if e["ev"] not in ("dict_write", "frozen")], texts


def py_run(world, cfg, texts, threads, iters, seed, tag):
    tp = os.path.join(W, f"py_{tag}.ndjson")
    env = dict(os.environ, PYTHONPATH=c19.PYPKG, RUST_BACKTRACE="0")
    p = subprocess.run([sys.executable, os.path.join(c19.PYDRV, "c18_py.py"), world, cfg, texts, tp, str(threads), str(iters), str(seed)], env=env,
                       stdout=subprocess.PIPE, stderr=subprocess.PIPE, text=True, timeout=1200)
    ev = C.read_ndjson(tp) if os.path.exists(tp) else []
    if p.returncode != 0 or not any(e["ev"] in ("py_done", "hang") for e in ev):
        ev.append({"ev": "crash", "msg": f"python exited {p.returncode}: {p.stderr[-300:]}"})
    return ev


def signature(run_events, bad):
    return None


def one_round(out, world, cfg, threads, iters, pyiters, seed, tag):
    g, rest, texts = rust_run(world, cfg, threads, iters, seed, tag)
    py = py_run(world, cfg, texts, min(threads, 8), pyiters, seed, tag)
    for e in g + rest + py:
        e["run"] = tag
    sound = g + rest + [e for e in py if e.get("arr") != "shared"]
    shared = g + [e for e in rest if e["ev"] in ("loaded", "oracle") and e.get("when", "before") == "before"] + [e for e in py if e.get("arr") == "shared" or e["ev"] in ("crash", "hang")]
    tp1 = os.path.join(C.WORK, "traces", f"c18_{tag}_sound.ndjson")
    tp2 = os.path.join(C.WORK, "traces", f"c18_{tag}_shared.ndjson")
    C.write_ndjson(tp1, sound)
    C.write_ndjson(tp2, shared)
    ev1, r1 = C.validate_trace(out, "Trace_Concurrent", "Trace_Concurrent_sound.cfg", tp1, f"C18/{cfg}", key="run", signature_fn=signature, timeout=40000)
    ev2, r2 = C.validate_trace(out, "Trace_Concurrent", "Trace_Concurrent_guarded_shared.cfg", tp2, f"C18/{cfg}/shared-tokenizer", key="run", signature_fn=signature, timeout=40000)
    return ev1, ev2, r1 + r2


def run(tier, replay=None):
    C.ensure_dirs()
    C.build_harness()
    world, cli = c19.build_bindings()
    if replay:
        obj = json.load(open(replay))
        evs = obj.get("replay", {}).get("events", [])
        out = C.Outcome(PID, "replay")
        out.dry = True
        cfg = next((e["cfg"] for e in evs if e.get("ev") == "loaded"), "full")
        rej = 0
        for k in range(3):      # schedules are not reproducible: the recorded configuration is run again three times
            _, _, r = one_round(out, world, cfg, 12, 30000, 1500, C.seed() + k, f"replay{k}")
            rej += r
        if rej:
            C.log(f"VIOLATION property={PID} replay={replay}")
            return 1
        C.log("replay: three new concurrent runs of the recorded configuration are behaviours of the specification")
        return 0
    out = C.Outcome(PID, tier)
    out.assumptions = [
        "TLC/SANY and the JSON bridge are trusted; hook H4 (dict_write / frozen, global sequence number taken under the recorder's lock) marks every mutation path of the loaded dictionary that the audit found",
        "interleavings of the REAL code are those the operating system produced in these runs (16 cores, threads released together by a barrier): all interleavings are explored for the model only",
        "a write to the dictionary that no hook marks and that changes no result and no public accessor value in any run is not observed",
        "compile-time Send + Sync of JapaneseDictionary is asserted in the harness (harness/src/c18.rs)",
    ]
    mc(out)
    apalache(out)
    rounds = [("full", 12, 40000, 2500), ("default", 16, 30000, 1500), ("regex", 8, 40000, 1500)]
    if tier == "thorough":
        rounds = [(c, t, i * 8, p * 6) for (c, t, i, p) in rounds] + [("full", 32, 100000, 4000), ("default", 3, 400000, 4000), ("regex", 16, 200000, 4000)]
    total, rej, allev = 0, 0, []
    for k, (cfg, th, it, pit) in enumerate(rounds):
        ev1, ev2, r = one_round(out, world, cfg, th, it, pit, C.seed() + k, f"{tier}{k}")
        rej += r
        allev.append((ev1, ev2))
        total += sum(e.get("count", 0) for e in ev1 + ev2 if e["ev"] in ("end", "py_end"))
    out.cov["traces_validated_against_impl"] += len(rounds) * 2
    out.cov["evaluations"] += total
    ev1, ev2 = allev[0]
    ends = [e for e in ev1 if e["ev"] == "end"]
    if len({e["thread"] for e in ends}) < 2 or not any(e["ev"] == "dict_write" for e in ev1) or not any(e["ev"] == "frozen" for e in ev1):
        raise C.ToolError("vacuous: fewer than two threads recorded, or no loader mutation point / publication event (hooks off?)")
    if not any(e["ev"] == "py_end" and e["arr"] == "pretok" for e in ev1) or not any(e["ev"] == "py_end" and e["res"] == "refused" for e in ev2):
        raise C.ToolError("vacuous: no pre-tokenizer call recorded, or the shared Tokenizer was never used concurrently")
    out.cov["analyses"] = total
    out.cov["distinct_nontrivial"] = len({(e["text"], e["mode"]) for e in ends})
    out.cov["rule"] = ("MC: all interleavings of 3 threads x <= 2 analyses x <= 2 dictionary reads (sound and guarded designs hold, 3 broken designs violate); real runs: %d rounds, "
                       "Rust: 8-16 (thorough up to 32) threads x 30-40k (thorough up to 400k) analyses each over 126 texts x 3 modes against one Arc<JapaneseDictionary> with every plugin type "
                       "(3 configurations incl. user dictionaries), Python: 8 threads x own Tokenizer / one shared pre-tokenizer / one shared Tokenizer; every outcome must equal the single-threaded "
                       "oracle recorded before AND after, the fingerprint of the dictionary must not change, no dict_write may follow frozen" % len(rounds))
    out.add_samples([{"thread": e["thread"], "text": e["text"], "mode": e["mode"], "count": e["count"]} for e in ends[:3]])
    if rej == 0:
        base = [json.loads(json.dumps(e)) for e in ev1]
        pp = os.path.join(C.WORK, "traces", "c18_probe.ndjson")
        k = next(i for i, e in enumerate(base) if e["ev"] == "end" and e["ms"])
        b2 = json.loads(json.dumps(base))
        b2[k]["ms"] = b2[k]["ms"][:-1]
        C.write_ndjson(pp, b2)
        m2, t2, _ = C.tlc_trace("Trace_Concurrent", "Trace_Concurrent_sound.cfg", pp)
        if m2 != k:
            raise C.ToolError(f"corruption probe: an altered thread result was not rejected at the event ({m2}, expected {k})")
        fz = next(i for i, e in enumerate(base) if e["ev"] == "frozen")
        b3 = base[:fz + 1] + [dict(base[0], ev="dict_write", gseq=9999)] + base[fz + 1:]
        C.write_ndjson(pp, b3)
        m3, t3, _ = C.tlc_trace("Trace_Concurrent", "Trace_Concurrent_sound.cfg", pp)
        if m3 != fz + 1:
            raise C.ToolError("corruption probe: a dictionary write after publication was not rejected")
        b4 = json.loads(json.dumps(base))
        k4 = next(i for i, e in enumerate(b4) if e["ev"] == "fingerprint" and e["when"] == "after")
        b4[k4]["fp"]["hash"] = "0" if b4[k4]["fp"]["hash"] != "0" else "1"
        C.write_ndjson(pp, b4)
        m4, t4, _ = C.tlc_trace("Trace_Concurrent", "Trace_Concurrent_sound.cfg", pp)
        if m4 != k4:
            raise C.ToolError("corruption probe: a changed dictionary fingerprint was not rejected")
        out.cov["corruption_probe"] = "a truncated thread result, a dict_write after frozen, a changed fingerprint: each rejected at that event"
    out.cov["exhaustive"] = False
    return out.finish()
