"""C07 - text normalisation is the specified context-free function of the input.

spec/Normalize.tla        Norm (the meaning), Fast/Slow (the two code paths) and their choice, Prolonged, Yomigana
spec/MC_Normalize.tla     all 256 tables over prefix-related keys x all texts <= MaxLen over structure-bearing letters
spec/Trace_Normalize.tla  every interesting (thorough: every) Unicode scalar alone and before a character that forces the general
                          path, random strings x random prefix-related tables, prolonged-mark and yomigana settings
"""
import json
import os
from . import common as C

PID = "C07"


def run(tier, replay=None):
    if replay:
        C.build_harness()
        return C.generic_replay(PID, replay)
    out = C.Outcome(PID, tier)
    C.ensure_dirs()
    C.build_harness()
    out.assumptions = [
        "TLC/SANY and the JSON bridge are trusted",
        "char::to_lowercase and the unicode-normalization crate (NFKC, quick check) are trusted tables; the recorder calls them directly, not through the plugin",
        "regular-expression engines are libraries: prolonged-mark and yomigana behaviour is specified declaratively on character kinds",
        "character kinds for yomigana come from CharacterCategory (judged separately by C17)",
    ]
    maxlen = 3 if tier == "quick" else 4
    cfg = os.path.join(C.WORK, "tlc", f"MC_Normalize_{tier}.cfg")
    with open(cfg, "w") as f:
        f.write(f"SPECIFICATION MSpec\nCONSTANTS\n  MaxLen = {maxlen}\nINVARIANTS IsNorm PathsAgree Emit\nCHECK_DEADLOCK FALSE\n")
    rp = os.path.join(C.WORK, "traces", f"c07_replay_{tier}.txt")
    with open(rp, "w") as f:
        r = C.tlc_mc("MC_Normalize", cfg, workers=8, sink=lambda l: f.write(l + "\n"), timeout=20000)
    if r.violated:
        out.violation(f"model invariant {r.violated} violated in MC_Normalize", {"tlc_tail": r.tail}, signature=f"C07/model/{r.violated}")
    out.require_actions(r, ["MLoad", "MRewrite"])
    out.add_mc("MC_Normalize", r, {"maxlen": maxlen, "tables": 512})
    p = C.run_vh(["c07-replay", rp], timeout=20000)
    res = json.loads(p.stdout.strip().splitlines()[-1])
    if res["cases"] == 0:
        raise C.ToolError("no behaviours replayed")
    out.cov["replayed_behaviours"] = res["cases"]
    out.cov["evaluations"] += res["cases"]
    for m in res["mismatches"][:4]:
        out.violation("S->I: DefaultInputTextPlugin output differs from Norm as computed by TLC: " +
                      json.dumps({k: m.get(k) for k in ("what", "table", "text", "expected", "got")}, ensure_ascii=False)[:400],
                      {"kind": "s2i", "cmd": ["c07-replay"], "behaviour": m.get("abstract"), "detail": {k: m[k] for k in m if k != "abstract"}})
    tp = os.path.join(C.WORK, "traces", f"c07_{tier}.ndjson")
    args = ["c07-record", tp, "--seed", C.seed(), "--random", 400 if tier == "quick" else 6000]
    if tier != "quick":
        args.append("--all-scalars")
    C.run_vh(args, timeout=20000)
    if tier == "quick":
        events, rej = C.validate_trace(out, "Trace_Normalize", "Trace_Normalize.cfg", tp, "C07", timeout=40000)
    else:
        # the exhaustive sweep is validated run by run, several TLC processes at a time
        from concurrent.futures import ThreadPoolExecutor
        allev = C.read_ndjson(tp)
        shards, order = {}, []
        for e in allev:
            if e["run"] not in shards:
                shards[e["run"]] = []
                order.append(e["run"])
            shards[e["run"]].append(e)
        groups = [order[i::8] for i in range(8)]

        def work(k):
            path = os.path.join(C.WORK, "traces", f"c07_{tier}_shard{k}.ndjson")
            C.write_ndjson(path, [e for r in groups[k] for e in shards[r]])
            o = C.Outcome(PID, tier)
            o.dry = True
            evs, rj = C.validate_trace(o, "Trace_Normalize", "Trace_Normalize.cfg", path, "C07", timeout=40000)
            return path, rj
        with ThreadPoolExecutor(max_workers=8) as ex:
            results = list(ex.map(work, [k for k in range(8) if groups[k]]))
        rej = 0
        for path, rj in results:
            if rj:      # report through the ordinary path (writes the replay files)
                _, r2 = C.validate_trace(out, "Trace_Normalize", "Trace_Normalize.cfg", path, "C07", timeout=40000)
                rej += r2
        events = allev
        out.cov["trace_events"] = out.cov.get("trace_events", 0) + len(allev)
    obs = [e for e in events if e["ev"] in ("norm", "prolonged", "yomigana")]
    out.cov["traces_validated_against_impl"] += len(obs)
    out.cov["evaluations"] += len(obs)
    out.cov["distinct_nontrivial"] = len({json.dumps(e["text"]) for e in obs if e.get("out") is not None and e["out"] != e["text"]})
    out.cov["rule"] = ("MC: 512 tables (subsets of 9 keys incl. keys that are prefixes of other keys, a key starting with an upper-case letter and one starting with an "
                       "NFKC-expanding character) x all texts <= %d over {plain, upper-case, NFKC 1->1, NFKC 1->4, exempt upper-case, title-case, a, b, c}; traces: shipped "
                       "tables x Unicode scalars alone and followed by a full-width capital, random tables x random strings, 3 prolonged-mark and 3 yomigana settings; "
                       "non-trivial = distinct texts that the plugin changed" % maxlen)
    out.add_samples([e for e in obs if e.get("out") is not None and e["out"] != e["text"]][:3])
    if rej == 0:
        idx = next(i for i, e in enumerate(events) if e["ev"] == "norm" and e.get("out") and e["out"] != e["text"])
        ti = max(i for i, e in enumerate(events[:idx]) if e["ev"] == "table")
        ev2 = json.loads(json.dumps([events[ti], events[idx - 1], events[idx]]))
        ev2[2]["out"] = ev2[2]["out"] + [33]
        pp = os.path.join(C.WORK, "traces", "c07_probe.ndjson")
        C.write_ndjson(pp, ev2)
        m2, t2, _ = C.tlc_trace("Trace_Normalize", "Trace_Normalize.cfg", pp)
        if m2 != 2:
            raise C.ToolError(f"corruption probe: altered normalised text but TLC matched {m2} of {t2}")
        out.cov["corruption_probe"] = "one character appended to a recorded normalised text: rejected exactly there"
    out.cov["exhaustive"] = True
    return out.finish()
