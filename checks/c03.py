"""C03 - tokenization is total: an outcome algebra {ok, toolong, err}, panics unmatchable.

spec/Totality.tla        Analyse(nbytes, final, fallback, res) with Expected(..) from the two documented limits; Touch (all accessors + split API)
spec/MC_Totality.tla     the limit arithmetic at the REAL constants (49,149 / 65,535): every composition of kept 1-byte characters, 3->1 byte
                         shrinking characters and 3->33 byte expanding characters (U+FDFA) that sits one below / on / one above either limit
spec/Trace_Totality.tla  one event per real analysis: TLC's limit compositions in four block orders (S->I), and the recorder's hostile inputs:
                         every Unicode scalar (thorough) or a stride (quick), NUL/controls/unassigned/astral/ZWJ/combining mixtures, a length ladder of
                         18 repeated units around 49,149 bytes in the fixture worlds, cost-extreme and random generated dictionaries (I->S)
The harness is built with debug assertions and overflow checks on; a panic of the code under test is recorded as res="panic" and no
action of the specification produces that value.
"""
import json
import os
from . import common as C

PID = "C03"


def flatten(events):
    out = []
    for e in events:
        x = e.get("extra", {})
        f = dict(e)
        f["has_model"] = "expect" in x
        f["mfinal"] = x.get("model_final", 0)
        f["expect"] = x.get("expect", "")
        out.append(f)
    return out


def signature(run_events, bad):
    # known findings are identified by the call site of the panic, not by the input
    if bad.get("res") == "panic" or bad.get("touch") == "panic":
        loc = (bad.get("loc") or "?").rsplit(":", 1)[0]
        msg = bad.get("msg", "")
        kind = "arith-overflow" if "with overflow" in msg else "".join(ch if ch.isalnum() else "-" for ch in msg[:40]).strip("-")
        return f"C03/panic/{loc}/{kind}"
    return None


def run(tier, replay=None):
    C.ensure_dirs()
    C.build_harness()
    if replay:
        obj = json.load(open(replay))
        evs = [e for e in obj.get("replay", {}).get("events", []) if e.get("ev") == "tok"]
        if not evs:
            return C.generic_replay(PID, replay)
        # re-run the recorded case on the current code, then validate what it does now
        tp = os.path.join(C.WORK, "traces", "C03_replay.ndjson")
        p = C.run_vh(["c03-single", tp, json.dumps([{"world": e["world"], "mode": e.get("mode", 2), "recipe": e["recipe"], "reuse": e.get("reuse", False)} for e in evs])], check=False)
        if p.returncode != 0:
            C.log("replay: the world of this case is generated per seed; validating the recorded event instead")
            return C.generic_replay(PID, replay)
        now = flatten(C.read_ndjson(tp))
        for a, b in zip(now, evs):
            a["has_model"], a["mfinal"], a["expect"] = b.get("has_model", False), b.get("mfinal", 0), b.get("expect", "")
        C.write_ndjson(tp, now)
        m, t, r = C.tlc_trace("Trace_Totality", "Trace_Totality.cfg", tp)
        if m < t or r.violated:
            bad = now[min(m, len(now) - 1)]
            C.log("replay: the current code still leaves the outcome algebra: " + json.dumps({k: bad[k] for k in ("res", "touch", "msg", "loc", "nbytes", "final", "covered")}))
            C.log(f"VIOLATION property={PID} replay={replay}")
            return 1
        C.log("replay: the current code's outcome is a step of the specification")
        return 0
    out = C.Outcome(PID, tier, level="exploration")
    out.assumptions = [
        "TLC/SANY and the JSON bridge are trusted; the harness is compiled with debug-assertions and overflow-checks on (opt-level 2), so an arithmetic overflow or a failed debug assertion is a panic and therefore a rejected event",
        "out-of-bounds reads of unchecked indexing are observed only through the debug assertions that guard them (trie, word id table, connection matrix) - no sanitizer run",
        "`final` is the length the code itself reports; only for TLC's limit compositions is it compared with an independent value (the model's arithmetic over the known NFKC lengths of U+FDFA and U+FF21)",
        "configurations = the seven fixture plugin stacks, three cost-extreme dictionaries and seeded random generated dictionaries; all have a fallback OOV provider",
    ]
    # 1. the limit arithmetic at the real constants
    ip = os.path.join(C.WORK, "traces", f"c03_in_{tier}.txt")
    with open(ip, "w") as f:
        r = C.tlc_mc("MC_Totality", "MC_Totality.cfg", workers=4, sink=lambda l: f.write(l + "\n"), timeout=3000)
    if r.violated:
        out.violation(f"model invariant {r.violated} violated in MC_Totality", {"tlc_tail": r.tail}, signature=f"C03/model/{r.violated}")
    out.require_actions(r, ["MCase"])
    out.add_mc("MC_Totality[real limits]", r, {"MaxLen": 49149, "ReallyMax": 65535})
    tp1 = os.path.join(C.WORK, "traces", f"c03_limits_{tier}.ndjson")
    p = C.run_vh(["c03-replay", ip, tp1, "--every", 1 if tier == "thorough" else 2], timeout=40000)
    info1 = json.loads(p.stdout.strip().splitlines()[-1])
    # 2. hostile inputs, ladder, extreme dictionaries
    tp2 = os.path.join(C.WORK, "traces", f"c03_rec_{tier}.ndjson")
    p = C.run_vh(["c03-record", tp2, "--seed", C.seed(), "--tier", tier], timeout=40000)
    info2 = json.loads(p.stdout.strip().splitlines()[-1])
    tp = os.path.join(C.WORK, "traces", f"c03_{tier}.ndjson")
    evs = flatten(C.read_ndjson(tp1)) + flatten(C.read_ndjson(tp2))
    # a replayable unit is a short history on one tokenizer: consecutive analyses of one world, at most 8
    run, prev, size = 0, None, 0
    for e in evs:
        if e["world"] != prev or size >= 8:
            run, size = run + 1, 0
        prev, size = e["world"], size + 1
        e["run"] = run
    C.write_ndjson(tp, evs)
    events, rej = C.validate_trace(out, "Trace_Totality", "Trace_Totality.cfg", tp, "C03", signature_fn=signature, timeout=40000)
    n = info1["runs"] + info2["runs"]
    out.cov["traces_validated_against_impl"] += n
    out.cov["evaluations"] += n
    by = {}
    for e in events:
        k = f'{e["extra"].get("part")}/{e["res"]}'
        by[k] = by.get(k, 0) + 1
    out.cov["outcomes_by_part"] = by
    out.cov["distinct_nontrivial"] = sum(1 for e in events if e["res"] == "toolong" or e["nbytes"] > 40000)
    out.cov["rule"] = ("S->I: %d limit compositions from TLC x 4 block orders on the worlds with the default input plugin; I->S: %d analyses: 40 hostile units x 4 contexts x 7 worlds, "
                       "Unicode scalar sweep (%s), random hostile/Japanese mixtures, 18 repeated units x 6 lengths around 49,149 bytes, 3 cost-extreme dictionaries x 7 long texts, "
                       "random generated dictionaries x 6 texts; non-trivial = analyses above 40,000 bytes or refused as too long"
                       % (info1["lines"], info2["runs"], "every scalar, 3 worlds" if tier == "thorough" else "stride 61, 1 world"))
    out.add_samples([{"world": e["world"], "nbytes": e["nbytes"], "final": e["final"], "res": e["res"], "recipe": json.dumps(e["recipe"])[:80]} for e in events if e["res"] == "toolong"][:3])
    if not any(e["res"] == "toolong" and e["nbytes"] <= 49149 for e in events) or not any(e["res"] == "toolong" and e["nbytes"] > 49149 for e in events):
        raise C.ToolError("vacuous: no analysis was refused on the rewritten length / on the original length")
    if not any(e["res"] == "ok" and e["nbytes"] == 49149 for e in events) or not any(e["res"] == "ok" and e["final"] == 65535 for e in events):
        raise C.ToolError("vacuous: no successful analysis exactly on a limit")
    # corruption probe: a truncated result and a panic outcome must be rejected
    okev = next(e for e in events if e["res"] == "ok" and e["nbytes"] > 10)
    for name, mut in (("truncated result", {"covered": okev["nbytes"] - 1}), ("panic outcome", {"res": "panic"}), ("success beyond the limit", {"nbytes": 49150})):
        e2 = dict(okev)
        e2.update(mut)
        pp = os.path.join(C.WORK, "traces", "c03_probe.ndjson")
        C.write_ndjson(pp, [e2])
        m2, t2, _ = C.tlc_trace("Trace_Totality", "Trace_Totality.cfg", pp)
        if m2 != 0:
            raise C.ToolError(f"corruption probe: {name} was not rejected")
    out.cov["corruption_probe"] = "truncated result / panic outcome / success beyond the limit: each rejected"
    out.cov["exhaustive"] = False
    return out.finish()
