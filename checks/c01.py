"""C01 - morphemes partition the original text byte-for-byte (lossless surfaces)."""
from .ibcommon import run_ib


def run(tier, replay=None):
    return run_ib("C01", tier, replay)
