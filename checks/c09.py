"""C09 - modes A and B refine mode C with exactly the dictionary's split units.

spec/Split.tla        SplitToken / SplitPath (unit k ends at start + key length, the last inherits the parent end), Refines, SplitApiOK
spec/MC_Split.tla     a dictionary with nested declarations (1/3/4-byte units, user layer referencing system and own words), all mode-C paths
spec/Trace_Split.tla  real analyses in the three modes + the split API, on that dictionary (texts <= 4 exhaustively) and on generated ones
"""
import json
import os
from . import common as C

PID = "C09"


def run(tier, replay=None):
    if replay:
        C.build_harness()
        return C.generic_replay(PID, replay)
    out = C.Outcome(PID, tier)
    C.ensure_dirs()
    C.build_harness()
    out.assumptions = [
        "TLC/SANY and the JSON bridge are trusted",
        "generated dictionaries declare units that concatenate to the word's key (the statement's precondition); words declaring exactly one unit are not judged",
        "a sub-token that is a declared unit covers exactly the (normalised) text that is the unit's key",
    ]
    mt = 3 if tier == "quick" else 4
    cfg = os.path.join(C.WORK, "tlc", f"MC_Split_{tier}.cfg")
    with open(cfg, "w") as f:
        f.write(f"SPECIFICATION MSpec\nCONSTANTS\n  MaxTokens = {mt}\nINVARIANTS RefinesA RefinesB ModeCIdentity ApiAgrees\nCHECK_DEADLOCK FALSE\n")
    r = C.tlc_mc("MC_Split", cfg, workers=8, timeout=20000)
    if r.violated:
        out.violation(f"model invariant {r.violated} violated in MC_Split", {"tlc_tail": r.tail}, signature=f"C09/model/{r.violated}")
    out.require_actions(r, ["MGrow"])
    out.add_mc("MC_Split", r, {"max_tokens": mt})
    tp = os.path.join(C.WORK, "traces", f"c09_{tier}.ndjson")
    args = ["c09-record", tp, "--seed", C.seed()] + (["--worlds", 8, "--texts", 60, "--exhaustive-cap", 800] if tier == "quick" else ["--worlds", 200, "--texts", 150, "--exhaustive-cap", 100000])
    p = C.run_vh(args, timeout=20000)
    info = json.loads(p.stdout.strip().splitlines()[-1])
    events, rej = C.validate_trace(out, "Trace_Split", "Trace_Split.cfg", tp, "C09", timeout=20000)
    ms = [e for e in events if e["ev"] == "modes" and "err" not in e]
    out.cov["traces_validated_against_impl"] += len(ms)
    out.cov["evaluations"] += len(ms)
    out.cov["distinct_nontrivial"] = len({json.dumps(e["text"]) for e in ms if len(e["A"]) > len(e["C"]) or len(e["B"]) > len(e["C"])})
    out.cov["split_api_calls"] = sum(len(e["api"]) for e in ms)
    out.cov["rule"] = ("MC: every mode-C path of <= %d tokens over the words of a dictionary with nested A/B declarations; traces: that dictionary on texts <= 4 over its letters "
                       "(plus upper-case / full-width spellings, so original and normalised lengths differ) and generated dictionaries (system->system, user->system, user->user references; "
                       "headwords wider/narrower than their key), each text in modes C/A/B with fresh and mode-switched tokenizers and split_into on every mode-C token; "
                       "non-trivial = distinct texts where mode A or B yields more tokens than mode C" % mt)
    out.add_samples([{k: e[k] for k in ("text", "C", "A")} for e in ms if len(e["A"]) > len(e["C"])][:2])
    if rej == 0:
        idx = next(i for i, e in enumerate(events) if e["ev"] == "modes" and "err" not in e and len(e["A"]) > len(e["C"]))
        wi = max(i for i, e in enumerate(events[:idx]) if e["ev"] == "world")
        ev2 = json.loads(json.dumps([events[wi], events[idx]]))
        k = next(j for j in range(len(ev2[1]["A"]) - 1) if ev2[1]["A"][j]["e"] == ev2[1]["A"][j + 1]["b"])
        ev2[1]["A"][k]["e"] += 1
        ev2[1]["A"][k + 1]["b"] += 1
        pp = os.path.join(C.WORK, "traces", "c09_probe.ndjson")
        C.write_ndjson(pp, ev2)
        m2, t2, _ = C.tlc_trace("Trace_Split", "Trace_Split.cfg", pp)
        if m2 != 1:
            raise C.ToolError(f"corruption probe: a moved sub-token boundary was not rejected ({m2} of {t2})")
        out.cov["corruption_probe"] = "an inner boundary of a mode-A result moved by one byte: rejected"
    out.cov["exhaustive"] = True
    return out.finish()
