"""C11 - loading a subset of word fields never changes the fields that were requested.

spec/DictRecord.tla     reader under a subset (light/heavy fields, early exit), closure, accessors; SubsetStable over all 1024 subsets
spec/MC_DictRecord.tla  target row over the value lattice; rows replayed through get_word_info_subset under all 1024 subsets
spec/Trace_Subset.tla   every word of the repository dictionaries under subsets; analyses under subsets / call orders vs full analysis
"""
import json
import os
from . import common as C
from .c05 import mc_cfg

PID = "C11"


def run(tier, replay=None):
    if replay:
        C.build_harness()
        return C.generic_replay(PID, replay)
    out = C.Outcome(PID, tier)
    C.ensure_dirs()
    C.build_harness()
    out.assumptions = [
        "TLC/SANY and the JSON bridge are trusted",
        "a request is closed as the tokenizer closes it (InfoSubset::normalize) before it reaches the reader, as every front end does",
        "nothing is compared for fields that were not requested",
    ]
    lens = [1] if tier == "quick" else [1, 127, 128]
    rp = os.path.join(C.WORK, "traces", f"c11_replay_{tier}.txt")
    with open(rp, "w") as f:
        for hassyn in (True, False):
            cfg = os.path.join(C.WORK, "tlc", f"MC_DictRecord_c11_{tier}_{int(hassyn)}.cfg")
            mc_cfg(cfg, lens, hassyn=hassyn, inv="SubsetStable")
            r = C.tlc_mc("MC_DictRecord", cfg, workers=8, sink=(lambda l: f.write(l + "\n")) if hassyn else (lambda l: None), timeout=10000)
            if r.violated:
                out.violation(f"model invariant {r.violated} violated in MC_DictRecord", {"tlc_tail": r.tail}, signature=f"C11/model/{r.violated}")
            out.require_actions(r, ["MAdd0", "MAdd1", "MCompile"])
            out.add_mc(f"MC_DictRecord[SubsetStable, HasSyn={hassyn}]", r, {"lens": lens, "subsets": 1024})
    p = C.run_vh(["c05-replay", "--subsets", rp])
    res = json.loads(p.stdout.strip().splitlines()[-1])
    if res["behaviours"] == 0 or res["reads"] == 0:
        raise C.ToolError("no behaviours replayed")
    out.cov["replayed_behaviours"] = res["behaviours"]
    out.cov["evaluations"] += res["reads"]
    for m in res["mismatches"][:4]:
        out.violation("S->I: a requested field read under a subset differs from the value TLC computed: " +
                      json.dumps({k: m.get(k) for k in ("what", "word", "subset", "field", "expected", "got")}, ensure_ascii=False)[:400],
                      {"kind": "s2i", "cmd": ["c05-replay", "--subsets"], "behaviour": m.get("abstract"), "detail": {k: m[k] for k in m if k != "abstract"}})
    # ---- I->S
    nsub, ntexts = (48, 60) if tier == "quick" else (1024, 600)
    tp = os.path.join(C.WORK, "traces", f"c11_{tier}.ndjson")
    C.run_vh(["c11-record", tp, "--seed", C.seed(), "--subsets", nsub, "--texts", ntexts])
    events, rej = C.validate_trace(out, "Trace_Subset", "Trace_Subset.cfg", tp, "C11", key="__none__", timeout=10000)
    out.cov["traces_validated_against_impl"] += len(events)
    out.cov["evaluations"] += len(events)
    out.cov["distinct_nontrivial"] = len({(e.get("bits"), e.get("mode"), e.get("order")) for e in events if e["ev"] == "tsub" and len(e["ms"]) > 1})
    out.cov["rule"] = ("MC: all 1024 subsets x target rows over the value lattice; traces: every word of lex.csv/user1.csv/user2.csv under sampled (thorough: all) "
                       "subsets, and analyses (2 plugin configurations x modes A/B/C x 3 orders of set_mode/set_subset) under subsets vs the full-field analysis; "
                       "non-trivial = distinct (subset, mode, order) with a multi-token result")
    out.add_samples([e for e in events if e["ev"] == "wsub"][10:11] + [e for e in events if e["ev"] == "tsub" and len(e["ms"]) > 1][:1])
    if rej == 0:
        idx = next(i for i, e in enumerate(events) if e["ev"] == "wsub" and e["req"])
        ev2 = json.loads(json.dumps(events[idx:idx + 1]))
        k = sorted(ev2[0]["req"].keys())[0]
        ev2[0]["req"][k] = [9, 9, 9] if ev2[0]["req"][k] != [9, 9, 9] else [8]
        pp = os.path.join(C.WORK, "traces", "c11_probe.ndjson")
        C.write_ndjson(pp, ev2)
        m2, t2, _ = C.tlc_trace("Trace_Subset", "Trace_Subset.cfg", pp)
        if m2 != 0:
            raise C.ToolError(f"corruption probe: altered a requested field but TLC matched {m2} of {t2}")
        out.cov["corruption_probe"] = "one requested field of a recorded read altered: rejected"
    out.cov["exhaustive"] = True
    return out.finish()
