"""C06 - the dictionary compiler is total and never emits an invalid dictionary.

spec/DictBuild.tla        outcome algebra {ok, err}; sink failure => err; ok => read-back validity (ids by use, references,
                          limits) and successful load + analyses
spec/MC_DictBuild.tla     TLC enumerates the fault space: every field of a lexicon row and the matrix text in its defect classes,
                          all single defects and all pairs (thorough: triples)
spec/Trace_DictBuild.tla  the real compiler's outcomes on every enumerated input and on a sink failing at every byte
"""
import json
import os
from . import common as C

PID = "C06"


def signature(run_events, bad):
    """Signature of a rejected run (used only to recognise listed known findings)."""
    case = next((e for e in run_events if e["ev"] == "case"), None)
    if case is None:
        return None
    cls = case["cls"]
    if bad.get("ev") == "probe" and str(bad.get("res", "")).startswith("panic index out of bounds") \
            and cls.get("mode") == "C" and cls.get("splita") in ("ids", "n127", "inline_ok"):
        return "C06/probe/split-units-exceed-word"
    return None


def replay_case(path):
    """Re-run the recorded defect-class combination through the current compiler and validate the fresh trace."""
    obj = json.load(open(path))
    evs = obj.get("replay", {}).get("events", [])
    case = next((e for e in evs if e["ev"] == "case"), None)
    if case is None:
        return C.generic_replay(PID, path)
    ip = os.path.join(C.WORK, "traces", "c06_rerun_input.txt")
    with open(ip, "w") as f:
        f.write('<<"REPLAY", ' + json.dumps(json.dumps(case["cls"])) + ">>\n")
    tp = os.path.join(C.WORK, "traces", "c06_rerun.ndjson")
    C.run_vh(["c06-run", ip, tp, "--sink-cases", 1 if "sink_limit" in case else 0])
    matched, total, r = C.tlc_trace("Trace_DictBuild", "Trace_DictBuild.cfg", tp)
    if matched < total:
        ev = C.read_ndjson(tp)
        C.log(f"replay: re-run rejected at event {matched + 1} of {total}: {json.dumps(ev[matched])[:300]}")
        sig = signature(ev, ev[matched])
        known = [k for k in C.load_known().get("known", []) if k.get("signature") == sig]
        if known:
            C.log(f"KNOWN-FINDING: property={PID} {known[0]['what']}")
            return 0
        C.log(f"VIOLATION property={PID} replay={path}")
        return 1
    C.log("replay: the compiler's behaviour on this input is allowed by the specification")
    return 0


def run(tier, replay=None):
    if replay:
        C.build_harness()
        return replay_case(replay)
    out = C.Outcome(PID, tier, level="fault_enumeration")
    C.ensure_dirs()
    C.build_harness()
    out.assumptions = [
        "TLC/SANY and the JSON bridge are trusted; the renderer from defect classes to CSV/matrix bytes is part of the harness",
        "validity is judged on what is read back from the produced dictionary through the public reader and on probe analyses "
        "(debug assertions on), never on the compiler's own structures; the compiler may refuse more than necessary",
        "matrix dimensions are named by use: a word's right_id indexes the first matrix dimension, its left_id the second",
    ]
    maxd = 2 if tier == "quick" else 3
    cfg = os.path.join(C.WORK, "tlc", f"MC_DictBuild_{tier}.cfg")
    with open(cfg, "w") as f:
        f.write(f"SPECIFICATION MSpec\nCONSTANTS\n  MaxDefects = {maxd}\nINVARIANTS NoPanicType Emit\nCHECK_DEADLOCK FALSE\n")
    ip = os.path.join(C.WORK, "traces", f"c06_inputs_{tier}.txt")
    with open(ip, "w") as f:
        r = C.tlc_mc("MC_DictBuild", cfg, workers=8, sink=lambda l: f.write(l + "\n"), timeout=10000)
    out.require_actions(r, ["MSet", "MCompile"])
    out.add_mc("MC_DictBuild", r, {"max_defects": maxd})
    tp = os.path.join(C.WORK, "traces", f"c06_{tier}.ndjson")
    p = C.run_vh(["c06-run", ip, tp, "--sink-cases", 3 if tier == "quick" else 12], timeout=20000)
    info = json.loads(p.stdout.strip().splitlines()[-1])
    events, rej = C.validate_trace(out, "Trace_DictBuild", "Trace_DictBuild.cfg", tp, "C06", signature_fn=signature, timeout=20000, max_report=6)
    comp = [e for e in events if e["ev"] == "compile"]
    out.cov["evaluations"] = len(comp)
    out.cov["traces_validated_against_impl"] = info["cases"]
    out.cov["inputs_enumerated"] = info["inputs"]
    out.cov["sink_failure_offsets"] = sum(1 for e in comp if e["fail_at"] >= 0)
    out.cov["compiled_ok"] = sum(1 for e in comp if e["res"] == "ok")
    out.cov["distinct_nontrivial"] = len({json.dumps(e["cls"], sort_keys=True) for e in events if e["ev"] == "case" and "sink_limit" not in e})
    out.cov["rule"] = ("TLC enumerates all combinations of at most %d defect classes over 11 row fields and 15 matrix-text classes; each is rendered to bytes and compiled; "
                       "every successfully compiled dictionary is read back, loaded and analysed; a sink failing after k bytes for every k of some compiled dictionaries; "
                       "non-trivial = distinct defect-class combinations" % maxd)
    out.add_samples([e for e in events if e["ev"] == "case"][5:7] + [e for e in events if e["ev"] == "readback"][:1])
    if rej == 0 or (rej and not out.violations):
        # corruption probe: a sink failure reported as success must be rejected
        idx = next(i for i, e in enumerate(events) if e["ev"] == "compile" and e["fail_at"] >= 0)
        ev2 = json.loads(json.dumps(events[idx - 1:idx + 1]))
        ev2[1]["res"] = "ok"
        pp = os.path.join(C.WORK, "traces", "c06_probe.ndjson")
        C.write_ndjson(pp, ev2)
        m2, t2, _ = C.tlc_trace("Trace_DictBuild", "Trace_DictBuild.cfg", pp)
        if m2 != 1:
            raise C.ToolError(f"corruption probe: success under a failing sink was accepted ({m2} of {t2})")
        out.cov["corruption_probe"] = "a sink failure altered to report success: rejected"
    out.cov["exhaustive"] = True
    return out.finish()
