"""C08 and C01 share the InputBuffer specification, the S->I replay of TLC-enumerated edit
histories and the I->S validation of whole tokenizations; they differ in which conjuncts
of Trace_InputBuffer gate (constant Check)."""
import json
import os
from . import common as C

KEEP = {"run", "start_build", "commit", "rollback", "result"}
MFIELDS = ("begin", "end", "begin_c", "end_c", "surface")


def mc_cfg(path, maxchars, maxedits, maxbatches, alphabet, genhist):
    with open(path, "w") as f:
        f.write(f"""SPECIFICATION MCSpec
CONSTANTS
  MaxLen = 49149
  ReallyMaxLen = 65535
  Alphabet = {{{', '.join(map(str, alphabet))}}}
  MaxChars = {maxchars}
  MaxEdits = {maxedits}
  MaxBatches = {maxbatches}
  Repl <- ReplSet
  GenHist = {'TRUE' if genhist else 'FALSE'}
INVARIANTS TypeOK MapOK AnyTilingPartitions Emit
CHECK_DEADLOCK FALSE
""")


def project(src, dst):
    """Keep the events Trace_InputBuffer consumes (selection by event type only)."""
    n = 0
    idx = []
    with open(dst, "w") as out:
        for i, line in enumerate(open(src)):
            e = json.loads(line)
            if e["ev"] not in KEEP:
                continue
            if e["ev"] == "result" and e["res"] == "ok":
                e = {"ev": "result", "run": e["run"], "res": "ok",
                     "morphemes": [{k: m[k] for k in MFIELDS} for m in e["morphemes"]]}
            elif e["ev"] == "run":
                e = {k: e[k] for k in ("ev", "run", "world", "mode", "text")}
            out.write(json.dumps(e, separators=(",", ":")) + "\n")
            idx.append(i)
            n += 1
    return n, idx


def replay_ib(pid, path):
    """Re-run the recorded case on the current code, then validate the fresh trace."""
    obj = json.load(open(path))
    rp = obj.get("replay", {})
    if rp.get("kind") != "trace":
        return C.generic_replay(pid, path)
    run = next(e for e in rp["events"] if e["ev"] == "run")
    raw = os.path.join(C.WORK, "traces", f"{pid}_rerun.ndjson")
    C.run_vh(["tok-record", raw, "--single", json.dumps({"world": run["world"], "mode": run["mode"], "text": run["text"]})])
    tp = os.path.join(C.WORK, "traces", f"{pid}_rerun_ib.ndjson")
    project(raw, tp)
    matched, total, r = C.tlc_trace("Trace_InputBuffer", f"Trace_InputBuffer_{pid}.cfg", tp)
    if matched < total or r.violated:
        C.log(f"replay: re-recorded execution rejected at event {matched + 1} of {total}")
        C.log(f"VIOLATION property={pid} replay={path}")
        return 1
    C.log("replay: the re-recorded execution is a behaviour of the specification")
    return 0


def run_ib(pid, tier, replay):
    if replay:
        C.build_harness()
        return replay_ib(pid, replay)
    out = C.Outcome(pid, tier)
    C.ensure_dirs()
    C.build_harness()
    out.assumptions = [
        "TLC/SANY and the CommunityModules JSON reader are trusted",
        "hook H1 logs the pending edit operations before they are applied and the rewritten text / offset map after (sudachi/src/input_text/buffer)",
        "morpheme begin/end/begin_c/end_c/surface are read through the public Morpheme accessors",
    ]
    alpha_q = [97, 12354, 134071]
    alpha_t = [97, 233, 12354, 134071]
    # ---- 1. model checking (no history variable, larger bounds)
    # thorough: two instances instead of their product (3 batches x 4 letters x 3 characters does not finish in an hour):
    # all four byte widths with 2 batches, and 3 stacked batches over the 1- and 4-byte letters
    runs = [dict(maxchars=3, maxedits=2, maxbatches=2, alphabet=[97, 134071])] if tier == "quick" else \
        [dict(maxchars=3, maxedits=2, maxbatches=2, alphabet=alpha_t), dict(maxchars=2, maxedits=2, maxbatches=3, alphabet=[97, 134071])]
    for k, b_mc in enumerate(runs):
        cfg = os.path.join(C.WORK, "tlc", f"MC_InputBuffer_{pid}_{tier}_{k}.cfg")
        mc_cfg(cfg, genhist=False, **b_mc)
        r = C.tlc_mc("MC_InputBuffer", cfg, workers=8, timeout=3000)
        if r.violated:
            out.violation(f"model invariant {r.violated} violated in MC_InputBuffer", {"tlc_tail": r.tail}, signature=f"{pid}/model/{r.violated}")
        out.require_actions(r, ["MCStart", "MCCommit"])
        out.add_mc(f"MC_InputBuffer[{k}]", r, b_mc)
    # ---- 2. behaviours with history -> replay on the real InputBuffer / MorphemeList
    b_gen = dict(maxchars=2, maxedits=2, maxbatches=2, alphabet=alpha_q) if tier == "quick" else \
        dict(maxchars=3, maxedits=2, maxbatches=2, alphabet=alpha_q)
    cfg = os.path.join(C.WORK, "tlc", f"Gen_InputBuffer_{pid}_{tier}.cfg")
    mc_cfg(cfg, genhist=True, **b_gen)
    rp = os.path.join(C.WORK, "traces", f"{pid}_replay_{tier}.txt")
    with open(rp, "w") as f:
        g = C.tlc_mc("MC_InputBuffer", cfg, workers=8, sink=lambda l: f.write(l + "\n"), timeout=3000)
    out.add_mc("Gen_InputBuffer", g, b_gen)
    p = C.run_vh(["c08-replay", rp])
    res = json.loads(p.stdout.strip().splitlines()[-1])
    if res["behaviours"] == 0:
        raise C.ToolError("no behaviours replayed")
    out.cov["replayed_behaviours"] = res["behaviours"]
    out.cov["replayed_steps"] = res["steps"]
    out.cov["evaluations"] += res["behaviours"]
    for m in res["mismatches"][:5]:
        out.violation("S->I: real InputBuffer differs from the behaviour TLC computed: " +
                      json.dumps({k: m.get(k) for k in ("what", "step", "expected", "got")})[:400],
                      {"kind": "s2i", "cmd": ["c08-replay"], "behaviour": m.get("abstract"), "detail": {k: m[k] for k in m if k != "abstract"}})
    # ---- 3. I->S: whole tokenizations, every plugin stack
    n = 600 if tier == "quick" else 20000
    raw = os.path.join(C.WORK, "traces", f"{pid}_tok_{tier}.ndjson")
    p = C.run_vh(["tok-record", raw, "--seed", C.seed(), "--n", n])
    info = json.loads(p.stdout.strip().splitlines()[-1])
    tp = os.path.join(C.WORK, "traces", f"{pid}_ib_{tier}.ndjson")
    nev, _ = project(raw, tp)
    cfgname = f"Trace_InputBuffer_{pid}.cfg"
    matched, total, tr = C.tlc_trace("Trace_InputBuffer", cfgname, tp, timeout=3000)
    events = C.read_ndjson(tp)
    out.cov["traces_validated_against_impl"] += info["runs"]
    out.cov["trace_events"] = total
    out.cov["evaluations"] += info["runs"]
    nontrivial = {json.dumps(e["ops"]) for e in events if e["ev"] == "commit" and e.get("ops")}
    out.cov["distinct_nontrivial"] = len(nontrivial)
    out.cov["rule"] = ("MC: all texts/edit batches within bounds; traces: fixture sentences x 7 plugin stacks x modes + seeded random texts "
                       "from structured Unicode pools; non-trivial = distinct non-empty edit batches committed by the real plugins")
    out.add_samples([e for e in events if e["ev"] == "commit" and e.get("ops")][:2] + [e for e in events if e["ev"] == "result"][5:6])
    if tr.violated or matched < total:
        lo, hi = C.run_slice(events, matched)
        bad = events[min(matched, len(events) - 1)]
        what = (f"I->S: invariant {tr.violated} false in a state of a recorded execution (event #{matched})" if tr.violated else
                f"I->S: recorded event #{matched + 1} ({bad['ev']}) is not a behaviour of InputBuffer/{pid}: {json.dumps(bad)[:300]}")
        out.violation(what, {"kind": "trace", "module": "Trace_InputBuffer", "cfg": cfgname, "events": events[lo:hi]})
    else:
        # corruption probe
        field = "begin_c" if pid == "C08" else "end"
        idx = next(i for i, e in enumerate(events) if e["ev"] == "result" and e["res"] == "ok" and len(e["morphemes"]) > 1)
        ev2 = json.loads(json.dumps(events[:idx + 2]))
        ev2[idx]["morphemes"][0][field] += 1
        pp = os.path.join(C.WORK, "traces", f"{pid}_probe.ndjson")
        C.write_ndjson(pp, ev2)
        m2, t2, _ = C.tlc_trace("Trace_InputBuffer", cfgname, pp)
        if m2 != idx:
            raise C.ToolError(f"corruption probe: altered event {idx} but TLC matched {m2} of {t2}")
        out.cov["corruption_probe"] = f"altered {field} of the first morpheme of event {idx + 1}: rejected exactly there"
    out.cov["exhaustive"] = True
    return out.finish()
