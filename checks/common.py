"""Shared machinery for the per-property checks.

Division of labour (DESIGN.md section 0): every judgement is made by TLC on a TLA+
module under /verif/spec.  This file only (1) builds the Rust harness against
/repo's current working tree with the hook guard on, (2) runs TLC (model checking
of MC_*.cfg, trace validation of Trace_*.cfg), (3) moves files between the two,
(4) writes evidence/<id>.json and prints VIOLATION / KNOWN-FINDING lines.

Exit codes: 0 held; 1 VIOLATION (with replay file); 2 tool error / vacuity / timeout.
"""
import json
import os
import re
import subprocess
import sys
import time

VERIF = os.path.dirname(os.path.dirname(os.path.abspath(__file__)))
SPEC = os.path.join(VERIF, "spec")
WORK = os.path.join(VERIF, "work")
EVID = os.path.join(VERIF, "evidence")
REPLAYS = os.path.join(EVID, "replays")
HARNESS = os.path.join(VERIF, "harness")
REPO = "/repo"
JAVA_CP = "/opt/veriftools/tla/tla2tools.jar:/opt/veriftools/tla/CommunityModules-deps.jar"
VH = os.path.join(WORK, "target", "debug", "vh")
VH_REL = os.path.join(WORK, "target", "release", "vh")


class ToolError(Exception):
    pass


def log(*a):
    print(*a, flush=True)


def seed():
    try:
        return int(os.environ.get("VERIF_SEED", "20260928"))
    except ValueError:
        return 20260928


def ensure_dirs():
    for d in (WORK, EVID, REPLAYS, os.path.join(WORK, "tlc"), os.path.join(WORK, "traces")):
        os.makedirs(d, exist_ok=True)


# --------------------------------------------------------------------------- build
_built = {}


def build_harness(release=False):
    """cargo build of /verif/harness against /repo's working tree (hooks on)."""
    key = "release" if release else "dev"
    if key in _built:
        return _built[key]
    ensure_dirs()
    lock = os.path.join(HARNESS, "Cargo.lock")
    if not os.path.exists(lock):
        import shutil
        shutil.copy(os.path.join(REPO, "Cargo.lock"), lock)
    cmd = ["cargo", "build", "--offline", "-q"] + (["--release"] if release else [])
    env = dict(os.environ, CARGO_NET_OFFLINE="true")
    # serialise concurrent checks on the shared target dir
    import fcntl
    with open(os.path.join(WORK, "build.lock"), "w") as lk:
        fcntl.flock(lk, fcntl.LOCK_EX)
        t0 = time.time()
        p = subprocess.run(cmd, cwd=HARNESS, env=env, stdout=subprocess.PIPE, stderr=subprocess.PIPE, text=True)
        if p.returncode != 0:
            sys.stderr.write(p.stderr[-6000:])
            raise ToolError("harness build failed (does /repo compile with --cfg sudachi_verif?)")
    exe = VH_REL if release else VH
    if not os.path.exists(exe):
        raise ToolError("harness binary missing: " + exe)
    _built[key] = exe
    log(f"[build] harness ({key}) ready in {time.time() - t0:.1f}s")
    return exe


def run_vh(args, release=False, timeout=3600, stdin=None, check=True, env=None):
    exe = build_harness(release)
    e = dict(os.environ)
    e.setdefault("RUST_BACKTRACE", "0")
    if env:
        e.update(env)
    p = subprocess.run([exe] + [str(a) for a in args], stdout=subprocess.PIPE, stderr=subprocess.PIPE,
                       text=True, timeout=timeout, input=stdin, env=e)
    if check and p.returncode != 0:
        sys.stderr.write(p.stderr[-4000:])
        raise ToolError(f"vh {' '.join(map(str, args))} exited {p.returncode}")
    return p


# --------------------------------------------------------------------------- TLC
RE_STATES = re.compile(r"(\d+) states generated, (\d+) distinct states found, (\d+) states left")
RE_ACTION = re.compile(r"^<(\w+) line \d+, col \d+ to line \d+, col \d+ of module (\w+)(?: \([\d ]+\))?>: (\d+):(\d+)")
RE_INVVIOL = re.compile(r"Error: Invariant (\w+) is violated")
RE_DEPTH = re.compile(r"The depth of the complete state graph search is (\d+)")


class TlcResult:
    def __init__(self):
        self.generated = 0
        self.distinct = 0
        self.depth = 0
        self.actions = {}      # name -> (distinct, generated)
        self.violated = None   # invariant name
        self.errors = []
        self.lines = []        # stdout lines that are PrintT output of interest
        self.ok = False
        self.wall = 0.0
        self.cmd = ""
        self.tail = ""


def tlc(module, cfg, *, workers=8, timeout=1800, metadir=None, env=None, xmx="8g", xss=None,
        collect_prefixes=("<<\"REPLAY\"", "<<\"TRACE", "<<\"DRIFT", "<<\"KNOWN", "<<\"INFO", "<<\"REJECT"), sink=None,
        coverage=True, deque=False, extra=()):
    """Run TLC on spec/<module>.tla with spec/<cfg>.  Lines starting with one of
    collect_prefixes are collected (or passed to sink(line)); everything else is parsed
    for statistics.  Raises ToolError on parse/semantic errors or timeout."""
    ensure_dirs()
    import threading
    metadir = metadir or os.path.join(WORK, "tlc", f"{module}-{os.getpid()}-{threading.get_ident() % 100000}-{int(time.time() * 1000) % 1000000}")
    jopts = [f"-Xmx{xmx}", "-XX:+UseParallelGC"]
    if xss:
        jopts.append(f"-Xss{xss}")
    if deque:
        jopts.append("-Dtlc2.tool.queue.IStateQueue=StateDeque")
    cmd = ["java"] + jopts + ["-cp", JAVA_CP, "tlc2.TLC", "-workers", str(workers), "-metadir", metadir,
                              "-cleanup", "-noGenerateSpecTE"]
    if coverage:
        cmd += ["-coverage", "1"]
    cmd += list(extra) + ["-config", cfg, module + ".tla"]
    e = dict(os.environ)
    if env:
        e.update({k: str(v) for k, v in env.items()})
    r = TlcResult()
    r.cmd = " ".join(cmd)
    t0 = time.time()
    p = subprocess.Popen(cmd, cwd=SPEC, env=e, stdout=subprocess.PIPE, stderr=subprocess.STDOUT, text=True,
                         errors="replace")
    tail = []
    try:
        for line in p.stdout:
            line = line.rstrip("\n")
            if line.startswith(collect_prefixes):
                if sink:
                    sink(line)
                else:
                    r.lines.append(line)
                continue
            if line.startswith(("  |", "  line ", "  <")) and "module" in line:
                continue  # expression-level coverage
            m = RE_ACTION.match(line)
            if m:
                name = m.group(1)
                d, g = int(m.group(3)), int(m.group(4))
                od, og = r.actions.get(name, (0, 0))
                r.actions[name] = (max(od, d), max(og, g))
                continue
            m = RE_STATES.search(line)
            if m:
                r.generated, r.distinct = int(m.group(1)), int(m.group(2))
            m = RE_DEPTH.search(line)
            if m:
                r.depth = int(m.group(1))
            m = RE_INVVIOL.search(line)
            if m:
                r.violated = m.group(1)
            if line.startswith("Error:") or "Exception" in line or "*** Errors" in line:
                r.errors.append(line)
            tail.append(line)
            if len(tail) > 400:
                del tail[:200]
            if time.time() - t0 > timeout:
                p.kill()
                raise ToolError(f"TLC timeout after {timeout}s on {module}/{cfg}")
        p.wait()
    finally:
        if p.poll() is None:
            p.kill()
        import shutil
        shutil.rmtree(metadir, ignore_errors=True)
    r.wall = time.time() - t0
    r.tail = "\n".join(tail[-60:])
    r.ok = (p.returncode == 0 and r.violated is None and not r.errors)
    return r


def tlc_mc(module, cfg, **kw):
    """Model-check; an invariant violation or any TLC error is returned in the result
    (the caller decides: a violated *model* invariant on the unchanged spec is a tool
    error unless it is the rendering of a known finding)."""
    r = tlc(module, cfg, **kw)
    log(f"[tlc-mc] {module}/{cfg}: {r.distinct} distinct / {r.generated} generated states, depth {r.depth}, "
        f"{r.wall:.1f}s" + (f", VIOLATED {r.violated}" if r.violated else "") + ("" if r.ok or r.violated else " ERROR"))
    if not r.ok and not r.violated:
        sys.stderr.write(r.tail + "\n")
        raise ToolError(f"TLC failed on {module}/{cfg}")
    return r


RE_TRACE_RES = re.compile(r'<<"TRACE_RESULT", (\d+), (\d+)>>')


def tlc_trace(module, cfg, trace_path, *, timeout=1800, env=None, xmx="6g", extra_env=None):
    """Trace validation: spec/<module>.tla consumes the NDJSON file named by env TRACE.
    The trace spec's POSTCONDITION prints <<"TRACE_RESULT", matched, total>>.
    Returns (matched, total, result)."""
    e = {"TRACE": trace_path}
    if env:
        e.update(env)
    r = tlc(module, cfg, workers=1, timeout=timeout, env=e, xmx=xmx, xss="1g", deque=True, coverage=False)
    matched = total = None
    for l in r.lines:
        m = RE_TRACE_RES.search(l)
        if m:
            matched, total = int(m.group(1)), int(m.group(2))
    if matched is None and r.violated:
        # an invariant was false in a state of the recorded execution; TLC stops there and prints the
        # behaviour: the last "State N:" is the violating state, reached by consuming event N-1
        ns = [int(m.group(1)) for m in re.finditer(r"^State (\d+):", r.tail, re.M)]
        if ns:
            total = sum(1 for _ in open(trace_path))
            matched = max(0, max(ns) - 2)
            return matched, total, r
    if matched is None:
        sys.stderr.write(r.tail + "\n")
        raise ToolError(f"trace validation of {trace_path} with {module} produced no TRACE_RESULT")
    if r.violated:
        # an invariant of the spec evaluated false in a state of the recorded execution:
        # the state index is the number of events consumed so far; TLC prints the trace, we
        # only need the position, which the spec also reports through TRACE_RESULT
        pass
    return matched, total, r


# --------------------------------------------------------------------------- traces
def read_ndjson(path):
    out = []
    with open(path) as f:
        for line in f:
            line = line.strip()
            if line:
                out.append(json.loads(line))
    return out


def write_ndjson(path, events):
    with open(path, "w") as f:
        for e in events:
            f.write(json.dumps(e, ensure_ascii=True, separators=(",", ":")) + "\n")


def run_slice(events, idx, key="run"):
    """Events of the run that contains event idx (0-based); runs are delimited by a
    change of events[i][key]."""
    if idx >= len(events):
        idx = len(events) - 1
    rid = events[idx].get(key)
    lo = idx
    while lo > 0 and events[lo - 1].get(key) == rid:
        lo -= 1
    hi = idx
    while hi + 1 < len(events) and events[hi + 1].get(key) == rid:
        hi += 1
    return lo, hi + 1


# --------------------------------------------------------------------------- findings
def load_known():
    p = os.path.join(VERIF, "known_findings.json")
    if not os.path.exists(p):
        return {"known": [], "fixed": []}
    return json.load(open(p))


class Outcome:
    """Collects what a check run found; turns it into exit status + evidence."""

    def __init__(self, pid, tier, level="model_checking"):
        self.pid = pid
        self.tier = tier
        self.level = level
        self.t0 = time.time()
        self.violations = []      # (what, replay_path)
        self.known_hits = []      # strings
        self.cov = {"states": 0, "transitions": 0, "traces_validated_against_impl": 0, "samples": [],
                    "evaluations": 0, "distinct_nontrivial": 0, "rule": "", "exhaustive": False,
                    "tlc_runs": [], "drift": []}
        self.assumptions = []
        self.known = [k for k in load_known().get("known", []) if k.get("property") == pid]

    # -- evidence accumulation
    def add_mc(self, name, r, bounds=None):
        self.cov["states"] += r.distinct
        self.cov["transitions"] += r.generated
        self.cov["tlc_runs"].append({"run": name, "distinct_states": r.distinct, "states_generated": r.generated,
                                     "depth": r.depth, "wall_s": round(r.wall, 2),
                                     "actions": {k: {"distinct": v[0], "generated": v[1]} for k, v in r.actions.items()},
                                     "bounds": bounds or {}})

    def require_actions(self, r, names):
        """Vacuity guard: every named action must have been taken."""
        missing = [n for n in names if r.actions.get(n, (0, 0))[1] == 0]
        if missing:
            raise ToolError(f"vacuous model-checking run: actions never taken: {missing}")

    def add_samples(self, samples, limit=6):
        for s in samples:
            if len(self.cov["samples"]) < limit:
                self.cov["samples"].append(s)

    # -- verdicts
    def match_known(self, signature):
        for k in self.known:
            if k.get("signature") == signature:
                return k
        return None

    def violation(self, what, replay_obj, signature=None):
        """Record a violation; if its signature is a listed known finding, report that instead."""
        if signature:
            k = self.match_known(signature)
            if k is not None:
                msg = f"KNOWN-FINDING: property={self.pid} {k.get('what', signature)}"
                if msg not in self.known_hits:
                    self.known_hits.append(msg)
                    log(msg)
                return False
        if getattr(self, "dry", False):
            # replay mode: report through the caller, never rewrite the replay file being replayed
            self.violations.append((what, None))
            log(f"  replay: {what[:300]}")
            return True
        ensure_dirs()
        n = len(self.violations) + 1
        path = os.path.join(REPLAYS, f"{self.pid}-{n}.json")
        with open(path, "w") as f:
            json.dump({"property": self.pid, "what": what, "signature": signature, "replay": replay_obj}, f,
                      ensure_ascii=False, indent=1)
        self.violations.append((what, path))
        log(f"VIOLATION property={self.pid} replay={path}")
        log(f"  what: {what}")
        return True

    def finish(self):
        ensure_dirs()
        cov = self.cov
        if not cov["samples"]:
            cov["samples"] = ["(no sample recorded)"]
        ev = {
            "property_id": self.pid,
            "tier": self.tier,
            "seed": seed(),
            "level": self.level,
            "coverage": cov,
            "assumptions": self.assumptions,
            "wall_s": round(time.time() - self.t0, 2),
            "violations": len(self.violations),
            "known_findings_reported": self.known_hits,
        }
        with open(os.path.join(EVID, f"{self.pid}.json"), "w") as f:
            json.dump(ev, f, ensure_ascii=False, indent=1)
        log(f"[{self.pid}] tier={self.tier} states={cov['states']} transitions={cov['transitions']} "
            f"traces={cov['traces_validated_against_impl']} evaluations={cov['evaluations']} "
            f"violations={len(self.violations)} known={len(self.known_hits)} wall={ev['wall_s']}s")
        return 1 if self.violations else 0


# --------------------------------------------------------------------------- replay
def generic_replay(pid, path):
    """Re-run one recorded counterexample: either a trace slice through its trace
    specification (TLC), or one TLC-generated behaviour through the harness."""
    obj = json.load(open(path))
    rp = obj.get("replay", {})
    kind = rp.get("kind")
    ensure_dirs()
    if kind == "trace":
        tp = os.path.join(WORK, "traces", f"{pid}_replay.ndjson")
        write_ndjson(tp, rp["events"])
        matched, total, r = tlc_trace(rp["module"], rp["cfg"], tp, env=rp.get("env"))
        if matched < total or r.violated:
            log(f"replay: trace rejected at event {matched + 1} of {total}" + (f" (invariant {r.violated})" if r.violated else ""))
            log(f"VIOLATION property={pid} replay={path}")
            return 1
        log("replay: trace accepted (the recorded execution is a behaviour of the specification)")
        return 0
    if kind == "s2i":
        fp = os.path.join(WORK, "traces", f"{pid}_replay.txt")
        with open(fp, "w") as f:
            f.write("<<\"REPLAY\", " + json.dumps(json.dumps(rp["behaviour"])) + ">>\n")
        p = run_vh(rp["cmd"] + [fp])
        res = json.loads(p.stdout.strip().splitlines()[-1])
        if res.get("mismatches"):
            log("replay: implementation still differs from the behaviour TLC computed: " + json.dumps(res["mismatches"][0])[:600])
            log(f"VIOLATION property={pid} replay={path}")
            return 1
        log("replay: implementation agrees with the behaviour TLC computed")
        return 0
    log("replay file has no replayable payload; it documents: " + obj.get("what", "?"))
    return 2


# --------------------------------------------------------------------------- trace check helper
def validate_trace(out, module, cfg, trace_path, label, *, timeout=3000, env=None, replay_extra=None, signature_fn=None, key="run", max_report=3):
    """Validate an NDJSON trace; on rejection record a VIOLATION whose replay payload is the
    run containing the first unmatched event, then continue with the remaining runs so that
    one rejection does not leave the rest of the trace unexamined.
    Returns (events, n_rejections)."""
    events = read_ndjson(trace_path)
    offset = 0
    cur = events
    rejections = 0
    new_violations = 0
    total_matched = 0
    header = []          # events that must precede every (re)validation, e.g. the current 'world'
    while True:
        path = trace_path if offset == 0 else trace_path + f".part{rejections}"
        if offset != 0:
            write_ndjson(path, header + cur)
        matched, total, tr = tlc_trace(module, cfg, path, timeout=timeout, env=env)
        hl = len(header) if offset != 0 else 0
        matched_cur = matched - hl
        if matched >= total and not tr.violated:
            total_matched += matched_cur
            break
        rejections += 1
        idx = min(max(matched_cur, 0), len(cur) - 1)
        lo, hi = run_slice(cur, idx, key)
        bad = cur[idx]
        # the world/dictionary event the run depends on
        w = None
        for j in range(idx, -1, -1):
            if cur[j].get("ev") == "world":
                w = cur[j]
                break
        if w is None:
            for hdr in header:
                if hdr.get("ev") == "world":
                    w = hdr
        sl = ([w] if w is not None and not (lo <= cur.index(w) < hi if w in cur else False) else []) + cur[lo:hi]
        what = (f"I->S {label}: invariant {tr.violated} is false in a state of a recorded execution (after event #{offset + matched_cur})"
                if tr.violated else
                f"I->S {label}: recorded event #{offset + idx + 1} ({bad.get('ev')}) is not a step of the specification: {json.dumps(bad)[:260]}")
        sig = signature_fn(cur[lo:hi], bad) if signature_fn else None
        payload = {"kind": "trace", "module": module, "cfg": cfg, "events": sl}
        if replay_extra:
            payload.update(replay_extra)
        is_new = out.violation(what, payload, signature=sig)
        total_matched += max(lo, 0)
        if is_new:
            new_violations += 1
        if new_violations >= max_report or rejections >= 400:
            break
        # continue after the rejected run
        header = [w] if w is not None else []
        offset += hi
        cur = cur[hi:]
        if not cur:
            break
    out.cov["trace_events"] = out.cov.get("trace_events", 0) + len(events)
    return events, rejections


# --------------------------------------------------------------------------- sharded validation (thorough tiers)
def shard_trace(events, key, header_kinds, n):
    """Split a trace into n traces by runs (consecutive events with the same `key`).  Events whose kind is in header_kinds are
    sticky context (a world, a table, plugin rules): the latest one of each kind is re-emitted in a shard before the first run
    that needs it there."""
    shards = [[] for _ in range(n)]
    seen = [dict() for _ in range(n)]         # shard -> kind -> id of the header it last got
    current = {}                               # kind -> (serial, event)
    serial = 0
    k, last_run, target = -1, object(), 0
    for e in events:
        if e.get("ev") in header_kinds:
            serial += 1
            current[e["ev"]] = (serial, e)
            continue
        r = e.get(key)
        if r != last_run:
            k += 1
            last_run = r
            target = k % n
            for kind, (sid, he) in current.items():
                if seen[target].get(kind) != sid:
                    shards[target].append(he)
                    seen[target][kind] = sid
        shards[target].append(e)
    return [s for s in shards if s]


def validate_trace_parallel(out, module, cfg, trace_path, label, *, key="run", header_kinds=("world",), n=8, timeout=40000, signature_fn=None):
    """validate_trace over n shards with n TLC processes; a shard that is rejected is validated again through the ordinary
    path so that violations are reported and replay files written exactly as in the sequential case."""
    from concurrent.futures import ThreadPoolExecutor
    events = read_ndjson(trace_path)
    parts = shard_trace(events, key, set(header_kinds), n)
    paths = []
    for i, part in enumerate(parts):
        pth = trace_path + f".shard{i}"
        write_ndjson(pth, part)
        paths.append(pth)

    def work(pth):
        o = Outcome(out.pid, out.tier)
        o.dry = True
        _, rj = validate_trace(o, module, cfg, pth, label, timeout=timeout, key=key, signature_fn=signature_fn)
        return rj
    with ThreadPoolExecutor(max_workers=n) as ex:
        rjs = list(ex.map(work, paths))
    rej = 0
    for pth, rj in zip(paths, rjs):
        if rj:
            _, r2 = validate_trace(out, module, cfg, pth, label, timeout=timeout, key=key, signature_fn=signature_fn)
            rej += r2
    out.cov["trace_events"] = out.cov.get("trace_events", 0) + len(events)
    return events, rej
