"""C08 - code-point offsets agree with byte offsets; offset map monotone and anchored."""
from .ibcommon import run_ib


def run(tier, replay=None):
    return run_ib("C08", tier, replay)
