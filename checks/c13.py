"""C13 - unknown-word candidates follow the character-class definition.

spec/Oov.tla        class runs (greedy from the text start), word-start permission, MeCab/simple/regex candidate sets, the provider loop
spec/MC_Oov.tla     class texts <= MaxLen over 9 class-set letters x 2 definition sets x 4 provider stacks; structural invariants of runs
spec/Trace_Oov.tla  whole analyses with the shipped char.def / unk.def: tables, every provider invocation, OOV morphemes
"""
import json
import os
from . import common as C

PID = "C13"


def regroup(src, dst):
    """Pure regrouping of hook events: dictionary inserts of a position go into its `pos` event, the inserts
    following an oov_call into that `oov` event; `built` is moved before the position events of its run."""
    runs = []
    cur = None
    for line in open(src):
        e = json.loads(line)
        if e["ev"] == "world":
            runs.append(("world", e))
            continue
        if e["ev"] == "run":
            cur = {"run": e, "events": [], "built": None}
            runs.append(("run", cur))
            continue
        if cur is None:
            continue
        if e["ev"] == "built":
            cur["built"] = e
        else:
            cur["events"].append(e)
    n = 0
    with open(dst, "w") as out:
        def w(e):
            nonlocal n
            out.write(json.dumps(e, separators=(",", ":")) + "\n")
            n += 1
        for kind, r in runs:
            if kind == "world":
                w({k: r[k] for k in ("ev", "run", "name", "info", "unk", "providers", "posmap")})
                continue
            b = r["built"]
            if b is None:
                continue          # analysis failed before the tables existed (C03's business)
            rid = r["run"]["run"]
            w({"ev": "cats", "run": rid, "text": b["text"], "cats": b["cats"]})
            w({"ev": "tables", "run": rid, "cont": b["cont"], "bow": b["bow"]})
            pend = None   # ("pos"|"oov", event)
            chars = None
            for e in r["events"]:
                ev = e["ev"]
                if ev == "pos_begin":
                    pend = {"ev": "pos", "run": rid, "p": e["p"], "dict": []}
                elif ev == "lat_ins" and pend is not None:
                    if pend["ev"] == "pos":
                        pend["dict"].append(e["e"] - e["b"])
                    else:
                        pend["nodes"].append({k: e[k] for k in ("b", "e", "lid", "rid", "cost", "word")})
                elif ev == "oov_call":
                    if pend is not None:
                        if pend["ev"] == "pos":
                            pend["dict"] = sorted(set(pend["dict"]))
                        w(pend)
                    pend = {"ev": "oov", "run": rid, "p": e["p"], "provider": e["provider"], "fallback": e["fallback"], "nodes": []}
                elif ev == "pos_done":
                    if pend is not None:
                        if pend["ev"] == "pos":
                            pend["dict"] = sorted(set(pend["dict"]))
                        w(pend)
                    pend = None
                    w({"ev": "pos_done", "run": rid, "p": e["p"]})
                elif ev == "result":
                    if e["res"] == "ok":
                        ms = []
                        for m, c in zip(e["morphemes"], e["chars"]):
                            ms.append({"oov": m["oov"], "dic": m["dic"], "pos_id": m["pos_id"], "cb": c[0], "ce": c[1],
                                       "norm": m["norm"], "dform": m["dform"], "reading": m["reading"]})
                        w({"ev": "result", "run": rid, "res": "ok", "morphemes": ms})
                    else:
                        w({"ev": "result", "run": rid, "res": e["res"]})
    return n


def run(tier, replay=None):
    if replay:
        C.build_harness()
        return C.generic_replay(PID, replay)
    out = C.Outcome(PID, tier)
    C.ensure_dirs()
    C.build_harness()
    out.assumptions = [
        "TLC/SANY and the JSON bridge are trusted",
        "class sets of characters are read through CharacterCategory (judged by C17); NOOOVBOW/NOOOVBOW2 take part in the class intersection like any class",
        "candidate sets are compared as sets (duplicates and order are not fixed by the property); the regex provider is modelled for expressions of the shape [set]+",
        "hook H4 marks the begin/end of a position and each provider invocation; inserts between the marks belong to that invocation",
    ]
    maxlen = 3 if tier == "quick" else 4
    cfg = os.path.join(C.WORK, "tlc", f"MC_Oov_{tier}.cfg")
    with open(cfg, "w") as f:
        f.write(f"SPECIFICATION MSpec\nCONSTANTS\n  MaxLen = {maxlen}\n  MaxLen2 = {maxlen - 1}\nINVARIANTS RunsTile RunsShareAClass RunsMaximal PrefixStable EveryPositionCovered Emit\nCHECK_DEADLOCK FALSE\n")
    rp = os.path.join(C.WORK, "traces", f"c13_replay_{tier}.txt")
    with open(rp, "w") as f:
        r = C.tlc_mc("MC_Oov", cfg, workers=8, sink=lambda l: f.write(l + "\n"), timeout=40000)
    if r.violated:
        out.violation(f"model invariant {r.violated} violated in MC_Oov", {"tlc_tail": r.tail}, signature=f"C13/model/{r.violated}")
    out.require_actions(r, ["MPick", "MPick2"])
    out.add_mc("MC_Oov", r, {"maxlen": maxlen})
    p = C.run_vh(["c13-replay", rp], timeout=40000)
    res = json.loads(p.stdout.strip().splitlines()[-1])
    if res["behaviours"] == 0 or res["calls"] == 0:
        raise C.ToolError("no behaviours replayed")
    out.cov["replayed_behaviours"] = res["behaviours"]
    out.cov["replayed_provider_calls"] = res["calls"]
    out.cov["evaluations"] += res["calls"]
    for m in res["mismatches"][:4]:
        out.violation("S->I: the real input tables / OOV providers differ from what TLC computed: " +
                      json.dumps({k: m.get(k) for k in ("what", "position", "variant", "provider", "expected", "got")}, ensure_ascii=False)[:400],
                      {"kind": "s2i", "cmd": ["c13-replay"], "behaviour": m.get("abstract"), "detail": {k: m[k] for k in m if k != "abstract"}})
    raw = os.path.join(C.WORK, "traces", f"c13_{tier}.ndjson")
    pr = C.run_vh(["c13-record", raw, "--seed", C.seed(), "--texts", 150 if tier == "quick" else 4000], timeout=40000)
    info = json.loads(pr.stdout.strip().splitlines()[-1])
    tp = os.path.join(C.WORK, "traces", f"c13_p_{tier}.ndjson")
    regroup(raw, tp)
    events, rej = C.validate_trace(out, "Trace_Oov", "Trace_Oov.cfg", tp, "C13", timeout=40000)
    oovs = [e for e in events if e["ev"] == "oov"]
    out.cov["traces_validated_against_impl"] += info["runs"]
    out.cov["evaluations"] += len(oovs)
    out.cov["distinct_nontrivial"] = len({json.dumps(e["nodes"]) for e in oovs if len(e["nodes"]) > 1})
    out.cov["rule"] = ("MC: all class texts <= %d over {KANJI, HIRAGANA, ALPHA, NUMERIC, KATAKANA, DEFAULT, KANJI+NUMERIC, ALL|NOOOVBOW, ALL|NOOOVBOW2} x 2 invoke/group/length "
                       "definition sets (one class with two definitions; plus all 144 pairs of settings for the two classes of the double letter on texts <= %d over K, N, combining, K+N, K+N+T) x 4 provider stacks (mecab+simple, simple, mecab+regex(strict)+simple, regex(relaxed)+simple), with no "
                       "candidate yet and with a 1-character word present; traces: shipped char.def/unk.def and the test definitions x 4 stacks x fixture + random texts "
                       "(multi-class characters, combining marks, emoji modifiers, joiners, runs > 64); non-trivial = distinct provider invocations yielding more than one node" % (maxlen, maxlen - 1))
    out.add_samples([e for e in oovs if len(e["nodes"]) > 1][:2] + [e for e in events if e["ev"] == "tables"][:1])
    if rej == 0 and oovs:
        idx = next(i for i, e in enumerate(events) if e["ev"] == "oov" and e["nodes"])
        lo, hi = C.run_slice(events, idx)
        widx = max(i for i, e in enumerate(events[:idx]) if e["ev"] == "world")
        ev2 = json.loads(json.dumps([events[widx]] + events[lo:idx + 1]))
        ev2[-1]["nodes"][0]["cost"] += 1
        pp = os.path.join(C.WORK, "traces", "c13_probe.ndjson")
        C.write_ndjson(pp, ev2)
        m2, t2, _ = C.tlc_trace("Trace_Oov", "Trace_Oov.cfg", pp)
        if m2 != len(ev2) - 1:
            raise C.ToolError(f"corruption probe: altered a candidate's cost but TLC matched {m2} of {t2}")
        out.cov["corruption_probe"] = "cost of one recorded candidate altered: rejected exactly there"
    out.cov["exhaustive"] = True
    return out.finish()
