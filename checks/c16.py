"""C16 - sentence splitting partitions the text and breaks only after terminators.

spec/Sentences.tla        candidates (terminator groups), extension over closers/commas/terminators, vetoes (bracket depth, itemisation
                          header, quoting particle, dictionary word over the terminator within a 30-byte look-back), window, iterator;
                          Partitions, BreaksAfterTerminators, NoBreakInBrackets, EndsAtFirstCandidate
spec/MC_Sentences.tla     every text <= MaxLen over one character per kind x limits {1,2,3,unbounded} x lexicons x checker on/off
spec/Trace_Sentences.tla  the real SentenceSplitter on every enumerated case and on seeded random real-Unicode texts
"""
import json
import os
from . import common as C

PID = "C16"


def mc_cfg(path, maxlen, emit):
    with open(path, "w") as f:
        f.write(f"SPECIFICATION MSpec\nCONSTANTS\n  MaxLen = {maxlen}\nINVARIANTS IsPartition TerminatorBeforeBreak BracketsRespected Converse{' Emit' if emit else ''}\nCHECK_DEADLOCK FALSE\n")


def run(tier, replay=None):
    if replay:
        C.build_harness()
        return C.generic_replay(PID, replay)
    out = C.Outcome(PID, tier)
    C.ensure_dirs()
    C.build_harness()
    out.assumptions = [
        "TLC/SANY and the JSON bridge are trusted; the regular-expression engine is a library (the grammar is specified on characters, not as a regex)",
        "the converse (an unvetoed terminator ends the sentence) is asserted inside the processing window only; when the window holds no unvetoed candidate the sentence "
        "may be the rest of the text (what the code does) or end at an unvetoed candidate beyond the window",
        "byte ranges are converted to code point offsets by the driver (std)",
    ]
    emit_len, mc_len = (2, 3) if tier == "quick" else (3, 4)
    cfg = os.path.join(C.WORK, "tlc", f"MC_Sentences_{tier}_emit.cfg")
    mc_cfg(cfg, emit_len, True)
    ip = os.path.join(C.WORK, "traces", f"c16_in_{tier}.txt")
    with open(ip, "w") as f:
        r = C.tlc_mc("MC_Sentences", cfg, workers=12, sink=lambda l: f.write(l + "\n"), timeout=40000)
    if r.violated:
        out.violation(f"model invariant {r.violated} violated in MC_Sentences", {"tlc_tail": r.tail}, signature=f"C16/model/{r.violated}")
    out.require_actions(r, ["MGrow", "MSet"])
    out.add_mc(f"MC_Sentences[<= {emit_len}, emitted]", r, {"maxlen": emit_len})
    cfg2 = os.path.join(C.WORK, "tlc", f"MC_Sentences_{tier}.cfg")
    mc_cfg(cfg2, mc_len, False)
    r2 = C.tlc_mc("MC_Sentences", cfg2, workers=12, timeout=40000)
    if r2.violated:
        out.violation(f"model invariant {r2.violated} violated in MC_Sentences", {"tlc_tail": r2.tail}, signature=f"C16/model/{r2.violated}")
    out.add_mc(f"MC_Sentences[<= {mc_len}]", r2, {"maxlen": mc_len})
    tp = os.path.join(C.WORK, "traces", f"c16_{tier}.ndjson")
    p = C.run_vh(["c16-run", ip, tp, "--seed", C.seed(), "--random", 4000 if tier == "quick" else 60000], timeout=40000)
    info = json.loads(p.stdout.strip().splitlines()[-1])
    events, rej = C.validate_trace(out, "Trace_Sentences", "Trace_Sentences.cfg", tp, "C16", timeout=40000)
    out.cov["traces_validated_against_impl"] += info["runs"]
    out.cov["evaluations"] += info["runs"]
    out.cov["distinct_nontrivial"] = len({json.dumps([e["t"], e["limit"], e["lex"], e["uselex"]]) for e in events if e.get("res") == "ok" and len(e["ranges"]) > 1})
    out.cov["rule"] = ("MC: every text <= %d over {full stop, ?, period, middle dot, comma, open/close bracket, alphanumeric, the quoting particles, kana, space} x window limits "
                       "{1,2,3,unbounded} x all subsets of 5 terminator-containing dictionary words x checker on/off (emitted and run on the real splitter: <= %d); traces: the "
                       "repository's examples and seeded random real-Unicode texts (multi-byte characters at the window edge and inside the look-back, nested/unbalanced brackets, "
                       "headers, <br> tags) x limits 1..50 and 4096 x 5 lexicons; non-trivial = distinct cases split into more than one sentence" % (mc_len, emit_len))
    out.add_samples([{"t": "".join(map(chr, e["t"])), "limit": e["limit"], "ranges": e.get("ranges")} for e in events if e.get("res") == "ok" and len(e["ranges"]) > 1][-3:])
    if rej == 0:
        idx = next(i for i, e in enumerate(events) if e.get("res") == "ok" and len(e["ranges"]) > 1)
        ev2 = json.loads(json.dumps(events[idx:idx + 1]))
        ev2[0]["ranges"] = [[ev2[0]["ranges"][0][0], ev2[0]["ranges"][-1][1]]]
        ev2[0]["slices"] = [ev2[0]["t"]]
        pp = os.path.join(C.WORK, "traces", "c16_probe.ndjson")
        C.write_ndjson(pp, ev2)
        m2, t2, _ = C.tlc_trace("Trace_Sentences", "Trace_Sentences.cfg", pp)
        if m2 != 0:
            raise C.ToolError(f"corruption probe: a missing sentence break was not rejected ({m2} of {t2})")
        out.cov["corruption_probe"] = "two recorded sentences merged into one: rejected"
    out.cov["exhaustive"] = True
    return out.finish()
