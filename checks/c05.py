"""C05 - compile-then-load round trip preserves every dictionary field, deterministically.

spec/DictRecord.tla        declared meaning of a row (Expected), what the compiler stores, the reader, the accessors; RoundTrip
spec/MC_DictRecord.tla     target row over the whole value lattice; emits rows + expected accessor values
spec/Trace_DictRecord.tla  generated lexicons (length-prefix boundaries, astral chars, \\u escapes, 0/127-item arrays, inline and
                           numeric references), random (non-square) matrices, determinism and alignment observations
"""
import json
import os
from . import common as C

PID = "C05"


def mc_cfg(path, lens, hassyn=True, inv="RoundTrip"):
    with open(path, "w") as f:
        f.write(f"""SPECIFICATION MSpec
CONSTANTS
  HasSyn = {'TRUE' if hassyn else 'FALSE'}
  Lens = {{{', '.join(map(str, lens))}}}
INVARIANTS {inv} Emit
CHECK_DEADLOCK FALSE
""")


def project(src, dst):
    with open(dst, "w") as out:
        for line in open(src):
            e = json.loads(line)
            if e["ev"] == "refused":
                continue          # the compiler may refuse more than necessary (C06 judges refusals)
            e.pop("csv", None)
            out.write(json.dumps(e, separators=(",", ":")) + "\n")


def frontends_pass(out, tier):
    """BuildFrontEnds.tla: `sudachi build/ubuild` and sudachipy.build_*_dic write what the library writes"""
    import hashlib
    import shutil
    import struct
    import subprocess
    import sys
    from . import c19
    world, cli = c19.build_bindings()
    d = os.path.join(C.WORK, "c05fe")
    if os.path.exists(d):
        shutil.rmtree(d)
    os.makedirs(d)
    n = 14 if tier == "quick" else 150
    C.run_vh(["c05-sources", d, "--seed", C.seed(), "--n", n])
    jobs = json.load(open(os.path.join(d, "jobs.json")))
    lib = json.loads(C.run_vh(["c05-libbuild", os.path.join(d, "jobs.json"), os.path.join(c19.PYPKG, "sudachipy", "resources")]).stdout.strip().splitlines()[-1])

    def read(path):
        """(version, description, sha256 of the body) of a written dictionary"""
        b = open(path, "rb").read()
        if len(b) < 272:
            return 0, "", "short file"
        ver = struct.unpack("<Q", b[:8])[0]
        desc = b[16:272].split(b"\0")[0].decode("utf-8", "replace")
        return ver % 1000003, desc, hashlib.sha256(b[272:]).hexdigest()     # TLC integers are 32 bit: the version is compared modulo a prime

    events = []
    libres = {(e["job"], e["kind"]): e for e in lib}
    for e in lib:
        ver, desc, body = read(e["file"]) if e["res"] == "ok" else (0, "", "")
        events.append({"ev": "libbuild", "run": e["job"], "job": f'{e["job"]}/{e["kind"]}', "res": e["res"], "body": body, "version": ver})
    # the command-line front end
    for j in jobs:
        jd = j["dir"]
        argv = [cli, "build", "-m", j["matrix"], "-o", os.path.join(jd, "cli_system.dic")] + (["-d", j["desc"]] if j["desc"] else []) + j["lex"]
        p = subprocess.run(argv, stdout=subprocess.PIPE, stderr=subprocess.PIPE, timeout=300, env=dict(os.environ, RUST_BACKTRACE="0"))
        ok = p.returncode == 0
        ver, desc, body = read(os.path.join(jd, "cli_system.dic")) if ok else (0, "", "")
        events.append({"ev": "fe_build", "run": j["job"], "job": f'{j["job"]}/system', "fe": "cli", "res": "ok" if ok else "err", "body": body, "version": ver, "desc": j["desc"], "hdesc": desc, "exit": p.returncode})
        if (j["job"], "user") in libres:
            argv = [cli, "ubuild", "-s", os.path.join(jd, "lib_system.dic"), "-o", os.path.join(jd, "cli_user.dic")] + (["-d", j["desc"]] if j["desc"] else []) + [j["user"]]
            p = subprocess.run(argv, stdout=subprocess.PIPE, stderr=subprocess.PIPE, timeout=300, env=dict(os.environ, RUST_BACKTRACE="0"))
            ok = p.returncode == 0
            ver, desc, body = read(os.path.join(jd, "cli_user.dic")) if ok else (0, "", "")
            events.append({"ev": "fe_build", "run": j["job"], "job": f'{j["job"]}/user', "fe": "cli", "res": "ok" if ok else "err", "body": body, "version": ver, "desc": j["desc"], "hdesc": desc, "exit": p.returncode})
    # the Python front end
    po = os.path.join(d, "py_out.json")
    p = subprocess.run([sys.executable, os.path.join(c19.PYDRV, "c05_build.py"), os.path.join(d, "jobs.json"), po], env=dict(os.environ, PYTHONPATH=c19.PYPKG, RUST_BACKTRACE="0"),
                       stdout=subprocess.PIPE, stderr=subprocess.PIPE, text=True, timeout=1200)
    if p.returncode != 0 or not os.path.exists(po):
        events.append({"ev": "crash", "run": -1, "msg": p.stderr[-300:]})
    else:
        descs = {j["job"]: j["desc"] for j in jobs}
        for e in json.load(open(po)):
            ver, desc, body = read(e["file"]) if e["res"] == "ok" else (0, "", "")
            kind = "user_min" if e["kind"] == "user" else e["kind"]      # build_user_dic loads the system dictionary with a minimal configuration
            events.append({"ev": "fe_build", "run": e["job"], "job": f'{e["job"]}/{kind}', "fe": "python", "res": e["res"], "body": body, "version": ver, "desc": descs[e["job"]], "hdesc": desc, "exit": 0})
    events.sort(key=lambda e: (e["run"], e["ev"] != "libbuild"))
    tp = os.path.join(C.WORK, "traces", f"c05_fe_{tier}.ndjson")
    C.write_ndjson(tp, events)
    evs, rej = C.validate_trace(out, "Trace_BuildFrontEnds", "Trace_BuildFrontEnds.cfg", tp, "C05/front-ends")
    fe = [e for e in evs if e["ev"] == "fe_build"]
    if not any(e["res"] == "err" for e in fe) or not any(e["res"] == "ok" and e["fe"] == "python" and "/user" in e["job"] for e in fe) or not any(e["res"] == "ok" and e["fe"] == "cli" for e in fe):
        raise C.ToolError("vacuous: the front-end builds never refused a source, or never built a user dictionary with Python / a system dictionary with the CLI")
    # `sudachi ubuild` loads the system dictionary with the DEFAULT configuration, whose unk.def needs a 5969 x 5969 matrix: on the generated
    # dictionaries it refuses, exactly like the library loading them that way; its successful path is not exercised here
    out.cov["cli_ubuild_successes"] = sum(1 for e in fe if e["fe"] == "cli" and "/user" in e["job"] and e["res"] == "ok")
    out.cov["front_end_builds"] = len(fe)
    out.cov["evaluations"] += len(fe)
    if rej == 0:
        k = next(i for i, e in enumerate(evs) if e["ev"] == "fe_build" and e["res"] == "ok")
        e2 = json.loads(json.dumps(evs[:k + 1]))
        e2[k]["body"] = ("1" if e2[k]["body"][:1] == "0" else "0") + e2[k]["body"][1:]      # a digit that differs from the recorded one
        pp = os.path.join(C.WORK, "traces", "c05_probe_fe.ndjson")
        C.write_ndjson(pp, e2)
        m2, t2, _ = C.tlc_trace("Trace_BuildFrontEnds", "Trace_BuildFrontEnds.cfg", pp)
        if m2 != k:
            raise C.ToolError("corruption probe: a differing dictionary body was not rejected")
        out.cov["corruption_probe_front_ends"] = "one digit of a front end's body digest altered: rejected at that event"
    dump_pass(out, tier, d, jobs, cli)
    return rej


def dump_pass(out, tier, d, jobs, cli):
    """DumpFrontEnd.tla: `sudachi dump DICT pos|matrix|winfo OUT` writes the library's read-back of the same file in the documented text
    form.  Behaviour beyond the listed statement: a disagreement is reported as drift in the evidence, never as a violation."""
    import subprocess
    lp = os.path.join(d, "libdump.ndjson")
    C.run_vh(["c05-libdump", os.path.join(d, "jobs.json"), lp])
    libs = {e["job"]: e for e in C.read_ndjson(lp)}
    events = []
    for j in jobs:
        if j["job"] not in libs:
            continue
        events.append(libs[j["job"]])
        for part in ("pos", "matrix", "winfo"):
            op = os.path.join(j["dir"], f"dump_{part}.txt")
            if os.path.exists(op):
                os.remove(op)
            p = subprocess.run([cli, "dump", os.path.join(j["dir"], "lib_system.dic"), part, op], stdout=subprocess.PIPE, stderr=subprocess.PIPE, timeout=300,
                               env=dict(os.environ, RUST_BACKTRACE="0"))
            data = open(op, "rb").read().decode("utf-8", "replace") if os.path.exists(op) else ""
            events.append({"ev": "fe_dump", "run": j["job"], "job": j["job"], "part": part, "exit": p.returncode, "out": [ord(ch) for ch in data]})
    if not events:
        raise C.ToolError("vacuous: no compiled dictionary was dumped")
    tp = os.path.join(C.WORK, "traces", f"c05_dump_{tier}.ndjson")
    C.write_ndjson(tp, events)
    matched, total, r = C.tlc_trace("Trace_DumpFrontEnd", "Trace_DumpFrontEnd.cfg", tp)
    nd = sum(1 for e in events if e["ev"] == "fe_dump")
    out.cov["dumps_validated"] = nd if matched >= total else sum(1 for e in events[:matched] if e["ev"] == "fe_dump")
    out.cov["evaluations"] += out.cov["dumps_validated"]
    if matched < total:
        bad = events[matched]
        out.cov["drift"].append(f"`sudachi dump` differs from DumpFrontEnd.tla at event {matched + 1} of {total} (job {bad.get('job')}, part {bad.get('part')}, exit {bad.get('exit')}); "
                                "not fixed by C05, not gating")
        return
    if not any(e["ev"] == "fe_dump" and e["part"] == "winfo" and 47 in e["out"] for e in events):
        raise C.ToolError("vacuous: no dumped word had more than one split unit or synonym group")
    # binding probe: one character of a dumped word-info file altered must be rejected at that event
    k = next(i for i, e in enumerate(events) if e["ev"] == "fe_dump" and e["part"] == "winfo" and e["out"])
    e2 = json.loads(json.dumps(events[:k + 1]))
    e2[k]["out"][len(e2[k]["out"]) // 2] += 1
    pp = os.path.join(C.WORK, "traces", "c05_probe_dump.ndjson")
    C.write_ndjson(pp, e2)
    m2, t2, _ = C.tlc_trace("Trace_DumpFrontEnd", "Trace_DumpFrontEnd.cfg", pp)
    if m2 != k:
        raise C.ToolError("corruption probe: an altered dump was not rejected")
    out.cov["corruption_probe_dump"] = "one character of a dumped word-info file altered: rejected at that event"


def run(tier, replay=None):
    if replay:
        C.build_harness()
        return C.generic_replay(PID, replay)
    out = C.Outcome(PID, tier)
    C.ensure_dirs()
    C.build_harness()
    out.assumptions = [
        "TLC/SANY and the JSON bridge are trusted",
        "the replayer's rendering of abstract rows to CSV text (and the recorder's CSV rendering with \\u escapes) is trusted",
        "inline split references are judged only for rows whose key equals their headword (the statement does not say which is matched otherwise)",
        "the binary layout is not compared: only what is read back through the public reader",
    ]
    lens = [1, 127] if tier == "quick" else [1, 126, 127, 128]
    cfg = os.path.join(C.WORK, "tlc", f"MC_DictRecord_c05_{tier}.cfg")
    mc_cfg(cfg, lens)
    rp = os.path.join(C.WORK, "traces", f"c05_replay_{tier}.txt")
    with open(rp, "w") as f:
        r = C.tlc_mc("MC_DictRecord", cfg, workers=8, sink=lambda l: f.write(l + "\n"), timeout=10000)
    if r.violated:
        out.violation(f"model invariant {r.violated} violated in MC_DictRecord", {"tlc_tail": r.tail}, signature=f"C05/model/{r.violated}")
    out.require_actions(r, ["MAdd0", "MAdd1", "MCompile"])
    out.add_mc("MC_DictRecord[RoundTrip]", r, {"lens": lens})
    p = C.run_vh(["c05-replay", rp])
    res = json.loads(p.stdout.strip().splitlines()[-1])
    if res["behaviours"] == 0 or res["reads"] == 0:
        raise C.ToolError("no behaviours replayed")
    out.cov["replayed_behaviours"] = res["behaviours"]
    out.cov["replay_rejected_by_compiler"] = res["rejected"]
    out.cov["evaluations"] += res["reads"]
    for m in res["mismatches"][:4]:
        out.violation("S->I: loaded dictionary differs from the declared rows: " +
                      json.dumps({k: m.get(k) for k in ("what", "word", "expected", "got")}, ensure_ascii=False)[:400],
                      {"kind": "s2i", "cmd": ["c05-replay"], "behaviour": m.get("abstract"), "detail": {k: m[k] for k in m if k != "abstract"}})
    # ---- I->S
    nd = 40 if tier == "quick" else 1500
    raw = os.path.join(C.WORK, "traces", f"c05_{tier}.ndjson")
    p = C.run_vh(["c05-record", raw, "--seed", C.seed(), "--dicts", nd])
    tp = os.path.join(C.WORK, "traces", f"c05_p_{tier}.ndjson")
    project(raw, tp)
    events, rej = C.validate_trace(out, "Trace_DictRecord", "Trace_DictRecord.cfg", tp, "C05", timeout=10000)
    nw = sum(1 for e in events if e["ev"] == "winfo")
    out.cov["traces_validated_against_impl"] += sum(1 for e in events if e["ev"] == "rows")
    out.cov["evaluations"] += nw
    out.cov["refused_by_compiler"] = sum(1 for line in open(raw) if '"refused"' in line)
    out.cov["distinct_nontrivial"] = len({json.dumps(e["view"]) for e in events if e["ev"] == "winfo" and (e["view"]["a"] or e["view"]["ws"] or e["view"]["norm"] != e["view"]["surface"])})
    out.cov["rule"] = ("MC: one target row over the value lattice (key vs headword, forms equal/different, dictionary form */self/other, empty and non-empty "
                       "arrays, lengths at the length-prefix boundary) next to a fixed row; traces: generated lexicons + matrices of any shape; "
                       "non-trivial = distinct read-back words with references or a form different from the headword")
    out.add_samples([{k: e[k] for k in ("ev", "w", "view")} for e in events if e["ev"] == "winfo"][:2] + [e for e in events if e["ev"] == "conn"][:1])
    if rej == 0 and nw:
        idx = next(i for i, e in enumerate(events) if e["ev"] == "winfo")
        ridx = max(i for i, e in enumerate(events[:idx]) if e["ev"] == "rows")
        ev2 = json.loads(json.dumps([events[ridx], events[idx]]))
        ev2[1]["view"]["hwl"] += 1
        pp = os.path.join(C.WORK, "traces", "c05_probe.ndjson")
        C.write_ndjson(pp, ev2)
        m2, t2, _ = C.tlc_trace("Trace_DictRecord", "Trace_DictRecord.cfg", pp)
        if m2 != 1:
            raise C.ToolError(f"corruption probe: altered key length but TLC matched {m2} of {t2}")
        out.cov["corruption_probe"] = "key length of one read-back word altered by 1: rejected exactly there"
    frontends_pass(out, tier)
    out.cov["exhaustive"] = True
    return out.finish()
