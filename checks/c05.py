"""C05 - compile-then-load round trip preserves every dictionary field, deterministically.

spec/DictRecord.tla        declared meaning of a row (Expected), what the compiler stores, the reader, the accessors; RoundTrip
spec/MC_DictRecord.tla     target row over the whole value lattice; emits rows + expected accessor values
spec/Trace_DictRecord.tla  generated lexicons (length-prefix boundaries, astral chars, \\u escapes, 0/127-item arrays, inline and
                           numeric references), random (non-square) matrices, determinism and alignment observations
"""
import json
import os
from . import common as C

PID = "C05"


def mc_cfg(path, lens, hassyn=True, inv="RoundTrip"):
    with open(path, "w") as f:
        f.write(f"""SPECIFICATION MSpec
CONSTANTS
  HasSyn = {'TRUE' if hassyn else 'FALSE'}
  Lens = {{{', '.join(map(str, lens))}}}
INVARIANTS {inv} Emit
CHECK_DEADLOCK FALSE
""")


def project(src, dst):
    with open(dst, "w") as out:
        for line in open(src):
            e = json.loads(line)
            if e["ev"] == "refused":
                continue          # the compiler may refuse more than necessary (C06 judges refusals)
            e.pop("csv", None)
            out.write(json.dumps(e, separators=(",", ":")) + "\n")


def run(tier, replay=None):
    if replay:
        C.build_harness()
        return C.generic_replay(PID, replay)
    out = C.Outcome(PID, tier)
    C.ensure_dirs()
    C.build_harness()
    out.assumptions = [
        "TLC/SANY and the JSON bridge are trusted",
        "the replayer's rendering of abstract rows to CSV text (and the recorder's CSV rendering with \\u escapes) is trusted",
        "inline split references are judged only for rows whose key equals their headword (the statement does not say which is matched otherwise)",
        "the binary layout is not compared: only what is read back through the public reader",
    ]
    lens = [1, 127] if tier == "quick" else [1, 126, 127, 128]
    cfg = os.path.join(C.WORK, "tlc", f"MC_DictRecord_c05_{tier}.cfg")
    mc_cfg(cfg, lens)
    rp = os.path.join(C.WORK, "traces", f"c05_replay_{tier}.txt")
    with open(rp, "w") as f:
        r = C.tlc_mc("MC_DictRecord", cfg, workers=8, sink=lambda l: f.write(l + "\n"), timeout=10000)
    if r.violated:
        out.violation(f"model invariant {r.violated} violated in MC_DictRecord", {"tlc_tail": r.tail}, signature=f"C05/model/{r.violated}")
    out.require_actions(r, ["MAdd0", "MAdd1", "MCompile"])
    out.add_mc("MC_DictRecord[RoundTrip]", r, {"lens": lens})
    p = C.run_vh(["c05-replay", rp])
    res = json.loads(p.stdout.strip().splitlines()[-1])
    if res["behaviours"] == 0 or res["reads"] == 0:
        raise C.ToolError("no behaviours replayed")
    out.cov["replayed_behaviours"] = res["behaviours"]
    out.cov["replay_rejected_by_compiler"] = res["rejected"]
    out.cov["evaluations"] += res["reads"]
    for m in res["mismatches"][:4]:
        out.violation("S->I: loaded dictionary differs from the declared rows: " +
                      json.dumps({k: m.get(k) for k in ("what", "word", "expected", "got")}, ensure_ascii=False)[:400],
                      {"kind": "s2i", "cmd": ["c05-replay"], "behaviour": m.get("abstract"), "detail": {k: m[k] for k in m if k != "abstract"}})
    # ---- I->S
    nd = 40 if tier == "quick" else 1500
    raw = os.path.join(C.WORK, "traces", f"c05_{tier}.ndjson")
    p = C.run_vh(["c05-record", raw, "--seed", C.seed(), "--dicts", nd])
    tp = os.path.join(C.WORK, "traces", f"c05_p_{tier}.ndjson")
    project(raw, tp)
    events, rej = C.validate_trace(out, "Trace_DictRecord", "Trace_DictRecord.cfg", tp, "C05", timeout=10000)
    nw = sum(1 for e in events if e["ev"] == "winfo")
    out.cov["traces_validated_against_impl"] += sum(1 for e in events if e["ev"] == "rows")
    out.cov["evaluations"] += nw
    out.cov["refused_by_compiler"] = sum(1 for line in open(raw) if '"refused"' in line)
    out.cov["distinct_nontrivial"] = len({json.dumps(e["view"]) for e in events if e["ev"] == "winfo" and (e["view"]["a"] or e["view"]["ws"] or e["view"]["norm"] != e["view"]["surface"])})
    out.cov["rule"] = ("MC: one target row over the value lattice (key vs headword, forms equal/different, dictionary form */self/other, empty and non-empty "
                       "arrays, lengths at the length-prefix boundary) next to a fixed row; traces: generated lexicons + matrices of any shape; "
                       "non-trivial = distinct read-back words with references or a form different from the headword")
    out.add_samples([{k: e[k] for k in ("ev", "w", "view")} for e in events if e["ev"] == "winfo"][:2] + [e for e in events if e["ev"] == "conn"][:1])
    if rej == 0 and nw:
        idx = next(i for i, e in enumerate(events) if e["ev"] == "winfo")
        ridx = max(i for i, e in enumerate(events[:idx]) if e["ev"] == "rows")
        ev2 = json.loads(json.dumps([events[ridx], events[idx]]))
        ev2[1]["view"]["hwl"] += 1
        pp = os.path.join(C.WORK, "traces", "c05_probe.ndjson")
        C.write_ndjson(pp, ev2)
        m2, t2, _ = C.tlc_trace("Trace_DictRecord", "Trace_DictRecord.cfg", pp)
        if m2 != 1:
            raise C.ToolError(f"corruption probe: altered key length but TLC matched {m2} of {t2}")
        out.cov["corruption_probe"] = "key length of one read-back word altered by 1: rejected exactly there"
    out.cov["exhaustive"] = True
    return out.finish()
