"""C14 - path-rewrite plugins only merge adjacent tokens and preserve the text.

spec/PathRewrite.tla        IsMerge: the relation between the path before and after a plugin (joined node = union of ranges,
                            concatenated surface, prescribed POS; other nodes unchanged)
spec/MC_PathRewrite.tla     both index loops transcribed (with the transcribed numeral parser) over all paths of one-character tokens;
                            IsMerge and termination
spec/Trace_PathRewrite.tla  real paths before/after each plugin (hook H3) + the same analysis without path-rewrite plugins
"""
import json
import os
from . import common as C

PID = "C14"
KEEP = ("rules", "path", "noplugin")
NF = ("b", "e", "bb", "eb", "surface", "norm", "pos", "dic", "word", "dform", "reading", "total")


def project(src, dst):
    n = 0
    with open(dst, "w") as out:
        for line in open(src):
            e = json.loads(line)
            if e["ev"] not in KEEP:
                continue
            if e["ev"] == "path":
                if e["stage"] not in ("best", "rewrite", "split"):
                    continue
                e["nodes"] = [{k: m[k] for k in NF} for m in e["nodes"]]
            out.write(json.dumps(e, separators=(",", ":")) + "\n")
            n += 1
    return n


def run(tier, replay=None):
    if replay:
        C.build_harness()
        return C.generic_replay(PID, replay)
    out = C.Outcome(PID, tier)
    C.ensure_dirs()
    C.build_harness()
    out.assumptions = [
        "TLC/SANY and the JSON bridge are trusted; hook H3 logs the path after resolve_best_path and after every path-rewrite plugin",
        "which runs get joined is not fixed by C14 (C15 fixes the numeral part): exact agreement of the transcribed loops with the real plugins is reported as drift only",
        "the numeral plugin may replace the normalised form of a single numeral token (C15); nothing else of an unjoined token may change",
    ]
    maxlen = 4 if tier == "quick" else 5
    rp = os.path.join(C.WORK, "traces", f"c14_replay_{tier}.txt")
    with open(rp, "w") as f:
        for minlen in (0, 2):
            for norm in ("TRUE", "FALSE"):
                cfg = os.path.join(C.WORK, "tlc", f"MC_PathRewrite_{tier}_{minlen}_{norm}.cfg")
                with open(cfg, "w") as g:
                    g.write(f"SPECIFICATION MSpec\nCONSTANTS\n  MaxLen = {maxlen}\n  MinLength = {minlen}\n  Normalize = {norm}\nINVARIANTS Terminates NumericIsMerge KatakanaIsMerge Emit\nCHECK_DEADLOCK FALSE\n")
                # expression-level coverage makes TLC crawl on the deeply recursive loop operators: statistics only
                r = C.tlc_mc("MC_PathRewrite", cfg, workers=12, sink=lambda l: f.write(l + "\n"), timeout=40000, coverage=False)
                if r.violated:
                    out.violation(f"model invariant {r.violated} violated in MC_PathRewrite (minLength={minlen}, normalize={norm})", {"tlc_tail": r.tail}, signature=f"C14/model/{r.violated}")
                if r.distinct < 1000:
                    raise C.ToolError("vacuous model-checking run of MC_PathRewrite")
                out.add_mc(f"MC_PathRewrite[minLength={minlen}, normalize={norm}]", r, {"maxlen": maxlen})
    # every enumerated path through the real plugins: exact agreement = drift only; the real paths are trace-validated (gating)
    rt = os.path.join(C.WORK, "traces", f"c14_replaytrace_{tier}.ndjson")
    p = C.run_vh(["c14-replay", rp, "--trace", rt], timeout=40000)
    res = json.loads(p.stdout.strip().splitlines()[-1])
    if res["compared"] == 0:
        raise C.ToolError("no behaviours replayed")
    out.cov["replayed_paths"] = res["compared"]
    out.cov["replay_skipped_other_best_path"] = res["skipped_other_best_path"]
    if res["mismatches"]:
        out.cov["drift"].append(f"the real plugins join other runs than the transcribed loops on {len(res['mismatches'])}+ enumerated paths, e.g. " +
                                json.dumps({k: res['mismatches'][0].get(k) for k in ('what', 'text', 'expected', 'got')}, ensure_ascii=False)[:300])
    else:
        out.cov["transcription_binding"] = f"the transcribed loops agree exactly with the real plugins on all {res['compared']} comparable enumerated paths"
    rtp = os.path.join(C.WORK, "traces", f"c14_replaytrace_p_{tier}.ndjson")
    project(rt, rtp)
    if tier == "quick":
        ev1, rej1 = C.validate_trace(out, "Trace_PathRewrite", "Trace_PathRewrite.cfg", rtp, "C14 (enumerated paths)", timeout=40000)
    else:
        ev1, rej1 = C.validate_trace_parallel(out, "Trace_PathRewrite", "Trace_PathRewrite.cfg", rtp, "C14 (enumerated paths)", header_kinds=("rules",), n=10)
    out.cov["evaluations"] += res["behaviours"]
    # recorded analyses with several plugin settings/orders
    raw = os.path.join(C.WORK, "traces", f"c14_{tier}.ndjson")
    pr = C.run_vh(["c14-record", raw, "--seed", C.seed(), "--n", 300 if tier == "quick" else 6000], timeout=40000)
    info = json.loads(pr.stdout.strip().splitlines()[-1])
    tp = os.path.join(C.WORK, "traces", f"c14_p_{tier}.ndjson")
    project(raw, tp)
    if tier == "quick":
        events, rej = C.validate_trace(out, "Trace_PathRewrite", "Trace_PathRewrite.cfg", tp, "C14", timeout=40000)
    else:
        events, rej = C.validate_trace_parallel(out, "Trace_PathRewrite", "Trace_PathRewrite.cfg", tp, "C14", header_kinds=("rules",), n=10)
    out.cov["traces_validated_against_impl"] += info["runs"] + res["behaviours"]
    out.cov["evaluations"] += info["runs"]
    prev, merges = None, set()
    for e in events:
        if e["ev"] == "path":
            if e["stage"] == "rewrite" and prev is not None and len(e["nodes"]) < len(prev):
                merges.add(json.dumps([[n["b"], n["e"]] for n in e["nodes"]]) + json.dumps([n["surface"] for n in prev]))
            prev = e["nodes"]
    out.cov["distinct_nontrivial"] = len(merges)
    out.cov["rule"] = ("MC: all paths of <= %d one-character tokens over 11 token kinds (digits, kanji numerals, comma, period, OOV katakana, short dictionary katakana, "
                       "NOOOVBOW katakana, other, a kanji numeral tagged as noun) x minLength {0,2} x enableNormalize {true,false}, each also run through the real plugins; traces: 6 plugin "
                       "settings/orders x fixture + random texts (numerals with separators next to katakana runs at text edges); non-trivial = distinct rewrites that joined tokens" % maxlen)
    out.add_samples([e for e in events if e["ev"] == "path" and e["stage"] == "rewrite"][3:5])
    if rej == 0 and rej1 == 0:
        idx = next(i for i, e in enumerate(events) if e["ev"] == "path" and e["stage"] == "rewrite" and i > 0 and events[i - 1]["ev"] == "path" and len(e["nodes"]) < len(events[i - 1]["nodes"]))
        ri = max(i for i, e in enumerate(events[:idx]) if e["ev"] == "rules")
        bi = max(i for i, e in enumerate(events[:idx]) if e["ev"] == "path" and e["stage"] == "best")
        ev2 = json.loads(json.dumps([events[ri]] + events[bi:idx + 1]))
        ev2[-1]["nodes"][0]["e"] += 0
        ev2[-1]["nodes"] = ev2[-1]["nodes"][1:]      # a token dropped
        pp = os.path.join(C.WORK, "traces", "c14_probe.ndjson")
        C.write_ndjson(pp, ev2)
        m2, t2, _ = C.tlc_trace("Trace_PathRewrite", "Trace_PathRewrite.cfg", pp)
        if m2 != len(ev2) - 1:
            raise C.ToolError(f"corruption probe: a dropped token was not rejected ({m2} of {t2})")
        out.cov["corruption_probe"] = "first token of a recorded rewritten path dropped: rejected exactly there"
    out.cov["exhaustive"] = True
    return out.finish()
