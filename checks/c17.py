"""C17 - character classes of a code point are the union of all covering definitions.

spec/CharCategory.tla      meaning (Expected) + transcribed compile()/bisection, invariant UnionOfCovering
spec/MC_CharCategory.tla   bounded instance, emits every compiled definition file as a REPLAY line
spec/Trace_CharCategory.tla  validates recorded lookups over every Unicode scalar value
"""
import json
import os
from . import common as C

PID = "C17"


def mc_cfg(path, maxcp, classes, maxlines):
    with open(path, "w") as f:
        f.write(f"""SPECIFICATION Spec
CONSTANTS
  MaxCp = {maxcp}
  Classes = {{{', '.join(map(str, classes))}}}
  DEFAULT = 0
  MaxLines = {maxlines}
INVARIANTS TypeOK UnionOfCovering CompiledShape Emit
CHECK_DEADLOCK FALSE
""")


def run(tier, replay=None):
    if replay:
        C.build_harness()
        return C.generic_replay(PID, replay)
    out = C.Outcome(PID, tier)
    C.ensure_dirs()
    C.build_harness()
    out.assumptions = [
        "TLC/SANY and the CommunityModules JSON reader are trusted",
        "the recorder's own reading of the definition-file syntax (hex ranges + class names) supplies the `defs` of a trace",
        "definition files that fail to load are outside the property",
    ]
    # ---- 1. model checking + S->I replay
    bounds = {"quick": dict(maxcp=4, classes=[1, 2], maxlines=2), "thorough": dict(maxcp=5, classes=[1, 2], maxlines=3)}[tier]
    cfg = os.path.join(C.WORK, "tlc", f"MC_CharCategory_{tier}.cfg")
    mc_cfg(cfg, **bounds)
    rp = os.path.join(C.WORK, "traces", f"c17_replay_{tier}.txt")
    with open(rp, "w") as f:
        r = C.tlc_mc("MC_CharCategory", cfg, workers=8, sink=lambda l: f.write(l + "\n"), timeout=3000)
    if r.violated:
        # the model is part of /verif: a violated model invariant is a defect of the transcribed design
        out.violation(f"model invariant {r.violated} violated in MC_CharCategory ({tier} bounds)",
                      {"tlc_tail": r.tail}, signature=f"C17/model/{r.violated}")
    out.require_actions(r, ["ReadLine", "Compile"])
    out.add_mc("MC_CharCategory", r, bounds)
    p = C.run_vh(["c17-replay", rp])
    res = json.loads(p.stdout.strip().splitlines()[-1])
    out.cov["replayed_behaviours"] = res["behaviours"]
    out.cov["replay_load_rejected"] = res["load_fail"]
    if res["drift"]:
        out.cov["drift"].append(f"compiled boundary table differs from the transcription in {res['drift']} replayed files (not fixed by C17)")
    if res.get("iter_panic") is not None:
        out.cov["drift"].append("CharacterCategory::iter() panics on a definition file without lines (outside C17: lookups are unaffected)")
    for m in res["mismatches"][:5]:
        out.violation("S->I: get_category_types differs from the value TLC computed for a replayed definition file: "
                      + json.dumps({k: m.get(k) for k in ('conc', 'cp', 'expected', 'got', 'panic') if k in m}),
                      {"kind": "s2i", "cmd": ["c17-replay", "--only", m["conc"]], "behaviour": m.get("abstract"), "detail": m})
    if res["behaviours"] == 0:
        raise C.ToolError("no behaviours replayed")
    out.cov["evaluations"] += res["runs"]

    # ---- 2. I->S: record lookups over every scalar value, validate with TLC
    n = 30 if tier == "quick" else 400
    tp = os.path.join(C.WORK, "traces", f"c17_{tier}.ndjson")
    p = C.run_vh(["c17-record", tp, "--seed", C.seed(), "--n", n])
    info = json.loads(p.stdout.strip().splitlines()[-1])
    events = C.read_ndjson(tp)
    matched, total, tr = C.tlc_trace("Trace_CharCategory", "Trace_CharCategory.cfg", tp)
    out.cov["traces_validated_against_impl"] += info["runs"]
    out.cov["trace_events"] = total
    out.cov["evaluations"] += info["runs"]
    out.cov["distinct_nontrivial"] = len({json.dumps(e["defs"]) for e in events if e["ev"] == "cdef" and len(e["defs"]) > 1})
    out.cov["rule"] = ("MC: all definition files within the bounds, every code point; traces: shipped char.def files + seeded random "
                       "overlapping/nested/adjacent definitions, every Unicode scalar value (run-length encoded); non-trivial = >1 line")
    out.add_samples([e for e in events if e["ev"] == "cdef"][3:5] + [e for e in events if e["ev"] == "crun"][:2])
    if tr.violated or matched < total:
        lo, hi = C.run_slice(events, matched)
        bad = events[min(matched, len(events) - 1)]
        what = (f"trace invariant {tr.violated} violated" if tr.violated else
                f"I->S: recorded event #{matched + 1} is not a behaviour of CharCategory: {json.dumps(bad)[:300]}")
        out.violation(what, {"kind": "trace", "module": "Trace_CharCategory", "cfg": "Trace_CharCategory.cfg",
                             "events": events[lo:hi], "rejected_index_in_run": matched - lo})
    else:
        # ---- 3. corruption probe: the binding must reject a trace with one altered observation
        idx = next(i for i, e in enumerate(events) if e["ev"] == "crun" and e["cats"] != [0])
        ev2 = [dict(e) for e in events[:idx + 3]]
        ev2[idx]["cats"] = [0] if ev2[idx]["cats"] != [0] else [1]
        pp = os.path.join(C.WORK, "traces", f"c17_{tier}_probe.ndjson")
        C.write_ndjson(pp, ev2)
        m2, t2, _ = C.tlc_trace("Trace_CharCategory", "Trace_CharCategory.cfg", pp)
        if m2 != idx:
            raise C.ToolError(f"corruption probe: altered event {idx} but TLC matched {m2} of {t2} events")
        out.cov["corruption_probe"] = f"altered classes of event {idx + 1}: rejected exactly there"
    out.cov["exhaustive"] = True
    return out.finish()
