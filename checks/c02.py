"""C02 - the chosen segmentation is a minimum-cost lattice path (Viterbi optimality).

spec/Lattice.tla        Insert/ConnectEos recurrence + brute-force oracle BestTo (ViterbiInv, EosOptimal)
spec/MC_Lattice.tla     all insertion sequences of the driver loop within bounds, 3 matrices (asymmetric, i16 extremes, 3x2)
spec/Trace_Lattice.tla  whole analyses: every insert obeys the recurrence, node parameters = lexicon source,
                        best path is a tiling with recomputed cumulative costs and the lattice minimum
spec/Analysis.tla       what the candidate words ARE: the lattice-building loop as the composition of index, word-start table and lattice;
                        MC_Analysis: processing reachable positions only loses no segmentation (Complete, VisitedReachable)
spec/UserCost.tla       costs declared -32768: clamp(total(last) - total(first) - 20 * #morphemes) of an analysis of the word against the dictionary
                        as loaded so far; Trace_UserCost over the loader's own hook events, and those analyses as ordinary runs of Trace_Lattice
spec/Trace_Analysis.tla the same recorded analyses: positions visited = the reachable ones, dictionary candidates inserted at a position =
                        exactly the lexicon's prefix matches with a permitted end (computed by TLC from the CSV keys), each once, before any OOV provider
"""
import json
import os
from . import common as C

PID = "C02"
KEEP = {"world", "run", "lat_reset", "pos_begin", "lat_ins", "lat_eos", "path", "result"}


def mc_cfg(path, maxn, maxnodes, costs, which):
    with open(path, "w") as f:
        f.write(f"""SPECIFICATION MSpec
CONSTANTS
  INF = 2147483647
  MaxN = {maxn}
  MaxNodes = {maxnodes}
  Ids = {{0, 1}}
  Costs <- {costs}
  WhichConn = {which}
INVARIANTS ViterbiInv EosOptimal Emit
CHECK_DEADLOCK FALSE
""")


def project(src, dst):
    n = 0
    with open(dst, "w") as out:
        for line in open(src):
            e = json.loads(line)
            ev = e["ev"]
            if ev not in KEEP:
                continue
            if ev == "path":
                if e["stage"] != "best":
                    continue
                e["nodes"] = [{k: m[k] for k in ("b", "e", "lid", "rid", "cost", "dic", "word", "total")} for m in e["nodes"]]
            elif ev == "lat_ins":
                e.pop("wid", None)
            elif ev == "result":
                if e["res"] == "ok":
                    e = {"ev": "result", "run": e["run"], "res": "ok", "morphemes": [{"total": m["total"]} for m in e["morphemes"]],
                         "internal_cost": e["internal_cost"]}
                else:
                    e = {"ev": "result", "run": e["run"], "res": e["res"]}
            elif ev == "run":
                e = {k: e[k] for k in ("ev", "run", "world", "mode", "meta", "text")}
            elif ev == "world":
                e = {k: e[k] for k in ("ev", "run", "name", "conn", "lex")}
            out.write(json.dumps(e, separators=(",", ":")) + "\n")
            n += 1
    return n


def project_analysis(src, dst):
    """the lattice-building loop per run: world{dicts}, tables{mod, bow} (hoisted from the run's result), pos_begin, lat_ins, pos_done, lat_eos"""
    runs, order, worlds = {}, [], []
    for line in open(src):
        e = json.loads(line)
        if e["ev"] == "world":
            order.append(("world", len(worlds)))
            worlds.append({"ev": "world", "run": e["run"], "dicts": e["dicts"]})
        elif "run" in e:
            if e["run"] not in runs:
                runs[e["run"]] = []
                order.append(("run", e["run"]))
            runs[e["run"]].append(e)
    n = 0
    with open(dst, "w") as out:
        for kind, k in order:
            if kind == "world":
                out.write(json.dumps(worlds[k], separators=(",", ":")) + "\n")
                continue
            evs = runs[k]
            res = next((e for e in evs if e["ev"] == "result"), None)
            if res is None or res["res"] != "ok" or not res["mod"]:
                continue          # refused, failed or empty inputs build no lattice to speak of (outcomes are C03's)
            out.write(json.dumps({"ev": "tables", "run": k, "mod": res["mod"], "bow": res["bow"]}, separators=(",", ":")) + "\n")
            for e in evs:
                if e["ev"] in ("pos_begin", "pos_done", "lat_eos"):
                    out.write(json.dumps({kk: e[kk] for kk in ("ev", "run", "p", "res") if kk in e}, separators=(",", ":")) + "\n")
                elif e["ev"] == "lat_ins":
                    out.write(json.dumps({kk: e[kk] for kk in ("ev", "run", "b", "e", "dic", "word")}, separators=(",", ":")) + "\n")
            n += 1
    return n


def analysis_pass(out, tier, raw):
    """Analysis.tla: the candidates inserted at every reachable position are exactly the lexicon's prefix matches with a permitted end"""
    cfg = os.path.join(C.WORK, "tlc", f"MC_Analysis_{tier}.cfg")
    with open(cfg, "w") as f:
        f.write(f"SPECIFICATION MSpec\nCONSTANTS\n  MaxLen = {3 if tier == 'quick' else 4}\nINVARIANTS Complete VisitedReachable\nCHECK_DEADLOCK FALSE\n")
    r = C.tlc_mc("MC_Analysis", cfg, workers=8, timeout=6000)
    if r.violated:
        out.violation(f"model invariant {r.violated} violated in MC_Analysis", {"tlc_tail": r.tail}, signature=f"C02/model/{r.violated}")
    out.require_actions(r, ["MStart", "PosBegin", "MInsDict", "MInsOov", "PosDone", "Close"])
    out.add_mc("MC_Analysis", r, {"MaxLen": 3 if tier == "quick" else 4})
    tp = os.path.join(C.WORK, "traces", f"c02_a_{tier}.ndjson")
    n = project_analysis(raw, tp)
    events, rej = C.validate_trace(out, "Trace_Analysis", "Trace_Analysis.cfg", tp, "C02/candidates")
    out.cov["analysis_runs_validated"] = n
    if rej == 0:
        # drop one dictionary candidate: the position may not be finished without it
        idx = next(i for i, e in enumerate(events) if e["ev"] == "lat_ins" and e["dic"] != 15)
        ev2 = [e for i, e in enumerate(events) if i != idx]
        pp = os.path.join(C.WORK, "traces", "c02_probe_a.ndjson")
        C.write_ndjson(pp, ev2)
        m2, t2, _ = C.tlc_trace("Trace_Analysis", "Trace_Analysis.cfg", pp)
        if m2 >= t2:
            raise C.ToolError("corruption probe: a dropped dictionary candidate was not rejected")
        out.cov["corruption_probe_candidates"] = f"the dictionary candidate of event {idx + 1} removed: rejected at event {m2 + 1}"
    return rej


def usercost_pass(out, tier):
    """UserCost.tla: costs declared -32768 are computed by the loader from an analysis of the word against the dictionary so far"""
    raw = os.path.join(C.WORK, "traces", f"c02_uc_raw_{tier}.ndjson")
    p = C.run_vh(["c02-usercost", raw, "--seed", C.seed(), "--worlds", 60 if tier == "quick" else 1500])
    info = json.loads(p.stdout.strip().splitlines()[-1])
    uc, lat = [], []
    world, evs_of = None, {}
    groups = []
    for e in C.read_ndjson(raw):
        if e["ev"] == "world":
            world = e
            groups.append((e, []))
        else:
            groups[-1][1].append(e)
    rid = 0
    for w, evs in groups:
        if not any(e["ev"] == "load" and e["res"] == "ok" for e in evs):
            continue
        g = w["run"]
        uc.append({"ev": "reset", "run": g})
        for ui, rows in enumerate(w["users"]):
            for wi, r in enumerate(rows):
                uc.append({"ev": "declare", "run": g, "dic": ui + 1, "word": wi, "key": r["key"], "cost": r["cost"]})
        finals = {(e["dic"], e["word"]): e for e in evs if e["ev"] == "final"}
        appended, cur = 0, []
        for e in evs:
            if e["ev"] == "start_build":
                cur = [e]
            elif e["ev"] in ("lat_reset", "pos_begin", "lat_ins", "lat_eos", "pos_done", "oov_call"):
                cur.append(e)
            elif e["ev"] == "path":
                cur.append(e)
                if e["stage"] == "split":
                    text = [c for n in e["nodes"] for c in n["surface"]]
                    uc.append({"ev": "inner", "run": g, "text": text, "totals": [n["total"] for n in e["nodes"]]})
                    # the same analysis as an ordinary run against the dictionary as loaded so far
                    rid += 1
                    users = w["users"][:appended]
                    lex = list(w["lex"]) + [[[finals[(ui + 1, wi)]["lid"], finals[(ui + 1, wi)]["rid"], finals[(ui + 1, wi)]["cost"]] for wi in range(len(rows))] for ui, rows in enumerate(users)]
                    lat.append({"ev": "world", "run": rid, "name": w["name"], "conn": w["conn"], "lex": lex})
                    lat.append({"ev": "run", "run": rid, "world": w["name"], "mode": 2, "meta": {"n_path_rewrite": 0}, "text": text})
                    for x in cur:
                        if x["ev"] in ("lat_reset", "pos_begin", "lat_ins", "lat_eos") or (x["ev"] == "path" and x["stage"] == "best"):
                            y = dict(x, run=rid)
                            y.pop("wid", None)
                            if y["ev"] == "path":
                                y["nodes"] = [{k: m[k] for k in ("b", "e", "lid", "rid", "cost", "dic", "word", "total")} for m in y["nodes"]]
                            lat.append(y)
            elif e["ev"] == "dict_write" and e["detail"]["what"] == "set_cost":
                uc.append({"ev": "set_cost", "run": g, "dic": appended + 1, "word": e["detail"]["word"], "cost": e["detail"]["cost"]})
            elif e["ev"] == "dict_write" and e["detail"]["what"] == "lexicon_append":
                appended += 1
            elif e["ev"] == "final":
                uc.append({"ev": "final", "run": g, "dic": e["dic"], "word": e["word"], "cost": e["cost"]})
    tp = os.path.join(C.WORK, "traces", f"c02_uc_{tier}.ndjson")
    C.write_ndjson(tp, uc)
    events, rej = C.validate_trace(out, "Trace_UserCost", "Trace_UserCost.cfg", tp, "C02/user-costs")
    tp2 = os.path.join(C.WORK, "traces", f"c02_ucl_{tier}.ndjson")
    C.write_ndjson(tp2, lat)
    ev2, rej2 = C.validate_trace(out, "Trace_Lattice", "Trace_Lattice.cfg", tp2, "C02/loader-analyses")
    n = sum(1 for e in events if e["ev"] == "set_cost")
    if n == 0 or not any(e["ev"] == "inner" and len(e["totals"]) > 1 for e in events):
        raise C.ToolError("vacuous: no cost was computed at load time, or never from an analysis with more than one morpheme")
    out.cov["user_costs_computed"] = n
    out.cov["loader_analyses_validated"] = sum(1 for e in ev2 if e["ev"] == "run")
    out.cov["evaluations"] += n
    if rej == 0:
        k = next(i for i, e in enumerate(events) if e["ev"] == "set_cost")
        e2 = json.loads(json.dumps(events[:k + 1]))
        e2[k]["cost"] += 1
        pp = os.path.join(C.WORK, "traces", "c02_probe_uc.ndjson")
        C.write_ndjson(pp, e2)
        m2, t2, _ = C.tlc_trace("Trace_UserCost", "Trace_UserCost.cfg", pp)
        if m2 != k:
            raise C.ToolError("corruption probe: an altered computed cost was not rejected")
        out.cov["corruption_probe_usercost"] = "a computed user-word cost altered by 1: rejected at that event"
    return rej + rej2


def run(tier, replay=None):
    if replay:
        C.build_harness()
        return C.generic_replay(PID, replay)
    out = C.Outcome(PID, tier)
    C.ensure_dirs()
    C.build_harness()
    out.assumptions = [
        "TLC/SANY and the JSON bridge are trusted",
        "hook H2 logs every Lattice::insert / connect_eos after the state change; the candidate set of a lattice is the set of logged inserts",
        "the driver's own rendering/parsing of matrix text and lexicon CSV is the source of truth for connection costs and word parameters "
        "(word number = CSV row number); costs of user words declared -32768 are computed at load time and adopted",
    ]
    # ---- 1. model checking + S->I, three matrices
    b = dict(maxn=3, maxnodes=3, costs="CostSetQ") if tier == "quick" else dict(maxn=3, maxnodes=4, costs="CostSetQ")
    rp = os.path.join(C.WORK, "traces", f"c02_replay_{tier}.txt")
    with open(rp, "w") as f:
        for which in (1, 2, 3):
            cfg = os.path.join(C.WORK, "tlc", f"MC_Lattice_{tier}_{which}.cfg")
            mc_cfg(cfg, which=which, **b)
            r = C.tlc_mc("MC_Lattice", cfg, workers=8, sink=lambda l: f.write(l + "\n"), timeout=6000)
            if r.violated:
                out.violation(f"model invariant {r.violated} violated in MC_Lattice (matrix {which})", {"tlc_tail": r.tail}, signature=f"C02/model/{r.violated}")
            out.require_actions(r, ["MReset", "MInsert", "MAdvance", "MEos"])
            out.add_mc(f"MC_Lattice[conn{which}]", r, dict(b, which=which))
        if tier == "thorough":
            cfg = os.path.join(C.WORK, "tlc", f"MC_Lattice_{tier}_ext.cfg")
            mc_cfg(cfg, which=2, maxn=3, maxnodes=3, costs="CostSetT")
            r = C.tlc_mc("MC_Lattice", cfg, workers=8, sink=lambda l: f.write(l + "\n"), timeout=6000)
            if r.violated:
                out.violation(f"model invariant {r.violated} violated in MC_Lattice (extreme costs)", {"tlc_tail": r.tail}, signature=f"C02/model/{r.violated}")
            out.add_mc("MC_Lattice[extreme costs]", r, dict(maxn=3, maxnodes=3, costs="CostSetT", which=2))
    p = C.run_vh(["c02-replay", rp])
    res = json.loads(p.stdout.strip().splitlines()[-1])
    if res["behaviours"] == 0:
        raise C.ToolError("no behaviours replayed")
    out.cov["replayed_behaviours"] = res["behaviours"]
    out.cov["replayed_steps"] = res["steps"]
    out.cov["evaluations"] += res["behaviours"]
    for m in res["mismatches"][:4]:
        out.violation("S->I: real Lattice differs from the behaviour TLC computed: " +
                      json.dumps({k: m.get(k) for k in ("what", "node", "expected", "got")})[:300],
                      {"kind": "s2i", "cmd": ["c02-replay"], "behaviour": m.get("abstract"), "detail": {k: m[k] for k in m if k != "abstract"}})
    # ---- 2. I->S
    worlds, texts = (40, 12) if tier == "quick" else (1500, 20)
    raw = os.path.join(C.WORK, "traces", f"c02_{tier}.ndjson")
    p = C.run_vh(["c02-record", raw, "--seed", C.seed(), "--worlds", worlds, "--texts", texts])
    info = json.loads(p.stdout.strip().splitlines()[-1])
    tp = os.path.join(C.WORK, "traces", f"c02_p_{tier}.ndjson")
    project(raw, tp)
    events, rej = C.validate_trace(out, "Trace_Lattice", "Trace_Lattice.cfg", tp, "C02")
    rej += analysis_pass(out, tier, raw)
    rej += usercost_pass(out, tier)
    out.cov["traces_validated_against_impl"] += info["runs"]
    out.cov["evaluations"] += info["runs"]
    out.cov["generated_dictionaries"] = info["worlds"]
    lat = {}
    for e in events:
        if e["ev"] == "lat_ins":
            lat.setdefault(e["run"], []).append((e["b"], e["e"]))
    out.cov["distinct_nontrivial"] = len({json.dumps(v) for v in lat.values() if len(v) > len({b for b, _ in v})})
    out.cov["rule"] = ("MC: every insertion sequence within bounds x 3 matrices; traces: generated dictionaries (random non-square matrices with "
                       "i16 extremes and 32767 cells, homographs, overlapping keys, extreme word costs) x random texts + fixture dictionary under 7 "
                       "plugin stacks; non-trivial = distinct lattices with at least two candidates starting at the same position")
    out.add_samples([e for e in events if e["ev"] == "lat_ins"][:2] + [e for e in events if e["ev"] == "path"][:1])
    if rej == 0:
        idx = next(i for i, e in enumerate(events) if e["ev"] == "lat_ins" and e["b"] > 0)
        ev2 = json.loads(json.dumps(events[:idx + 2]))
        ev2[idx]["total"] += 1
        pp = os.path.join(C.WORK, "traces", "c02_probe.ndjson")
        C.write_ndjson(pp, ev2)
        m2, t2, _ = C.tlc_trace("Trace_Lattice", "Trace_Lattice.cfg", pp)
        if m2 != idx:
            raise C.ToolError(f"corruption probe: altered event {idx} but TLC matched {m2} of {t2}")
        out.cov["corruption_probe"] = f"total of the insert at event {idx + 1} altered by 1: rejected exactly there"
    out.cov["exhaustive"] = True
    return out.finish()
