"""C12 - layered user dictionaries keep ids, parts of speech and references straight.

spec/DictLayers.tla        POS list growth (system, plugin registrations, user-only POS appended at merge time), per-layer offset,
                           stored vs reported POS ids, reference stamping, the 15-dictionary limit; PosStraight
spec/MC_DictLayers.tla     plugin registrations x overlapping user POS x references x up to MaxDicts layers; emits expectations
spec/Trace_DictLayers.tla  larger random stacks (1..14 layers, and the refused 15th) observed through analyses and the lexicon
"""
import json
import os
from . import common as C

PID = "C12"


def run(tier, replay=None):
    if replay:
        C.build_harness()
        return C.generic_replay(PID, replay)
    out = C.Outcome(PID, tier)
    C.ensure_dirs()
    C.build_harness()
    out.assumptions = [
        "TLC/SANY and the JSON bridge are trusted; the harness renders abstract POS names and word lists to CSV / plugin settings",
        "user dictionaries are compiled against the bare system dictionary (no plugin-registered POS), as the repository's tests and `ubuild` do",
        "plugin POS registration is exercised through OOV providers with userPOS=allow",
    ]
    b = dict(maxdicts=2, maxregs=2) if tier == "quick" else dict(maxdicts=3, maxregs=2)
    cfg = os.path.join(C.WORK, "tlc", f"MC_DictLayers_{tier}.cfg")
    with open(cfg, "w") as f:
        f.write(f"""SPECIFICATION MSpec
CONSTANTS
  SysPos <- Sys
  MaxUser = 14
  MaxDicts = {b['maxdicts']}
  MaxRegs = {b['maxregs']}
INVARIANTS PosStraight SystemPosUntouched AtMostMax Emit
CHECK_DEADLOCK FALSE
""")
    rp = os.path.join(C.WORK, "traces", f"c12_replay_{tier}.txt")
    with open(rp, "w") as f:
        r = C.tlc_mc("MC_DictLayers", cfg, workers=8, sink=lambda l: f.write(l + "\n"), timeout=10000)
    if r.violated:
        out.violation(f"model invariant {r.violated} violated in MC_DictLayers", {"tlc_tail": r.tail}, signature=f"C12/model/{r.violated}")
    out.require_actions(r, ["MReg", "MDone", "MMerge", "MFreeze"])
    out.add_mc("MC_DictLayers", r, b)
    p = C.run_vh(["c12-replay", rp], timeout=20000)
    res = json.loads(p.stdout.strip().splitlines()[-1])
    if res["behaviours"] == 0:
        raise C.ToolError("no behaviours replayed")
    out.cov["replayed_behaviours"] = res["behaviours"]
    out.cov["evaluations"] += res["words"]
    for m in res["mismatches"][:4]:
        out.violation("S->I: the loaded dictionary stack differs from what TLC computed: " +
                      json.dumps({k: m.get(k) for k in ("what", "dict", "word", "expected", "got")}, ensure_ascii=False)[:400],
                      {"kind": "s2i", "cmd": ["c12-replay"], "behaviour": m.get("abstract"), "detail": {k: m[k] for k in m if k != "abstract"}})
    tp = os.path.join(C.WORK, "traces", f"c12_{tier}.ndjson")
    C.run_vh(["c12-record", tp, "--seed", C.seed(), "--stacks", 16 if tier == "quick" else 400], timeout=20000)
    events, rej = C.validate_trace(out, "Trace_DictLayers", "Trace_DictLayers.cfg", tp, "C12", timeout=20000)
    words = [e for e in events if e["ev"] == "word"]
    out.cov["traces_validated_against_impl"] += sum(1 for e in events if e["ev"] == "layers")
    out.cov["evaluations"] += len(words)
    out.cov["distinct_nontrivial"] = len({json.dumps([e["regs"], e["dicts"]]) for e in events if e["ev"] == "layers" and len(e["dicts"]) > 1})
    out.cov["stacks_of_14"] = sum(1 for e in events if e["ev"] == "layers" and e["k"] == 14)
    out.cov["refused_15th"] = sum(1 for e in events if e["ev"] == "loaded" and e.get("too_many"))
    out.cov["rule"] = ("MC: every order of <=2 plugin POS registrations (a new POS, a system POS, a POS some user dictionary also declares) x <=%d user "
                       "dictionaries of 1-2 words over {system POS, U1, U2} with own/system references; traces: random stacks of 1..6, 14 and 15 user dictionaries; "
                       "non-trivial = distinct configurations with at least two user dictionaries" % b["maxdicts"])
    out.add_samples([e for e in events if e["ev"] == "layers"][1:2] + words[5:6])
    if rej == 0 and words:
        idx = next(i for i, e in enumerate(events) if e["ev"] == "word" and e["d"] > 0)
        li = max(i for i, e in enumerate(events[:idx]) if e["ev"] == "layers")
        ev2 = json.loads(json.dumps([events[li], events[li + 1], events[idx]]))
        ev2[2]["obs"]["pos"] = "V" if ev2[2]["obs"]["pos"] != "V" else "N"
        pp = os.path.join(C.WORK, "traces", "c12_probe.ndjson")
        C.write_ndjson(pp, ev2)
        m2, t2, _ = C.tlc_trace("Trace_DictLayers", "Trace_DictLayers.cfg", pp)
        if m2 != 2:
            raise C.ToolError(f"corruption probe: altered a reported POS but TLC matched {m2} of {t2}")
        out.cov["corruption_probe"] = "reported POS of one user word altered: rejected exactly there"
    out.cov["exhaustive"] = True
    return out.finish()
