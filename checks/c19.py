"""C19 - the Python bindings and the command-line tool report exactly what the core library computes.

spec/Bindings.tla        the Python API as a state machine over named objects (tokenizers, lists, morpheme handles) with the core library as an oracle:
                         which library result every object must show after every call; mode override, out-list reuse, shared-input invalidation
spec/MC_Bindings.tla     every history of <= N calls over a fabricated oracle: ModeIsStable, OneTarget; each history is emitted and run on the real extension
spec/Trace_Bindings.tla  lib / sess / call / obs events: the real sudachipy extension driven by pydrv/c19_py.py, the oracle recorded by `vh c19-lib`
spec/Cli.tla             the command-line tool: lines, terminators, sentence splitting, the column / wakati formats as functions of the oracle's results
spec/Trace_Cli.tla       cli events: real runs of the `sudachi` binary on generated multi-line files
spec/ConfigResolve.tla   assembling a configuration (argument > file > default, anchors in order, no duplicates) and resolving resource names;
                         MC_ConfigResolve enumerates 4608 scenarios, each is set up on disk for the real Config::new / complete_path
The extension and the binary are rebuilt from /repo's working tree on every run.
"""
import json
import os
import shutil
import subprocess
import sys
from . import common as C

PID = "C19"
W = os.path.join(C.WORK, "c19")
TARGET = os.path.join(C.WORK, "target-repo")
PYPKG = os.path.join(C.WORK, "pypkg")
PYDRV = os.path.join(os.path.dirname(os.path.dirname(os.path.abspath(__file__))), "pydrv")


def build_bindings():
    """cargo build of the CLI and the Python extension from /repo's working tree; the package is assembled under work/pypkg"""
    os.makedirs(W, exist_ok=True)
    # dev profile (debug assertions and overflow checks stay on), optimised so that thousands of sessions run in seconds
    env = dict(os.environ, CARGO_NET_OFFLINE="true", CARGO_PROFILE_DEV_OPT_LEVEL="2", CARGO_PROFILE_DEV_DEBUG="0")
    p = subprocess.run(["cargo", "build", "--offline", "-q", "-p", "sudachi-cli", "-p", "sudachipy", "--target-dir", TARGET], cwd=C.REPO, env=env,
                       stdout=subprocess.PIPE, stderr=subprocess.PIPE, text=True)
    if p.returncode != 0:
        sys.stderr.write(p.stderr[-4000:])
        raise C.ToolError("building sudachi-cli / sudachipy failed")
    pkg = os.path.join(PYPKG, "sudachipy")
    if os.path.exists(pkg):
        shutil.rmtree(pkg)
    shutil.copytree(os.path.join(C.REPO, "python", "py_src", "sudachipy"), pkg)
    shutil.copy(os.path.join(TARGET, "debug", "libsudachipy.so"), os.path.join(pkg, "sudachipy.so"))
    world = os.path.join(W, "world")
    C.run_vh(["c19-world", world])
    return world, os.path.join(TARGET, "debug", "sudachi")


def run_python(world, sessions_path, out_path, timeout=3000):
    env = dict(os.environ, PYTHONPATH=PYPKG, RUST_BACKTRACE="0", PYTHONWARNINGS="ignore")
    p = subprocess.run([sys.executable, os.path.join(PYDRV, "c19_py.py"), world, sessions_path, out_path], env=env,
                       stdout=subprocess.PIPE, stderr=subprocess.PIPE, text=True, timeout=timeout)
    return p.returncode, p.stderr[-2000:]


ALL_FIELDS = ["dictionary_form", "normalized_form", "pos", "reading_form", "split_a", "split_b", "surface", "synonym_group_id", "word_structure"]
REQUIRED = {"normalized": ["normalized_form"], "normalized_and_surface": ["normalized_form"], "normalized_nouns": ["normalized_form"], "reading": ["reading_form"],
            "dictionary": ["dictionary_form"], "dictionary_and_surface": ["dictionary_form"]}
MODE_FIELD = {0: ["split_a"], 1: ["split_b"], 2: []}


def needed_requests(s, executed=None):
    """the (text, mode, fields) analyses and the lookups a session's calls ask of the library, in order.  This mirrors only which
    QUESTIONS are asked (a tokenizer's accumulated field set); a question the specification needs and this misses makes TLC reject
    the call, it cannot make a wrong answer acceptable."""
    tks, pts, reqs = {}, {}, []
    for op in (executed if executed is not None else s["ops"]):
        if op["op"] == "create":
            mode = 2 if op["mode"] == -1 else op["mode"]
            f = set(ALL_FIELDS if op["fields"] == "all" else op["fields"]) | set(REQUIRED.get(op["projection"], [])) | set(MODE_FIELD[mode])
            tks[op["tk"]] = {"mode": mode, "fields": f}
        elif op["op"] == "tokenize" and op["tk"] in tks:
            t = tks[op["tk"]]
            eff = t["mode"] if op["mode"] == -1 else op["mode"]
            t["fields"] = t["fields"] | set(MODE_FIELD[eff])
            reqs.append({"op": "tok", "text": op["text"], "mode": eff, "fields": sorted(t["fields"])})
        elif op["op"] == "lookup":
            reqs.append({"op": "lookup", "text": op["text"]})
        elif op["op"] == "pretok_new":
            mode = 2 if op["mode"] == -1 else op["mode"]
            f = (set(ALL_FIELDS if op["fields"] == "all" else op["fields"]) if op["handler"] else set()) | set(REQUIRED.get(op["projection"], [])) | set(MODE_FIELD[mode])
            pts[op["pt"]] = {"mode": mode, "fields": f}
        elif op["op"] == "pretok_call" and op["pt"] in pts:
            reqs.append({"op": "tok", "text": op["text"], "mode": pts[op["pt"]]["mode"], "fields": sorted(pts[op["pt"]]["fields"])})
        elif op["op"] in ("matcher", "matcher_fn") and not any(r["op"] == "pos" for r in reqs):
            reqs.append({"op": "pos", "text": []})
    return reqs


def lib_results(world, sessions, py_events=None):
    """ask the core library (vh c19-lib) for every analysis / lookup a session needs; returns {sess id: [lib events]}"""
    by_cfg, per_sess = {}, {}
    made = {}
    for e in (py_events or []):
        if e["ev"] == "py":
            made.setdefault(e["sess"], []).append(e["args"])
    for s in sessions:
        reqs = by_cfg.setdefault(s["cfg"], {})
        per_sess[s["sess"]] = []
        done = None if py_events is None else made.get(s["sess"], [])   # calls the driver really made
        for r in needed_requests(s, done):
            k = json.dumps(r, sort_keys=True)
            reqs[k] = r
            if k not in per_sess[s["sess"]]:
                per_sess[s["sess"]].append(k)
    answers = {}
    for cfg, reqs in by_cfg.items():
        rp = os.path.join(W, f"req_{cfg}.ndjson")
        op_ = os.path.join(W, f"lib_{cfg}.ndjson")
        keys = list(reqs.keys())
        expand = lambda r: dict(r, text=[r["text"][2]] * r["text"][1]) if r["text"][:1] == [1114112] else r    # named long texts, see the driver
        C.write_ndjson(rp, [expand(reqs[k]) for k in keys])
        C.run_vh(["c19-lib", world, cfg, rp, op_])
        for k, e in zip(keys, C.read_ndjson(op_)):
            e["text"] = reqs[k]["text"]
            answers[(cfg, k)] = e
    out = {}
    for s in sessions:
        evs = []
        for k in per_sess[s["sess"]]:
            e = dict(answers[(s["cfg"], k)])
            e["sess"] = s["sess"]
            e.setdefault("mode", -1)
            e.setdefault("fields", [])
            e.setdefault("list", [])
            evs.append(e)
        out[s["sess"]] = evs
    return out


def assemble(sessions, libs, py_events, crashed):
    """sess, the oracle's results, then call/obs pairs (an operator over unprimed variables cannot judge the event that sets them)"""
    out = []
    by_sess = {}
    for e in py_events:
        by_sess.setdefault(e["sess"], []).append(e)
    for s in sessions:
        evs = by_sess.get(s["sess"], [])
        if not evs:
            continue
        out.append({"ev": "sess", "sess": s["sess"], "cfg": s["cfg"]})
        out.extend(libs[s["sess"]])
        for e in evs:
            if e["ev"] != "py":
                continue
            a = dict(e["args"])
            if e["op"] in ("create", "pretok_new"):
                a["all_fields"] = a["fields"] == "all"
                a["fields"] = [] if a["all_fields"] else a["fields"]
            out.append({"ev": "call", "sess": e["sess"], "k": e["k"], "op": e["op"], "args": a, "res": e["res"], "same_object": e.get("same_object", False), "msg": e["msg"], "val": e.get("val", [])})
            out.append({"ev": "obs", "sess": e["sess"], "k": e["k"], "modes": e["modes"], "lists": e["lists"], "handles": e["handles"], "matchers": e.get("matchers", [])})
        if not any(e["ev"] == "sess_end" for e in evs):
            out.append({"ev": "crash", "sess": s["sess"], "msg": crashed})       # no action of the specification matches an interpreter crash
    return out


def signature(run_events, bad):
    return None


T1_TEXTS = ["東京都に行った", "東京府。京都", "京都に行く", "1,234.5円", "東京都"]
LONG = "あ" * 16384


def model_sessions(out, tier):
    """S->I: every history TLC enumerates in MC_Bindings, with the abstract texts replaced by real ones"""
    depth = 3 if tier == "quick" else 4
    cfg = os.path.join(C.WORK, "tlc", f"MC_Bindings_{tier}.cfg")
    with open(cfg, "w") as f:
        f.write(f"SPECIFICATION MSpec\nCONSTANTS\n  MaxCalls = {depth}\nINVARIANTS ModesKept ValidListsHoldAnswers InvalidOnlyByShare Emit\nPROPERTIES ModeIsStable OneTarget\nCHECK_DEADLOCK FALSE\n")
    lines = []
    r = C.tlc_mc("MC_Bindings", cfg, workers=8, sink=lines.append, timeout=40000)
    if r.violated:
        out.violation(f"model property {r.violated} violated in MC_Bindings", {"tlc_tail": r.tail}, signature=f"C19/model/{r.violated}")
    out.require_actions(r, ["MTokenize", "MSplit", "MLookup", "MHold"])
    out.add_mc(f"MC_Bindings[<= {depth} calls]", r, {"MaxCalls": depth})
    sessions = []
    cps = lambda t: [ord(ch) for ch in t]
    stride = 1 if tier == "quick" else 12       # depth 4 has 245k histories: TLC checks them all, every 12th is executed on the extension
    for i, ln in enumerate(lines):
        if "REPLAY" not in ln or i % stride:
            continue
        start = ln.find(', "') + 2
        beh = json.loads(json.loads(ln[start:ln.rstrip().rfind(">>")]))
        t1 = T1_TEXTS[(i // stride) % len(T1_TEXTS)]
        ops = [{"op": "create", "tk": 0, "mode": 2 if i % 2 else -1, "fields": "all", "projection": "surface"},
               {"op": "create", "tk": 1, "mode": 0, "fields": ["surface"], "projection": "surface"}]
        for o in beh["ops"]:
            o = dict(o)
            o.pop("res", None)
            if "text" in o:
                o["text"] = cps(LONG if o["text"] == [9] else ("東京都" if o["op"] == "lookup" else t1))
            ops.append(o)
        sessions.append({"sess": 100000 + len(sessions), "cfg": ["default", "full", "regex"][(i // stride) % 3], "ops": ops})
    return sessions


def python_half(out, tier, world, sessions=None):
    if sessions is None:
        n = 120 if tier == "quick" else 2500
        sp0 = os.path.join(W, f"sessions_rand_{tier}.json")
        subprocess.run([sys.executable, os.path.join(PYDRV, "gen_sessions.py"), str(C.seed()), str(n), sp0], check=True)
        sessions = json.load(open(sp0)) + model_sessions(out, tier)
    sp = os.path.join(W, f"sessions_{tier}.json")
    json.dump(sessions, open(sp, "w"))
    pp = os.path.join(W, f"py_{tier}.ndjson")
    rc, err = run_python(world, sp, pp)
    py_events = C.read_ndjson(pp) if os.path.exists(pp) else []
    libs = lib_results(world, sessions, py_events)
    tp = os.path.join(C.WORK, "traces", f"c19_py_{tier}.ndjson")
    C.write_ndjson(tp, assemble(sessions, libs, py_events, f"driver exit {rc}: {err[-300:]}" if rc != 0 else ""))
    if tier == "thorough":
        events, rej = C.validate_trace_parallel(out, "Trace_Bindings", "Trace_Bindings.cfg", tp, "C19/python", key="sess", header_kinds=(), n=10, signature_fn=signature)
    else:
        events, rej = C.validate_trace(out, "Trace_Bindings", "Trace_Bindings.cfg", tp, "C19/python", key="sess", signature_fn=signature, timeout=40000)
    calls = [e for e in events if e["ev"] == "call"]
    out.cov["traces_validated_against_impl"] += len(sessions)
    out.cov["evaluations"] += len(calls)
    by = {}
    for e in calls:
        k = f'{e["op"]}/{e["res"]}'
        by[k] = by.get(k, 0) + 1
    out.cov["python_calls"] = by
    return events, rej


CLI_LINES = ["東京都に行った。京都に行く。", "1,234.5円と六三四", "特aと東京", "", "abc", "高輪ゲートウェイ駅", "な。な", "東京府。。", "「京都。」東京", " ", "a\rb", "\r", "アイウとアイアイウ",
             "123", "二〇二〇年", "ｶﾞｷﾞ㍿", "𠮷野家", "東京都東京府"]
EOLS = ["\n", "\r\n", "\n", "\n\n", "\r\n\r\n", "\r\r\n"]


def gen_cli_inputs(rng, n):
    out = []
    for _ in range(n):
        k = rng.randrange(0, 5)
        s = ""
        for i in range(k):
            s += rng.choice(CLI_LINES) + rng.choice(EOLS)
        if rng.random() < 0.5:
            s += rng.choice(CLI_LINES)      # no final newline
        out.append(s)
    out += ["", "\n", "\r\n", "\n\n", "京都", "京都\n", "京都\r\n", "\n京都", "\r\n京都\r\n", "京都\n\n東京\n", "\r", "\r\r\n"]
    return out


def cli_candidates(text):
    """every stripped line the specification can ask about (a superset: asking more never makes a wrong output acceptable)"""
    c = set()
    parts = text.split("\n")
    for i, p in enumerate(parts):
        c.add(p)
        if p.endswith("\r"):
            c.add(p[:-1])
        if i + 1 < len(parts):
            c.add(p + "\n")
    return sorted(c)


def run_cli(cli, world, cfg, args, text):
    argv = [cli, "-r", os.path.join(world, cfg + ".json"), "-p", world, "-m", "ABC"[args["mode"]]]
    if args["all"]:
        argv.append("-a")
    if args["wakati"]:
        argv.append("-w")
    argv.append("--split-sentences=" + ("only" if args.get("only") else "yes" if args["split"] else "no"))
    console = b""
    if args.get("files"):
        # the input as a file argument, the output to -o FILE: the same bytes as through the standard streams, nothing on stdout
        ip, op = os.path.join(W, "cli_in.txt"), os.path.join(W, "cli_out.txt")
        with open(ip, "wb") as f:
            f.write(text.encode("utf-8"))
        # the output file exists already and is longer than anything this run writes: what the run leaves is exactly its own output
        with open(op, "wb") as f:
            f.write(("以前の内容\n" * 2000).encode("utf-8"))
        p = subprocess.run(argv + ["-o", op, ip], stdin=subprocess.DEVNULL, stdout=subprocess.PIPE, stderr=subprocess.PIPE, timeout=120, env=dict(os.environ, RUST_BACKTRACE="0"))
        console = p.stdout
        data = open(op, "rb").read() if os.path.exists(op) else b""
    else:
        p = subprocess.run(argv, input=text.encode("utf-8"), stdout=subprocess.PIPE, stderr=subprocess.PIPE, timeout=120, env=dict(os.environ, RUST_BACKTRACE="0"))
        data = p.stdout
    try:
        so = [ord(ch) for ch in data.decode("utf-8")]
        ok = True
    except UnicodeDecodeError:
        so, ok = list(data), False
    return {"exit": p.returncode if ok else 900, "stdout": so, "console": list(console), "stderr": p.stderr.decode("utf-8", "replace")[-300:]}


def model_cli_inputs(out, tier):
    """S->I: every input TLC enumerates in MC_Cli over {x, CR, LF}, with x replaced by real text"""
    n = 4 if tier == "quick" else 6
    cfg = os.path.join(C.WORK, "tlc", f"MC_Cli_{tier}.cfg")
    with open(cfg, "w") as f:
        f.write(f"SPECIFICATION MSpec\nCONSTANTS\n  MaxLen = {n}\nINVARIANTS NoTerminatorAnalysed MachineIsRun BlankLineEmpty OnlyKeepsText Emit\nCHECK_DEADLOCK FALSE\n")
    lines = []
    r = C.tlc_mc("MC_Cli", cfg, workers=8, sink=lines.append, timeout=40000)
    if r.violated:
        out.violation(f"model invariant {r.violated} violated in MC_Cli", {"tlc_tail": r.tail}, signature=f"C19/model/{r.violated}")
    out.require_actions(r, ["MStep"])
    out.add_mc(f"MC_Cli[<= {n}]", r, {"MaxLen": n})
    xs = ["京都", "1,234", "東京都。", "a"]
    inputs = []
    for i, ln in enumerate(lines):
        if "REPLAY" not in ln:
            continue
        start = ln.find(', "') + 2
        beh = json.loads(json.loads(ln[start:ln.rstrip().rfind(">>")]))
        inputs.append("".join(xs[(i + k) % len(xs)] if c == 120 else chr(c) for k, c in enumerate(beh["input"])))
    return inputs


def cli_half(out, tier, world, cli, inputs=None, label="cli", only=None):
    import random
    rng = random.Random(C.seed() * 7 + 1)
    cps = lambda t: [ord(ch) for ch in t]
    if inputs is None:
        inputs = gen_cli_inputs(rng, 40 if tier == "quick" else 600) + model_cli_inputs(out, tier)
    runs = []
    for i, text in enumerate(inputs):
        combos = [(m, a, w, sp, False) for m in (0, 1, 2) for a in (False, True) for w in (False, True) for sp in (True, False) if not (a and w)]
        combos += [(2, False, False, True, True), (0, False, True, True, True)]      # --split-sentences=only (mode and format play no part)
        picks = combos if tier == "thorough" else rng.sample(combos, 3) + ([combos[-1 - (i % 2)]] if i % 4 == 0 else [])
        for j, (m, a, w, sp, on) in enumerate(picks):
            runs.append({"cfg": ["default", "full", "regex"][i % 3], "text": text,
                         "args": {"mode": m, "all": a, "wakati": w, "split": sp, "only": on, "files": (i + j) % 5 == 0}})
    if only is not None:
        runs = [{"cfg": only[0], "args": only[1], "text": inputs[0]}]
    events = []
    for cfg in ("default", "full", "regex"):
        mine = [r for r in runs if r["cfg"] == cfg]
        if not mine:
            continue
        lines = sorted({c for r in mine for c in cli_candidates(r["text"])})
        rp, op_ = os.path.join(W, f"clireq_{cfg}.ndjson"), os.path.join(W, f"clilib_{cfg}.ndjson")
        C.write_ndjson(rp, [{"op": "sentences", "text": cps(x)} for x in lines])
        C.run_vh(["c19-lib", world, cfg, rp, op_])
        sents = C.read_ndjson(op_)
        toks = sorted({"".join(map(chr, s)) for e in sents for s in e["sents"]} | set(lines))
        toks = [t for t in toks if len(t.encode("utf-8")) <= 49149]
        C.write_ndjson(rp, [{"op": "tok", "text": cps(x), "mode": m, "fields": ALL_FIELDS} for x in toks for m in (0, 1, 2)])
        op2 = os.path.join(W, f"clilib2_{cfg}.ndjson")
        C.run_vh(["c19-lib", world, cfg, rp, op2])
        sent_of = {"".join(map(chr, e["text"])): e for e in sents}
        tok_of = {("".join(map(chr, e["text"])), e["mode"]): e for e in C.read_ndjson(op2) if e["res"] == "ok"}
        # every run is a self-contained group: the oracle's answers it can need, then the run
        for r in mine:
            rid = len(events) + 1
            m = r["args"]["mode"]
            for c in cli_candidates(r["text"]):
                se = dict(sent_of[c], run=rid, mode=-1, ms=[])
                events.append(se)
                for t in ["".join(map(chr, x)) for x in se["sents"]] + [c]:
                    if (t, m) in tok_of:
                        events.append(dict(tok_of[(t, m)], run=rid, sents=[]))
            res = run_cli(cli, world, cfg, r["args"], r["text"])
            r["args"].setdefault("only", False)
            r["args"].setdefault("files", False)          # replay files written before these options existed
            events.append({"ev": "cli", "run": rid, "cfg": cfg, "args": r["args"], "input": cps(r["text"]), "stdout": res["stdout"], "console": res["console"],
                           "exit": res["exit"], "stderr": res["stderr"]})
    tp = os.path.join(C.WORK, "traces", f"c19_{label}_{tier}.ndjson")
    C.write_ndjson(tp, events)
    if tier == "thorough":
        evs, rej = C.validate_trace_parallel(out, "Trace_Cli", "Trace_Cli.cfg", tp, "C19/cli", key="run", header_kinds=(), n=10, signature_fn=signature)
    else:
        evs, rej = C.validate_trace(out, "Trace_Cli", "Trace_Cli.cfg", tp, "C19/cli", key="run", signature_fn=signature, timeout=40000)
    n = sum(1 for e in evs if e["ev"] == "cli")
    out.cov["traces_validated_against_impl"] += n
    out.cov["evaluations"] += n
    out.cov["cli_runs"] = out.cov.get("cli_runs", 0) + n
    return evs, rej


def config_pass(out, tier):
    """ConfigResolve.tla: how -r/-p/-l (Config::new) assemble a configuration and resolve resource names; every scenario TLC enumerates on disk"""
    lines = []
    r = C.tlc_mc("MC_ConfigResolve", "MC_ConfigResolve.cfg", workers=4, sink=lines.append, timeout=6000)
    if r.violated:
        out.violation(f"model invariant {r.violated} violated in MC_ConfigResolve", {"tlc_tail": r.tail}, signature=f"C19/model/{r.violated}")
    out.add_mc("MC_ConfigResolve", r, {})
    ip = os.path.join(W, "cfg_in.txt")
    with open(ip, "w") as f:
        f.write("\n".join(l for l in lines if "REPLAY" in l) + "\n")
    res = json.loads(C.run_vh(["cfg-replay", ip]).stdout.strip().splitlines()[-1])
    if res["behaviours"] < 1000:
        raise C.ToolError("configuration scenarios were not replayed")
    out.cov["config_scenarios_replayed"] = res["behaviours"]
    out.cov["evaluations"] += res["behaviours"]
    for m in res["mismatches"][:3]:
        out.violation("S->I: the real Config differs from what TLC computed: " + json.dumps({k: m.get(k) for k in ("what", "expected", "got")}, ensure_ascii=False)[:400],
                      {"kind": "s2i", "cmd": ["cfg-replay"], "behaviour": m.get("abstract"), "detail": {k: m[k] for k in m if k != "abstract"}})


def construct_pass(out, tier, cli):
    """PyConstruct.tla: which system dictionary sudachipy.Dictionary(...) ends up with, or that it refuses; every scenario TLC enumerates is given
    to the real constructor (S->I).  Behaviour beyond the listed statement: disagreement is reported as drift, not as a violation."""
    lines = []
    r = C.tlc_mc("MC_PyConstruct", "MC_PyConstruct.cfg", workers=4, sink=lines.append, timeout=6000)
    if r.violated:
        out.cov["drift"].append(f"PyConstruct: the documented promise {r.violated} does not hold on the transcription")
    out.add_mc("MC_PyConstruct", r, {})
    scen = []
    for ln in lines:
        if "REPLAY" not in ln:
            continue
        start = ln.find(', "') + 2
        scen.append(json.loads(json.loads(ln[start:ln.rstrip().rfind(">>")])))
    if tier == "quick":
        scen = [x for i, x in enumerate(scen) if i % 4 == C.seed() % 4]
    root = os.path.join(C.WORK, "pyconstruct")
    if os.path.exists(root):
        shutil.rmtree(root)
    os.makedirs(os.path.join(root, "files", "dir"))
    os.makedirs(os.path.join(root, "files", "res"))
    shutil.copytree(os.path.join(PYPKG, "sudachipy"), os.path.join(root, "pkg", "sudachipy"))
    res = os.path.join(root, "pkg", "sudachipy", "resources")
    tres = os.path.join(C.REPO, "sudachi", "tests", "resources")
    with open(os.path.join(res, "sudachi.json"), "w") as f:     # an installation whose packaged default names no dictionary and needs no large matrix
        json.dump({"systemDict": None, "characterDefinitionFile": "char.def",
                   "oovProviderPlugin": [{"class": "com.worksap.nlp.sudachi.SimpleOovPlugin", "oovPOS": ["名詞", "普通名詞", "一般", "*", "*", "*"], "leftId": 0, "rightId": 0, "cost": 30000}]}, f)
    shutil.copy(os.path.join(tres, "char.def"), os.path.join(res, "char.def"))
    shutil.copy(os.path.join(tres, "char.def"), os.path.join(root, "files", "res", "char.def"))
    dic = os.path.join(root, "files", "A.dic")
    p = subprocess.run([cli, "build", "-m", os.path.join(tres, "matrix_10x10.def"), "-o", dic, os.path.join(tres, "lex.csv")], stdout=subprocess.PIPE, stderr=subprocess.PIPE)
    if p.returncode != 0:
        raise C.ToolError("building the scenario dictionary failed")
    shutil.copy(dic, os.path.join(root, "files", "B.dic"))
    for k in ("small", "core", "full"):
        d = os.path.join(root, "stubs", k, "sudachidict_" + k, "resources")
        os.makedirs(d)
        shutil.copy(dic, os.path.join(d, "system.dic"))
        open(os.path.join(root, "stubs", k, "sudachidict_" + k, "__init__.py"), "w").close()
    ip, op = os.path.join(root, "scenarios.json"), os.path.join(root, "out.json")
    json.dump(scen, open(ip, "w"))
    env = {k: v for k, v in os.environ.items() if k != "PYTHONPATH"}
    p = subprocess.run([sys.executable, os.path.join(PYDRV, "construct_py.py"), root, ip, op], env=dict(env, RUST_BACKTRACE="0"), cwd=os.path.join(root, "files", "dir"),
                       stdout=subprocess.PIPE, stderr=subprocess.PIPE, text=True, timeout=3000)
    if p.returncode != 0 or not os.path.exists(op):
        out.cov["drift"].append("PyConstruct: the constructor driver did not finish: " + p.stderr[-300:])
        return
    got = json.load(open(op))
    if len(got) < 500 or not any(g["got"]["res"] == "ok" and g["got"]["sys"] == "pkg_small" for g in got) or not any(g["got"]["warn"] for g in got):
        raise C.ToolError("vacuous: constructor scenarios were not executed (or never reached a packaged dictionary / the deprecation warning)")
    bad = [g for g in got if (g["got"]["res"], g["got"]["sys"] if g["got"]["res"] == "ok" else "none", g["got"]["warn"]) != (g["want"]["res"], g["want"]["sys"] if g["want"]["res"] == "ok" else "none", g["want"]["warn"])]
    out.cov["constructor_scenarios_replayed"] = len(got)
    out.cov["evaluations"] += len(got)
    if bad:
        out.cov["drift"].append(f"PyConstruct: the real Dictionary constructor differs from the specification in {len(bad)} of {len(got)} scenarios, e.g. " +
                                json.dumps({"s": bad[0]["s"], "want": bad[0]["want"], "got": bad[0]["got"]}, ensure_ascii=False)[:500])


def replay_case(path, world, cli):
    """re-run the recorded session / command-line run on the current code and validate what it does now"""
    obj = json.load(open(path))
    evs = obj.get("replay", {}).get("events", [])
    out = C.Outcome(PID, "replay")
    out.dry = True
    calls = [e for e in evs if e.get("ev") == "call"]
    clis = [e for e in evs if e.get("ev") == "cli"]
    if calls:
        ops = []
        for e in calls:
            a = dict(e["args"])
            if e["op"] in ("create", "pretok_new"):
                a["fields"] = "all" if a.pop("all_fields", False) else a["fields"]
            if a.get("text", [])[:1] == [1114112]:
                a["text"] = [a["text"][2]] * a["text"][1]
            ops.append(a)
        cfg = next(e["cfg"] for e in evs if e.get("ev") == "sess")
        sessions = [{"sess": 1, "cfg": cfg, "ops": ops}]
        _, rej = python_half(out, "replay", world, sessions)
    elif clis:
        e = clis[0]
        text = "".join(map(chr, e["input"]))
        _, rej = cli_half(out, "replay", world, cli, inputs=[text], label="cli_replay", only=(e["cfg"], e["args"]))
    else:
        return C.generic_replay(PID, path)       # S->I payloads (configuration scenarios) carry their own replay command
    if rej:
        C.log(f"VIOLATION property={PID} replay={path}")
        return 1
    C.log("replay: the current code's behaviour on the recorded case is a behaviour of the specification")
    return 0


def run(tier, replay=None):
    C.ensure_dirs()
    C.build_harness()
    world, cli = build_bindings()
    if replay:
        return replay_case(replay, world, cli)
    out = C.Outcome(PID, tier)
    out.assumptions = ["TLC/SANY and the JSON bridge are trusted", "the oracle is the core library itself, driven through `vh c19-lib` on the same dictionary and configuration files"]
    events, rej = python_half(out, tier, world)
    cevents, crej = cli_half(out, tier, world, cli)
    config_pass(out, tier)
    construct_pass(out, tier, cli)
    calls = [e for e in events if e["ev"] == "call"]
    need = {
        "a failing call with a mode override": any(e["op"] == "tokenize" and e["res"] == "err" and e["args"]["mode"] != -1 for e in calls),
        "reuse of an out list by tokenize": any(e["op"] == "tokenize" and e["res"] == "ok" and e["args"]["out"] != -1 for e in calls),
        "split into an out list": any(e["op"] == "split" and e["res"] == "ok" and e["args"]["out"] != -1 for e in calls),
        "split without units into an out list": any(e["op"] == "split" and e["res"] == "ok" and e["args"]["out"] != -1 and e["args"]["add_single"] for e in calls),
        "lookup": any(e["op"] == "lookup" and e["res"] == "ok" for e in calls),
        "a stale morpheme handle": any(h[1]["res"] == "err" for e in events if e["ev"] == "obs" for h in e["handles"]),
        "a projection": any(e["op"] == "create" and e["args"]["projection"] != "surface" for e in calls),
        "a field subset": any(e["op"] == "create" and not e["args"]["all_fields"] for e in calls),
        "a POS matcher applied to morphemes": any(any(h[1] for h in m[1]["hits"]) for e in events if e["ev"] == "obs" for m in e.get("matchers", [])),
        "a POS matcher built by | & - ~": any(e["op"] == "mop" and e["res"] == "ok" for e in calls),
        "a POS pattern that matches nothing": any(e["op"] == "matcher" and e["res"] == "err" for e in calls),
        "a pre-tokenizer call with a projection": any(e["op"] == "pretok_call" and e["res"] == "ok" and e["val"] for e in calls),
    }
    clis = [e for e in cevents if e["ev"] == "cli"]
    txt = lambda e: "".join(map(chr, e["input"]))
    need.update({
        "cli: a blank line": any(txt(e).startswith("\n") or "\n\n" in txt(e) for e in clis),
        "cli: a blank CRLF line": any(txt(e).startswith("\r\n") or "\n\r\n" in txt(e) for e in clis),
        "cli: no final newline": any(txt(e) and not txt(e).endswith("\n") for e in clis),
        "cli: -w": any(e["args"]["wakati"] for e in clis), "cli: -a": any(e["args"]["all"] for e in clis),
        "cli: --split-sentences=only with two sentences": any(e["args"]["only"] and "。京都" in txt(e) for e in clis),
        "cli: file input and -o": any(e["args"]["files"] and e["stdout"] for e in clis),
        "cli: a joined numeral": any("1,234" in txt(e) for e in clis),
    })
    missing = [k for k, v in need.items() if not v]
    if missing:
        raise C.ToolError("vacuous: the recorded executions never exercised: " + "; ".join(missing))
    out.cov["exercised"] = sorted(need)
    out.cov["distinct_nontrivial"] = len({json.dumps(e["args"], sort_keys=True) for e in calls if e["args"].get("out", -1) != -1}) + len({txt(e) for e in clis})
    out.cov["rule"] = ("S->I: every history of <= %d calls TLC enumerates in MC_Bindings (two tokenizers, override, refused text, out reuse, split, lookup, held morphemes) run on the real extension with real "
                       "texts, and every input <= %d over {x, CR, LF} of MC_Cli fed to the real binary; I->S: seeded random sessions (3 configurations x field subsets x 7 projections, texts incl. NUL, "
                       "half-width kana, astral, numerals) and random multi-line files (LF/CRLF/CR CR LF, blank lines, no final newline) x modes x {default, -a, -w} x sentence splitting on/off; "
                       "after every Python call every live list, every held morpheme and every tokenizer's mode is observed and validated" % (3 if tier == "quick" else 4, 4 if tier == "quick" else 6))
    out.add_samples([{"cli": txt(e), "args": e["args"]} for e in clis[:2]] + [{"call": e["op"], "args": {k: v for k, v in e["args"].items() if k != "text"}, "res": e["res"]} for e in calls if e["res"] == "err"][:2])
    if rej == 0 and crej == 0:
        # corruption probes: one observed field / one output byte / one reported mode altered must be rejected at that event
        sid = next(e["sess"] for e in events if e["ev"] == "obs" and any(ol[1]["ms"] for ol in e["lists"]))
        sess = [json.loads(json.dumps(e)) for e in events if e.get("sess") == sid]
        k = next(i for i, e in enumerate(sess) if e["ev"] == "obs" and any(ol[1]["ms"] for ol in e["lists"]))
        for name, mut in (("surface", lambda m: m.__setitem__("surface", m["surface"] + [12354])), ("end", lambda m: m.__setitem__("end", m["end"] + 1)),
                          ("normalized form", lambda m: m.__setitem__("norm", m["norm"] + [33]))):
            s2 = json.loads(json.dumps(sess))
            ol = next(ol for ol in s2[k]["lists"] if ol[1]["ms"])
            mut(ol[1]["ms"][0])
            pp = os.path.join(C.WORK, "traces", "c19_probe.ndjson")
            C.write_ndjson(pp, s2)
            m2, t2, _ = C.tlc_trace("Trace_Bindings", "Trace_Bindings.cfg", pp)
            if m2 != k:
                raise C.ToolError(f"corruption probe: an altered {name} was not rejected at the observation ({m2} of {t2}, expected {k})")
        s2 = json.loads(json.dumps(sess))
        if s2[k]["modes"]:
            s2[k]["modes"][0][1] = (s2[k]["modes"][0][1] + 1) % 3
            C.write_ndjson(pp, s2)
            m2, t2, _ = C.tlc_trace("Trace_Bindings", "Trace_Bindings.cfg", pp)
            if m2 != k:
                raise C.ToolError("corruption probe: an altered tokenizer mode was not rejected")
        sid = next(e["sess"] for e in events if e["ev"] == "obs" and any(any(h[1] for h in m[1]["hits"]) for m in e.get("matchers", [])))
        sess = [json.loads(json.dumps(e)) for e in events if e.get("sess") == sid]
        k = next(i for i, e in enumerate(sess) if e["ev"] == "obs" and any(any(h[1] for h in m[1]["hits"]) for m in e.get("matchers", [])))
        hit = next(h for m in sess[k]["matchers"] for h in m[1]["hits"] if h[1])
        hit[1][0] = not hit[1][0]
        C.write_ndjson(pp, sess)
        m2, t2, _ = C.tlc_trace("Trace_Bindings", "Trace_Bindings.cfg", pp)
        if m2 != k:
            raise C.ToolError("corruption probe: a flipped POS matcher verdict was not rejected")
        rid = next(e["run"] for e in clis if e["stdout"])
        grp = [json.loads(json.dumps(e)) for e in cevents if e.get("run") == rid]
        grp[-1]["stdout"][0] += 1
        C.write_ndjson(pp, grp)
        m2, t2, _ = C.tlc_trace("Trace_Cli", "Trace_Cli.cfg", pp)
        if m2 != len(grp) - 1:
            raise C.ToolError("corruption probe: an altered output byte was not rejected")
        out.cov["corruption_probe"] = "altered surface / end offset / normalized form / tokenizer mode / POS matcher verdict in one observation, one altered output byte of a CLI run: each rejected at that event"
    out.cov["exhaustive"] = False
    return out.finish()
