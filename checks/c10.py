"""C10 - results do not depend on what a tokenizer or result list processed before.

spec/Tokenizer.tla        the reusable tokenizer/list with provenance tags on everything an analysis writes; NoStaleRead
spec/MC_Tokenizer.tla     all histories of <= MaxOps operations (set_mode, set_subset, analyse empty/short/longer/too long, collect)
spec/Trace_Tokenizer.tla  each history on ONE real tokenizer + ONE reused list, every analysis next to a fresh twin; equality on
                          boundaries, word identities and the requested fields; outcomes equal too
"""
import json
import os
from . import common as C

PID = "C10"


def run(tier, replay=None):
    if replay:
        C.build_harness()
        return C.generic_replay(PID, replay)
    out = C.Outcome(PID, tier)
    C.ensure_dirs()
    C.build_harness()
    out.assumptions = [
        "TLC/SANY and the JSON bridge are trusted",
        "the reference is, as the statement says, a freshly created tokenizer with the same mode and field request analysing the same text (run by the driver next to the history)",
        "fields are compared only when requested; with path-rewrite plugins configured only requests covering surface/POS/normalised form are compared (C11's restriction)",
    ]
    maxops = 4 if tier == "quick" else 5
    cfg = os.path.join(C.WORK, "tlc", f"MC_Tokenizer_{tier}.cfg")
    with open(cfg, "w") as f:
        f.write(f"SPECIFICATION MSpec\nCONSTANTS\n  MaxLen = 3\n  MaxOps = {maxops}\nINVARIANTS NoStaleRead LoadedCoversRequest Emit\nCHECK_DEADLOCK FALSE\n")
    hp = os.path.join(C.WORK, "traces", f"c10_hist_{tier}.txt")
    with open(hp, "w") as f:
        r = C.tlc_mc("MC_Tokenizer", cfg, workers=8, sink=lambda l: f.write(l + "\n"), timeout=20000)
    if r.violated:
        out.violation(f"model invariant {r.violated} violated in MC_Tokenizer", {"tlc_tail": r.tail}, signature=f"C10/model/{r.violated}")
    out.require_actions(r, ["MMode", "MSub", "MAna", "MLong", "MCollect"])
    out.add_mc("MC_Tokenizer", r, {"max_ops": maxops})
    tp = os.path.join(C.WORK, "traces", f"c10_{tier}.ndjson")
    p = C.run_vh(["c10-run", hp, tp, "--seed", C.seed(), "--random", 40 if tier == "quick" else 2000], timeout=40000)
    info = json.loads(p.stdout.strip().splitlines()[-1])
    events, rej = C.validate_trace(out, "Trace_Tokenizer", "Trace_Tokenizer.cfg", tp, "C10", timeout=40000)
    out.cov["traces_validated_against_impl"] += info["runs"]
    out.cov["evaluations"] += sum(1 for e in events if e["ev"] == "analyse")
    hist, cur = set(), []
    for e in events:
        if e["ev"] == "create":
            if len(cur) > 2:
                hist.add(json.dumps(cur))
            cur = []
        else:
            cur.append([e["ev"], e.get("m"), e.get("bits"), e.get("nchars")])
    out.cov["distinct_nontrivial"] = len(hist)
    out.cov["rule"] = ("TLC enumerates every history of <= %d operations over {set_mode A/B/C, set_subset (5 requests), analyse (empty, short, longer, longest), analyse an over-long text, "
                       "collect into the reused list}; each is run on one real tokenizer + one real list (two plugin configurations) with a fresh twin per analysis; plus seeded random "
                       "histories of up to 40 operations over real-Unicode texts; non-trivial = distinct histories with more than two operations" % maxops)
    out.add_samples([{k: e.get(k) for k in ("ev", "m", "bits", "nchars", "res")} for e in events[20:28]])
    if rej == 0:
        idx = next(i for i, e in enumerate(events) if e["ev"] == "collect" and e["res"] == "ok" and len(e["ms"]) > 1)
        lo, hi = C.run_slice(events, idx)
        ev2 = json.loads(json.dumps(events[lo:idx + 1]))
        ev2[-1]["ms"][0]["end"] += 1
        pp = os.path.join(C.WORK, "traces", "c10_probe.ndjson")
        C.write_ndjson(pp, ev2)
        m2, t2, _ = C.tlc_trace("Trace_Tokenizer", "Trace_Tokenizer.cfg", pp)
        if m2 != len(ev2) - 1:
            raise C.ToolError(f"corruption probe: an altered collected result was not rejected ({m2} of {t2})")
        out.cov["corruption_probe"] = "end offset of the first collected morpheme altered: rejected exactly there"
    out.cov["exhaustive"] = True
    return out.finish()
