"""C20 - out-of-range plugin parameters are rejected when the dictionary is loaded.

spec/PluginLoad.tla        Load = ok only if ids index the matrix (by use), cost fits i16, POS known or user POS allowed;
                           an inhibited pair edits exactly its cell; accepted configurations analyse without failure
spec/MC_PluginLoad.tla     boundary enumeration {-1,0,n-1,n,n+1,32767,32768,65535,65536} x 3 provider kinds + inhibit x 4 matrix shapes
spec/Trace_PluginLoad.tla  outcomes of the real loader on every enumerated configuration
"""
import json
import os
from . import common as C

PID = "C20"


def signature(run_events, bad):
    case = next((e for e in run_events if e["ev"] == "case"), None)
    if case is None or bad.get("ev") != "load" or bad.get("res") != "ok":
        return None
    c = case["cfg"]
    if c["kind"] in ("simple", "regex", "mecab"):
        rid_eq, lid_eq = c["rid"] == c["nl"], c["lid"] == c["nr"]
        rid_in, lid_in = 0 <= c["rid"] < c["nl"], 0 <= c["lid"] < c["nr"]
        others = -32768 <= c["cost"] <= 32767 and (c["pos"] == "known" or c["upos"] == "allow")
        if others and ((rid_eq and (lid_in or lid_eq)) or (lid_eq and rid_in)):
            return "C20/id-equal-to-dimension-accepted"
    return None


def run(tier, replay=None):
    if replay:
        C.build_harness()
        return C.generic_replay(PID, replay)
    out = C.Outcome(PID, tier, level="fault_enumeration")
    C.ensure_dirs()
    C.build_harness()
    out.assumptions = [
        "TLC/SANY and the JSON bridge are trusted; the harness writes the scratch configuration / unk.def files",
        "matrix dimensions by use: a provider's rightId is the first matrix index (bounded by the first header number), its leftId the second",
        "probe analyses run with debug assertions, where the unchecked matrix read asserts its bounds",
    ]
    full = tier != "quick"
    cfg = os.path.join(C.WORK, "tlc", f"MC_PluginLoad_{tier}.cfg")
    with open(cfg, "w") as f:
        f.write(f"SPECIFICATION MSpec\nCONSTANTS\n  Full = {'TRUE' if full else 'FALSE'}\nINVARIANTS AcceptedIsSafe Emit\nCHECK_DEADLOCK FALSE\n")
    ip = os.path.join(C.WORK, "traces", f"c20_inputs_{tier}.txt")
    with open(ip, "w") as f:
        r = C.tlc_mc("MC_PluginLoad", cfg, workers=8, sink=lambda l: f.write(l + "\n"), timeout=10000)
    if r.violated:
        out.violation(f"model invariant {r.violated} violated in MC_PluginLoad", {"tlc_tail": r.tail}, signature=f"C20/model/{r.violated}")
    out.require_actions(r, ["MLoad", "MEdit", "Probe"])
    out.add_mc("MC_PluginLoad", r, {"full_cross_product": full})
    tp = os.path.join(C.WORK, "traces", f"c20_{tier}.ndjson")
    p = C.run_vh(["c20-run", ip, tp], timeout=20000)
    info = json.loads(p.stdout.strip().splitlines()[-1])
    events, rej = C.validate_trace(out, "Trace_PluginLoad", "Trace_PluginLoad.cfg", tp, "C20", signature_fn=signature, timeout=20000, max_report=8)
    loads = [e for e in events if e["ev"] == "load"]
    out.cov["evaluations"] = info["cases"]
    out.cov["traces_validated_against_impl"] = info["cases"]
    out.cov["accepted"] = sum(1 for e in loads if e["res"] == "ok")
    out.cov["rejected"] = sum(1 for e in loads if e["res"] == "err")
    out.cov["distinct_nontrivial"] = len({json.dumps(e["cfg"], sort_keys=True) for e in events if e["ev"] == "case"})
    out.cov["rule"] = ("TLC enumerates every configuration: provider kind (SimpleOov JSON, RegexOov JSON, MeCab unk.def line) and inhibitPair x matrix shapes "
                       "1x1/2x3/3x2/10x10 x boundary values of each id (quick: one id off its default at a time; thorough: full cross product) x cost boundaries x POS known/unknown x userPOS; "
                       "each is loaded with from_cfg_storage under catch_unwind, matrix cells are read back, probe texts exercising every provider are analysed")
    out.add_samples([e for e in events if e["ev"] == "case"][3:5] + [e for e in events if e["ev"] == "edit" and e.get("cells")][:1])
    if not out.violations:
        idx = next(i for i, e in enumerate(events) if e["ev"] == "load" and e["res"] == "err")
        ev2 = json.loads(json.dumps(events[idx - 1:idx + 1]))
        ev2[1]["res"] = "ok"
        if signature(ev2, ev2[1]) is None:
            pp = os.path.join(C.WORK, "traces", "c20_probe.ndjson")
            C.write_ndjson(pp, ev2)
            m2, t2, _ = C.tlc_trace("Trace_PluginLoad", "Trace_PluginLoad.cfg", pp)
            if m2 != 1:
                raise C.ToolError(f"corruption probe: a rejected configuration altered to 'accepted' was not rejected ({m2} of {t2})")
            out.cov["corruption_probe"] = "outcome of an out-of-range configuration altered to ok: rejected"
    out.cov["exhaustive"] = True
    return out.finish()
