"""C04 - dictionary lookup returns exactly the entries that prefix-match the text.

spec/DictIndex.tla        meaning (Matches/ExactMatches) + transcribed index builder and common-prefix lookup
spec/MC_DictIndex.tla     all layered lexicons within bounds x texts x every byte offset; emits expectations for replay
spec/Trace_DictIndex.tla  lookups on generated large layered lexicons validated against Matches
"""
import json
import os
from . import common as C

PID = "C04"


def mc_cfg(path, maxrows, maxlayers):
    with open(path, "w") as f:
        f.write(f"""SPECIFICATION MSpec
CONSTANTS
  MaxRows = {maxrows}
  MaxLayers = {maxlayers}
INVARIANTS AllLookupsOK Emit
CHECK_DEADLOCK FALSE
""")


def run(tier, replay=None):
    if replay:
        C.build_harness()
        return C.generic_replay(PID, replay)
    out = C.Outcome(PID, tier)
    C.ensure_dirs()
    C.build_harness()
    out.assumptions = [
        "TLC/SANY and the JSON bridge are trusted; std UTF-8 encoding of keys/texts by the recorder is trusted",
        "the yada double-array builder is used as a library (its use is checked through lookups, it is not modelled)",
        "word number = CSV row number of the source lexicon; lexicons the compiler refuses are outside C04 (see C06)",
    ]
    b = dict(maxrows=3, maxlayers=2) if tier == "quick" else dict(maxrows=4, maxlayers=3)
    cfg = os.path.join(C.WORK, "tlc", f"MC_DictIndex_{tier}.cfg")
    mc_cfg(cfg, **b)
    rp = os.path.join(C.WORK, "traces", f"c04_replay_{tier}.txt")
    with open(rp, "w") as f:
        r = C.tlc_mc("MC_DictIndex", cfg, workers=8, sink=lambda l: f.write(l + "\n"), timeout=10000)
    if r.violated:
        out.violation(f"model invariant {r.violated} violated in MC_DictIndex", {"tlc_tail": r.tail}, signature=f"C04/model/{r.violated}")
    out.require_actions(r, ["MAdd", "MLayer", "MBuild"])
    out.add_mc("MC_DictIndex", r, b)
    p = C.run_vh(["c04-replay", rp])
    res = json.loads(p.stdout.strip().splitlines()[-1])
    if res["behaviours"] == 0 or res["lookups"] == 0:
        raise C.ToolError("no behaviours replayed")
    out.cov["replayed_behaviours"] = res["behaviours"]
    out.cov["replayed_lookups"] = res["lookups"]
    out.cov["replay_build_rejected"] = res["build_rejected"]
    out.cov["evaluations"] += res["lookups"]
    for m in res["mismatches"][:4]:
        out.violation("S->I: real lookup differs from the set TLC computed: " +
                      json.dumps({k: m.get(k) for k in ("what", "text", "off", "expected", "got", "reported")})[:400],
                      {"kind": "s2i", "cmd": ["c04-replay"], "behaviour": m.get("abstract"), "detail": {k: m[k] for k in m if k != "abstract"}})
    # ---- I->S
    worlds, keys, looks = (8, 150, 150) if tier == "quick" else (30, 500, 300)
    tp = os.path.join(C.WORK, "traces", f"c04_{tier}.ndjson")
    p = C.run_vh(["c04-record", tp, "--seed", C.seed(), "--worlds", worlds, "--keys", keys, "--lookups", looks])
    info = json.loads(p.stdout.strip().splitlines()[-1])
    events, rej = C.validate_trace(out, "Trace_DictIndex", "Trace_DictIndex.cfg", tp, "C04", timeout=10000)
    nl = [e for e in events if e["ev"] in ("lookup", "exact")]
    out.cov["traces_validated_against_impl"] += len(nl)
    out.cov["evaluations"] += len(nl)
    out.cov["distinct_nontrivial"] = len({json.dumps([e["text"], e.get("off")]) for e in nl if len(e.get("res", [])) > 1})
    out.cov["dictionaries_loaded"] = sum(1 for e in events if e["ev"] == "dict" and e["res"] == "ok")
    out.cov["rule"] = ("MC: all layered lexicons within bounds over 9 prefix-related keys (1/3/4-byte chars, a key that ends mid-text), 8 texts, every byte "
                       "offset incl. mid-character; traces: generated lexicons with shared prefixes, up to 127 homographs, non-indexed rows, 1/2/3/15 layers; "
                       "non-trivial = distinct (text, offset) with more than one result")
    out.add_samples([{k: e[k] for k in ("ev", "text", "off", "res") if k in e} for e in nl if len(e.get("res", [])) > 1][:3])
    if rej == 0:
        idx = next(i for i, e in enumerate(events) if e["ev"] == "lookup" and len(e.get("res", [])) > 1)
        dict_idx = max(i for i, e in enumerate(events[:idx]) if e["ev"] == "dict")
        ev2 = json.loads(json.dumps([events[dict_idx], events[idx]]))
        ev2[1]["res"] = ev2[1]["res"][:-1]
        pp = os.path.join(C.WORK, "traces", "c04_probe.ndjson")
        C.write_ndjson(pp, ev2)
        m2, t2, _ = C.tlc_trace("Trace_DictIndex", "Trace_DictIndex.cfg", pp)
        if m2 != 1:
            raise C.ToolError(f"corruption probe: dropped one lookup result but TLC matched {m2} of {t2}")
        out.cov["corruption_probe"] = "one result dropped from a recorded lookup: rejected exactly there"
    out.cov["exhaustive"] = True
    return out.finish()
