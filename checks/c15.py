"""C15 - joined numerals are normalised to their decimal value.

spec/NumericParser.tla  transcription of the numeral parser (three string accumulators), bound to the code step by step (hook H5)
spec/Numeral.tla        the meaning: structural valuation (split at units, coefficients with separators/fraction, decimal positions):
                        WellFormed/Decimal, the additive reading AddValue, the named malformed groupings
spec/MC_Numeral.tla     every string <= MaxLen over {0 1 5 〇 二 十 百 千 万 億 兆 , .}: well-formed => accepted with its decimal value;
                        accepted => the additive reading; malformed without a reading => refused
spec/Trace_Numeral.tla  generated numerals (any magnitude, mixed notation, separators, fractions) and near misses, parser + tokenizer
"""
import json
import os
from . import common as C

PID = "C15"


def mc_cfg(path, maxlen, emit):
    with open(path, "w") as f:
        f.write(f"SPECIFICATION MSpec\nCONSTANTS\n  MaxLen = {maxlen}\nINVARIANTS Consistent WellFormedAccepted NeverWrongValue MalformedRefused{' Emit' if emit else ''}\nCHECK_DEADLOCK FALSE\n")


def run(tier, replay=None):
    if replay:
        C.build_harness()
        return C.generic_replay(PID, replay)
    out = C.Outcome(PID, tier)
    C.ensure_dirs()
    C.build_harness()
    out.assumptions = [
        "TLC/SANY and the JSON bridge are trusted",
        "`never joined into a wrong value` is rendered as: whenever a string is joined, its normalised form is the additive reading of the string with stray "
        "separators ignored (each term's digits at their decimal positions, no position written twice); what the parser refuses beyond that is free",
        "the numeral dictionary of the drivers tags every digit / unit character as 名詞,数詞 and contains no longer word",
    ]
    emit_len, mc_len = (4, 5) if tier == "quick" else (5, 6)
    cfg = os.path.join(C.WORK, "tlc", f"MC_Numeral_{tier}_emit.cfg")
    mc_cfg(cfg, emit_len, True)
    rp = os.path.join(C.WORK, "traces", f"c15_replay_{tier}.txt")
    with open(rp, "w") as f:
        r = C.tlc_mc("MC_Numeral", cfg, workers=12, sink=lambda l: f.write(l + "\n"), timeout=40000)
    if r.violated:
        out.violation(f"model invariant {r.violated} violated in MC_Numeral", {"tlc_tail": r.tail}, signature=f"C15/model/{r.violated}")
    out.require_actions(r, ["MPick"])
    out.add_mc(f"MC_Numeral[<= {emit_len}, emitted]", r, {"maxlen": emit_len})
    cfg2 = os.path.join(C.WORK, "tlc", f"MC_Numeral_{tier}.cfg")
    mc_cfg(cfg2, mc_len, False)
    r2 = C.tlc_mc("MC_Numeral", cfg2, workers=12, timeout=40000)
    if r2.violated:
        out.violation(f"model invariant {r2.violated} violated in MC_Numeral", {"tlc_tail": r2.tail}, signature=f"C15/model/{r2.violated}")
    out.add_mc(f"MC_Numeral[<= {mc_len}]", r2, {"maxlen": mc_len})
    p = C.run_vh(["c15-replay", rp, "--tokenize-every", 7 if tier == "quick" else 1], timeout=40000)
    res = json.loads(p.stdout.strip().splitlines()[-1])
    if res["parsed"] == 0:
        raise C.ToolError("no behaviours replayed")
    out.cov["replayed_strings"] = res["parsed"]
    out.cov["replayed_tokenizations"] = res["tokenized"]
    out.cov["evaluations"] += res["parsed"] + res["tokenized"]
    if res.get("transcription_drift"):
        out.cov["drift"].append(f"{res['transcription_drift']} enumerated strings on which the real parser's verdict/error state differs from the transcription (not gating)")
    if res["tolerated_joins"]:
        out.cov["drift"].append(f"{res['tolerated_joins']} enumerated strings with a stray separator (e.g. `1,万`, `1.,0万`) are joined with the value of the string without it")
    for m in res["mismatches"][:4]:
        out.violation("S->I: " + m["what"] + ": " + json.dumps({k: m.get(k) for k in ("s", "text", "expected", "got")}, ensure_ascii=False)[:400],
                      {"kind": "s2i", "cmd": ["c15-replay", "--tokenize-every", "1"], "behaviour": m.get("abstract"), "detail": {k: m[k] for k in m if k != "abstract"}})
    tp = os.path.join(C.WORK, "traces", f"c15_{tier}.ndjson")
    C.run_vh(["c15-record", tp, "--seed", C.seed(), "--n", 400 if tier == "quick" else 8000], timeout=40000)
    events, rej = C.validate_trace(out, "Trace_Numeral", "Trace_Numeral.cfg", tp, "C15", timeout=40000)
    # informative pass: the transcribed parser steps exactly like the real one (binding of the model-checked parser)
    m3, t3, _ = C.tlc_trace("Trace_Numeral", "Trace_Numeral_strict.cfg", tp, timeout=40000)
    if m3 < t3:
        out.cov["drift"].append(f"transcription binding: the real parser's per-character state differs from NumericParser.tla at event {m3 + 1} of {t3} (not gating)")
    else:
        out.cov["transcription_binding"] = f"all {t3} recorded parses step through exactly the states of NumericParser.tla"
    out.cov["traces_validated_against_impl"] += len(events) // 2
    out.cov["evaluations"] += len(events)
    out.cov["distinct_nontrivial"] = len({json.dumps(e["s"]) for e in events if e["ev"] == "parse" and e.get("accepted") and len(e["s"]) > 1})
    out.cov["rule"] = ("MC: every string <= %d over 13 numeral symbols (emitted and replayed: <= %d); traces: numerals generated from value structures (groups for "
                       "cho/oku/man/ones in Arabic, positional kanji or unit kanji spelling, separators, fractions with units, digit strings up to 40 digits) and one-edit near "
                       "misses, each parsed (with per-character parser states) and analysed between random neighbours; non-trivial = distinct accepted multi-character numerals" % (mc_len, emit_len))
    out.add_samples([{"s": "".join(map(chr, e["s"])), "accepted": e["accepted"], "norm": "".join(map(chr, e["norm"]))} for e in events if e["ev"] == "parse" and e.get("accepted")][40:44])
    if rej == 0:
        idx = next(i for i, e in enumerate(events) if e["ev"] == "parse" and e.get("accepted") and len(e["s"]) > 2)
        ev2 = json.loads(json.dumps(events[idx:idx + 1]))
        ev2[0]["norm"] = ev2[0]["norm"] + [48]
        pp = os.path.join(C.WORK, "traces", "c15_probe.ndjson")
        C.write_ndjson(pp, ev2)
        m2, t2, _ = C.tlc_trace("Trace_Numeral", "Trace_Numeral.cfg", pp)
        if m2 != 0:
            raise C.ToolError(f"corruption probe: altered a normalised form but TLC matched {m2} of {t2}")
        out.cov["corruption_probe"] = "a zero appended to a recorded normalised form: rejected"
    out.cov["exhaustive"] = True
    return out.finish()
