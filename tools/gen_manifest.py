#!/usr/bin/env python3
"""Regenerate /verif/MANIFEST.json from the table below (one source of truth)."""
import json, os, subprocess
V = os.path.dirname(os.path.dirname(os.path.abspath(__file__)))
props = [json.loads(l)["id"] for l in open(os.path.join(V, "properties.jsonl"))]

CHECKS = {
 "C17": dict(
   category="model_checking",
   text="TLC checks exhaustively, for every definition file within small bounds and every code point, that the transcribed compile()+bisection "
        "equals the union-of-covering-lines meaning; every such file is then replayed through the real loader under seven order-preserving "
        "concretisations (incl. the surrogate gap and U+10FFFF edges), and lookups of the shipped and of random overlapping definitions over "
        "every Unicode scalar value are validated as behaviours of the specification.",
   note="Trusted: TLC, the JSON bridge, the recorder's reading of the definition-file syntax. Files the loader rejects are outside the property. "
        "Exhaustive only within the MC bounds; real-size files are covered by recorded executions.",
   technique="TLA+ spec CharCategory + TLC model checking; S->I replay of all TLC behaviours; I->S trace validation (Trace_CharCategory)",
   design="4 C17"),
}

NOT_YET = "no check registered yet in this revision (work in progress; see DESIGN.md section 8 build order)"

def main():
    hooks_commits = []
    try:
        out = subprocess.run(["git", "-C", "/repo", "log", "--format=%H %s"], stdout=subprocess.PIPE, text=True).stdout
        hooks_commits = [l.split()[0] for l in out.splitlines() if " verif-hook:" in l or l.split(" ", 1)[1].startswith("hook:")]
    except Exception:
        pass
    checks = []
    for pid in props:
        if pid not in CHECKS:
            continue
        c = CHECKS[pid]
        checks.append({
            "property_id": pid,
            "quick_cmd": f"./check {pid} --tier quick",
            "thorough_cmd": f"./check {pid} --tier thorough",
            "evidence_file": f"/verif/evidence/{pid}.json",
            "replay_cmd_template": f"./check {pid} --replay {{path}}",
            "engine": "tla-conformance",
            "level_claimed": {"category": c["category"], "text": c["text"], "design_ref": "DESIGN.md section " + c["design"]},
            "level_note": c["note"],
            "technique": c["technique"],
        })
    m = {
        "version": 1,
        "setup_cmd": "./setup.sh",
        "hooks": {
            "guard": "--cfg sudachi_verif",
            "enable": "harness/.cargo/config.toml passes rustflags [--cfg sudachi_verif] to every crate of the harness build, including the path dependency /repo/sudachi; "
                      "the Python extension and CLI used by C18/C19 are built with RUSTFLAGS='--cfg sudachi_verif' into /verif/work",
            "baseline_off_cmd": "cd /repo && cargo test --workspace --no-fail-fast --offline",
            "source_commits": hooks_commits,
            "add_only": True,
        },
        "engines": [
            {"name": "tla-conformance", "path": "/verif/check",
             "serves_properties": [c["property_id"] for c in checks],
             "kind_free_text": "explicit TLA+ specifications (spec/*.tla) model-checked by TLC; bound to the code by replaying TLC-generated behaviours "
                               "into the real objects (harness `vh`, S->I) and by validating NDJSON traces recorded from the real code against "
                               "Trace_*.tla with TLC (I->S)"},
        ],
        "checks": checks,
        "notes": "Exit codes of every check: 0 held (KNOWN-FINDING lines possible), 1 VIOLATION line + replay file, 2 tool error/vacuity/timeout. "
                 "Known findings: /verif/known_findings.json (never written at run time).",
        "not_applicable": [{"property_id": p, "reason": NOT_YET} for p in props if p not in CHECKS],
    }
    json.dump(m, open(os.path.join(V, "MANIFEST.json"), "w"), indent=1)
    print("MANIFEST.json:", len(checks), "checks,", len(m["not_applicable"]), "not_applicable")

if __name__ == "__main__":
    main()
