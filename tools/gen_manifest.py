#!/usr/bin/env python3
"""Regenerate /verif/MANIFEST.json from the table below (one source of truth)."""
import json, os, subprocess
V = os.path.dirname(os.path.dirname(os.path.abspath(__file__)))
props = [json.loads(l)["id"] for l in open(os.path.join(V, "properties.jsonl"))]

CHECKS = {
 "C17": dict(
   category="model_checking",
   text="TLC checks exhaustively, for every definition file within small bounds and every code point, that the transcribed compile()+bisection "
        "equals the union-of-covering-lines meaning; every such file is then replayed through the real loader under seven order-preserving "
        "concretisations (incl. the surrogate gap and U+10FFFF edges), and lookups of the shipped and of random overlapping definitions over "
        "every Unicode scalar value are validated as behaviours of the specification.",
   note="Trusted: TLC, the JSON bridge, the recorder's reading of the definition-file syntax. Files the loader rejects are outside the property. "
        "Exhaustive only within the MC bounds; real-size files are covered by recorded executions.",
   technique="TLA+ spec CharCategory + TLC model checking; S->I replay of all TLC behaviours; I->S trace validation (Trace_CharCategory)",
   design="4 C17"),
 "C08": dict(
   category="model_checking",
   text="InputBuffer.tla transcribes resolve_edits/add_replace at byte level; TLC checks MapOK (monotone, anchored, boundary-preserving, unreplaced "
        "characters map to themselves) for all texts <=3 chars over 1/2/3/4-byte characters and all stacks of <=3 batches of <=2 well-formed edits; every "
        "enumerated edit history is replayed on the real InputBuffer (all three ReplaceTgt variants) and through MorphemeList accessors (begin/end/begin_c/end_c/"
        "surface compared with TLC's values); whole tokenizations under 7 plugin stacks are trace-validated: every committed batch must equal the spec's "
        "Commit and every morpheme's code-point offsets must equal CodePointsBefore of its byte offsets.",
   note="Trusted: TLC, JSON bridge, hook H1 (logs pending edits before and text/map after the commit). Exhaustive within the MC bounds only; long texts by recorded executions.",
   technique="TLA+ spec InputBuffer + TLC model checking; S->I replay of all TLC edit histories; I->S trace validation (Trace_InputBuffer, Check=C08)",
   design="4 C08"),
 "C01": dict(
   category="model_checking",
   text="On InputBuffer.tla TLC checks that EVERY tiling of the rewritten text maps to a byte partition of the original whose surfaces concatenate to it "
        "(AnyTilingPartitions, a consequence of MapOK) for all bounded edit histories; the histories are replayed on the real buffer and single-character "
        "morphemes are read back through the public accessors; whole tokenizations (fixture sentences + random structured Unicode, 7 plugin stacks incl. reordered "
        "and three-plugin stacks, modes A/B/C) are trace-validated: plugin edit batches must be well-formed and reproduce the logged text/map, and the returned "
        "morphemes must partition the original on character boundaries with surface = original slice.",
   note="Trusted: TLC, JSON bridge, hook H1. Sub-token ranges of A/B splits and joined tokens are covered through the end-to-end partition check on recorded runs; "
        "their dedicated models are C09/C14.",
   technique="TLA+ spec InputBuffer (AnyTilingPartitions) + TLC; S->I replay; I->S trace validation (Trace_InputBuffer, Check=C01)",
   design="4 C01"),
 "C02": dict(
   category="model_checking",
   text="Lattice.tla transcribes insert/connect_node/connect_eos and the position loop; TLC checks for every insertion sequence within bounds under three "
        "matrices (asymmetric, i16 extremes incl. 32767/-32768, non-square 3x2) that every stored total and the EOS total equal an independent brute-force minimum over "
        "all BOS paths; every enumerated sequence is replayed on ONE recycled real Lattice object (totals and EOS compared); whole analyses over generated "
        "dictionaries (random non-square matrices, extreme costs, homographs, overlaps) and the fixture dictionary are trace-validated: each insert must satisfy the "
        "recurrence over exactly the nodes inserted in this run, node parameters must equal the lexicon source, the chosen path must tile the text with recomputed "
        "cumulative costs and reach the lattice minimum incl. BOS/EOS connections, mode-C morpheme costs must equal those sums; lattices up to 14 nodes are also brute-forced. Analysis.tla fixes what the candidate words are (the lattice-building loop as composition of index, word-start table and lattice; TLC: processing reachable positions only loses no segmentation) and the same recorded analyses are validated against it: the dictionary candidates inserted at every reachable position are exactly the lexicon's prefix matches with a permitted end, computed by TLC from the CSV keys. UserCost.tla specifies the costs the loader computes for user words declared -32768; the loader's own hook events and its inner analyses are validated.",
   note="Trusted: TLC, JSON bridge, hook H2/H3 placement, the driver's rendering of matrix/lexicon sources. Ties are never compared. Brute force beyond 14 nodes is replaced by the per-insert recurrence (shown equivalent by MC within bounds).",
   technique="TLA+ spec Lattice (ViterbiInv/EosOptimal vs brute force) + TLC; S->I replay on the real Lattice; I->S trace validation (Trace_Lattice); Analysis + UserCost modules with their own trace validation",
   design="4 C02"),
 "C04": dict(
   category="model_checking",
   text="DictIndex.tla states the meaning (Matches: indexed rows whose key is a prefix at the byte offset; ExactMatches) and transcribes the index builder "
        "(ids grouped per key in first-occurrence order, records <count,ids>, record offset as trie value) and the common-prefix lookup over layered dictionaries; TLC checks "
        "bag equality (each entry exactly once, right end/word/dictionary number, non-indexed rows never) for all layered lexicons within bounds at EVERY byte offset incl. "
        "mid-character; each enumerated lexicon is compiled with the real DictBuilder (system + user layers), loaded, and LexiconSet::lookup / MorphemeList::lookup are compared "
        "with TLC's sets; lookups on generated lexicons (shared prefixes, exactly 127 homographs, non-indexed rows, 1..15 layers) are trace-validated against Matches.",
   note="Trusted: TLC, JSON bridge, yada as a library, std UTF-8. Lexicons the compiler refuses are skipped (C06). Word number = CSV row number.",
   technique="TLA+ spec DictIndex + TLC model checking; S->I replay through real compile+load+lookup; I->S trace validation (Trace_DictIndex)",
   design="4 C04"),
 "C05": dict(
   category="model_checking",
   text="DictRecord.tla states what a lexicon row declares (Expected), what the compiler stores (forms equal to the headword elided, references by id), the reader and the "
        "accessors; TLC checks RoundTrip for a target row ranging over the whole value lattice (key vs headword, forms equal/different, dictionary form */self/other, "
        "empty/non-empty arrays, string lengths across the 1-byte/2-byte length-prefix boundary); every enumerated lexicon is compiled by the real DictBuilder twice with a fixed "
        "timestamp (byte equality), loaded aligned and at an odd address, and every word read back and compared with TLC's expected values; generated lexicons (126..300 UTF-16 unit "
        "strings, astral characters, \\u escapes, 0/127-item arrays, numeric and inline references, extreme parameters) with random non-square matrices are trace-validated, incl. every matrix cell. BuildFrontEnds.tla: `sudachi build/ubuild` and sudachipy.build_system_dic/build_user_dic have the library's outcome and write a byte-identical body with the given description (real runs on generated sources incl. refused ones). DumpFrontEnd.tla: `sudachi dump DICT pos|matrix|winfo` is the textual rendering of the library's read-back of the same file (drift level, not gating).",
   note="Trusted: TLC, JSON bridge, the CSV rendering of the drivers. Byte layout is not compared (only read-back observables). Inline references judged only where key = headword. "
        "Dictionaries without the synonym section are covered on the model only.",
   technique="TLA+ spec DictRecord (RoundTrip) + TLC; S->I replay through real compile/load/read-back; I->S trace validation (Trace_DictRecord); front ends of the compiler and the dump subcommand validated against the library (Trace_BuildFrontEnds, Trace_DumpFrontEnd)",
   design="4 C05"),
 "C11": dict(
   category="model_checking",
   text="On DictRecord.tla TLC checks SubsetStable: for all 1024 field subsets (closed as InfoSubset::normalize closes them) and every requested field, the accessor value equals "
        "that of a full load, for target rows over the value lattice, with and without synonym section; the transcribed reader has the light/heavy field distinction and the early "
        "exit. Each enumerated lexicon is compiled and read under all 1024 subsets with the real reader; every word of the repository dictionaries (system + 2 user) is read under "
        "subsets and analyses under subsets x modes x six orders of create/set_subset/set_mode calls (incl. analyses in other modes in between) are compared with the full-field analysis "
        "(boundaries + word ids when no path-rewrite plugin or surface/POS/normalized are requested; partition always) and, field by requested field, with the full-field analysis and "
        "with the lexicon's own full read of each token's word (also in a world whose split units have units of their own).",
   note="Trusted: TLC, JSON bridge. Requests are closed by InfoSubset::normalize before reaching the reader (as every front end does). Unrequested fields are never compared. "
        "A genuine defect found here was repaired (see known_findings.json, fixed).",
   technique="TLA+ spec DictRecord (SubsetStable over 2^10 subsets) + TLC; S->I replay under all subsets; I->S trace validation (Trace_Subset)",
   design="4 C11"),
 "C06": dict(
   category="fault_enumeration",
   text="DictBuild.tla gives the compiler's outcome algebra ({ok, err}; a sink failure forces err; ok forces read-back validity: ids of indexed entries inside the matrix "
        "by use, every dictionary-form/split/word-structure reference existing, arrays <= 127 and strings <= 32767, and successful load + analyses). TLC enumerates the fault space: "
        "11 lexicon-row fields and the matrix text each in their defect classes (missing, empty, non-numeric, -1, limit-1/limit/limit+1, overflow, bad escape, dangling/self/U references, "
        "128-item arrays, wrong arity, malformed values wider than 32 bytes made of multi-byte characters in every numeric / reference / mode field and in matrix header, coordinates and cells; empty file, blank lines, bad/negative header, cells at/beyond/negative coordinates, short lines, garbage), all singles and pairs (thorough: triples). "
        "Each input is rendered to bytes and run through the real compiler under catch_unwind; successes are loaded, read back through the public reader and analysed in all modes with "
        "debug assertions; a sink failing after k bytes is tried for EVERY k of compiled dictionaries. TLC validates the recorded outcome trace.",
   note="Trusted: TLC, JSON bridge, the defect-class renderer. Validity is judged only on read-back + probes. Five genuine defects found here were repaired (known_findings.json, fixed); "
        "one is recorded as a known finding (split units longer than their word).",
   technique="TLA+ spec DictBuild (outcome algebra) + TLC enumeration of the fault space (MC_DictBuild) replayed into the real compiler; I->S trace validation (Trace_DictBuild)",
   design="4 C06"),
 "C20": dict(
   category="fault_enumeration",
   text="PluginLoad.tla: loading is a step with outcome {ok, err}; ok only if every provider id indexes the matrix (by use: rightId < first dimension, leftId < second), the cost fits i16 and the "
        "POS exists or user POS are allowed; an inhibited pair edits exactly its own cell to the inhibited value; after ok, analyses succeed. TLC enumerates the boundary values "
        "{-1,0,n-1,n,n+1,32767,32768,65535,65536} of every id for SimpleOov/RegexOov JSON settings, MeCab unk.def lines and inhibitPair, over matrices 1x1, 2x3, 3x2, 10x10, cost boundaries "
        "and POS present/absent x userPOS allow/forbid/absent; every configuration is written to scratch files and loaded by the real from_cfg_storage under catch_unwind, every matrix cell is read "
        "back, and probe texts exercising each provider are analysed with debug assertions; TLC validates the outcome trace.",
   note="Trusted: TLC, JSON bridge, the scratch-file writer. Two genuine defects found here were repaired (dimension pairing for non-square matrices, unchecked inhibit pairs); the `>`/`>=` off-by-one "
        "is a recorded known finding because its repair breaks three existing tests.",
   technique="TLA+ spec PluginLoad + TLC boundary enumeration (MC_PluginLoad) replayed into the real loader; I->S trace validation (Trace_PluginLoad)",
   design="4 C20"),
 "C12": dict(
   category="model_checking",
   text="DictLayers.tla models the grammar's POS list (system POS, POS registered by plugins while loading, user-only POS of each merged user dictionary appended without deduplication), "
        "the offset recorded at merge time, the POS id a user dictionary stores (system id or n0 + own index), its rebasing at read time, the stamping of non-system references with the owning "
        "layer, and the 15-dictionary limit; TLC checks PosStraight for every order of plugin registrations (new POS / existing system POS / POS also declared by a user dictionary) and every "
        "stack of user dictionaries with overlapping user POS. Each enumerated configuration is built for real (DictBuilder::new_user against the system dictionary, from_cfg_storage with OOV "
        "providers that register POS) and every word is observed through an analysis (dictionary id, POS strings, is_oov) and through the lexicon (POS, split references); random stacks of up "
        "to 14 user dictionaries and the refused 15th are trace-validated.",
   note="Trusted: TLC, JSON bridge, the CSV/config renderer. User dictionaries are compiled against the bare system dictionary. Plugin registration is exercised through OOV providers with userPOS=allow.",
   technique="TLA+ spec DictLayers (PosStraight) + TLC; S->I replay through real build+load+analysis; I->S trace validation (Trace_DictLayers)",
   design="4 C12"),
 "C07": dict(
   category="model_checking",
   text="Normalize.tla states the meaning Norm (left-to-right, longest key wins, else lower-case then NFKC unless exempt) and transcribes both code paths of DefaultInputTextPlugin and the "
        "rule choosing between them, plus declarative Prolonged and Yomigana; TLC checks out = Norm and PathsAgree for all 512 tables over 9 keys (keys that are prefixes of other keys, keys whose "
        "first character is narrower/wider than a later one, a key starting with an upper-case letter) x all texts <= 3 (thorough 4) over letters chosen for structure (upper-case, title-case, NFKC 1->1 and 1->4, "
        "exempt). Each (table, text) is replayed through the real plugin loaded with a generated rewrite.def. Recorded runs with the shipped tables over Unicode scalars (alone, and before a character "
        "forcing the general path), random prefix-related tables x random strings, and three prolonged-mark / yomigana settings are trace-validated; the Unicode primitives come from trusted library tables.",
   note="Trusted: TLC, JSON bridge, char::to_lowercase, unicode-normalization, the regex engines as libraries. Two genuine defects found here were repaired (known_findings.json, fixed).",
   technique="TLA+ spec Normalize (Norm vs Fast/Slow) + TLC; S->I replay through the real plugin; I->S trace validation (Trace_Normalize)",
   design="4 C07"),
 "C13": dict(
   category="model_checking",
   text="Oov.tla defines class runs as the property does (greedy from the text start, running class intersection), word-start permission, the MeCab-style candidate set per class "
        "(invoke / group / length, several definitions per class), the simple fallback candidate to the next permissible word start, the regex provider for [set]+ (strict/relaxed boundary, "
        "max length, already-created lengths) and the provider loop of a position (skip at NOOOVBOW characters, re-invocation of the last provider). TLC checks structural invariants of runs "
        "(tiling, shared class, maximality, PrefixStable: appending text never re-cuts what precedes it) and that every position gets a candidate, for all class texts within bounds. Every "
        "enumerated case (incl. all 144 pairs of invoke/group/length settings for the two classes of a two- and a three-class letter) is replayed on the real InputBuffer (run lengths, word-start flags) and the real providers through a generated char.def/unk.def; whole analyses with the shipped "
        "definitions are trace-validated: tables, every provider invocation's node set, completeness of a position, and OOV morphemes (is_oov, dictionary -1, POS, forms = normalised slice).",
   note="Trusted: TLC, JSON bridge; class sets come from CharacterCategory (C17). Candidates compared as sets. Regex provider only for [set]+. A genuine defect found here was repaired (known_findings.json, fixed).",
   technique="TLA+ spec Oov + TLC; S->I replay on real InputBuffer/providers; I->S trace validation via hooks H2/H4 (Trace_Oov)",
   design="4 C13"),
 "C15": dict(
   category="model_checking",
   text="Numeral.tla defines what a written numeral means structurally and independently of the parser: split at large units, then at small units, coefficients with thousands "
        "separators and fraction, every digit placed at its decimal position (WellFormed / Decimal; AddValue = the additive reading, the only value a joined string may take; the named "
        "malformed groupings). NumericParser.tla transcribes the parser's three string accumulators. TLC checks for EVERY string up to 5 (thorough 6) characters over "
        "{0 1 5 〇 二 十 百 千 万 億 兆 , .} (402k / 5.2M strings): well-formed => accepted with its decimal value; accepted => additive reading of the string with stray separators "
        "ignored; malformed without such a reading => refused. Every enumerated string up to 4 (5) is run through the real parser (hook H5) and, sampled (thorough: all), through a real "
        "tokenizer with a numeral dictionary; numerals generated from value structures (any magnitude, mixed Arabic/kanji, separators, fractions on units) and one-edit near misses are "
        "trace-validated at parser and token level; a second, non-gating pass checks that the transcription steps through exactly the real parser's states.",
   note="Trusted: TLC, JSON bridge. `Wrong value` is rendered as `differs from the additive reading with stray separators ignored`; strings the parser refuses beyond the "
        "well-formed grammar are free. Agreement of the transcription with the real parser's internal states is reported as drift, never as a violation.",
   technique="TLA+ specs Numeral (structural oracle) + NumericParser (transcription) + TLC over all short strings; S->I replay via hook H5 and a real tokenizer; I->S trace validation (Trace_Numeral)",
   design="4 C15"),
 "C14": dict(
   category="model_checking",
   text="PathRewrite.tla defines IsMerge (each token of the rewritten path covers a run of consecutive tokens of the path before; a joined token has the union of the character and byte ranges, the "
        "concatenated dictionary-side surface and the prescribed part of speech - the numeral POS of its first token / the configured OOV POS -; every other token is unchanged, except that the "
        "numeral plugin may replace a single numeral's normalised form). MC_PathRewrite.tla transcribes both index loops (restart indices, comma/period modes, NOOOVBOW skipping) on top of the "
        "transcribed numeral parser and TLC checks IsMerge and termination for all paths of up to 4 (thorough 5) one-character tokens over 11 token kinds x minLength x enableNormalize. Every "
        "enumerated path is also run through the real plugins: the recorded paths before/after each plugin (hook H3) are trace-validated against IsMerge; recorded analyses under 6 plugin "
        "settings/orders are validated the same way and their boundaries compared with the analysis without path-rewrite plugins. Analyses in modes A/B and the split stage after the plugins are validated too: a token made by a merge has no declared units and is reported as merged.",
   note="Trusted: TLC, JSON bridge, hook H3. Exact agreement of the transcribed loops with the real plugins is drift only (C14 does not fix which runs are joined).",
   technique="TLA+ spec PathRewrite (IsMerge) + transcribed loops model-checked by TLC; I->S trace validation of hook-recorded paths (Trace_PathRewrite), incl. all TLC-enumerated inputs",
   design="4 C14"),
 "C09": dict(
   category="model_checking",
   text="Split.tla specifies how a token whose word declares >= 2 units is replaced by them (unit k ends at start + key length of the unit in the rewritten text, the last unit inherits "
        "the parent's end), the refinement relation between a mode-C path and a mode-A/B path (boundaries included, tokens without declared units unchanged, for concatenating declarations "
        "exactly the declared word ids in order, ranges partitioning the parent, each unit covering its key) and the contract of the on-demand split API. TLC checks it for every mode-C path "
        "over a dictionary with nested declarations, 1/3/4-byte units and a user layer. Real analyses in modes C/A/B plus split_into on every mode-C token - on that dictionary for texts <= 4 "
        "(incl. upper-case/full-width spellings) and on generated dictionaries (system->system, user->system, user->user references; headwords of other width than their key), with fresh and "
        "mode-switched tokenizers - are trace-validated against the same relation.",
   note="Trusted: TLC, JSON bridge. Only declarations whose units concatenate to the word's key are judged for identity/tiling (the statement's precondition); one declared unit is unspecified. "
        "Non-concatenating declarations are exercised by C01's recorder (partition of the original text).",
   technique="TLA+ spec Split (Refines, SplitApiOK) + TLC; I->S trace validation of three-mode analyses and the split API (Trace_Split)",
   design="4 C09"),
 "C10": dict(
   category="model_checking",
   text="Tokenizer.tla models the reusable tokenizer and result list with a provenance tag on everything an analysis writes (lattice rows that are cleared but never shrunk, input tables, "
        "OOV scratch, the path that is swapped with the list) and the bookkeeping of mode / requested fields / loaded fields; TLC checks NoStaleRead (an analysis reads only what it wrote itself, "
        "hence its result is a function of text, mode and request) over all histories of up to 4 (thorough 5) operations. Every such history - set_mode, set_subset, analyses of an empty / short "
        "/ longer / over-long text, collects into ONE reused list - is executed on ONE real tokenizer under two plugin configurations, each analysis next to a freshly created tokenizer with the same "
        "mode and request; TLC validates the recorded trace: outcomes equal the fresh ones (a failed analysis leaves the tokenizer usable) and every collected list equals the fresh result of "
        "the analysis it holds, on boundaries, word identities and every requested field. Seeded random histories of up to 40 operations over real-Unicode texts are validated likewise. For default field requests the fresh twin is, every other time, the stateless API (Tokenize::tokenize).",
   note="Trusted: TLC, JSON bridge. The reference is the fresh tokenizer the statement names (run by the driver). Extra fields left loaded by earlier mode changes are not compared.",
   technique="TLA+ spec Tokenizer (NoStaleRead) + TLC enumeration of all short histories, executed on the real tokenizer; I->S trace validation with fresh twins (Trace_Tokenizer)",
   design="4 C10"),
 "C16": dict(
   category="model_checking",
   text="Sentences.tla specifies sentence splitting on characters: terminator groups (full stop/question/exclamation/ellipsis, >= 3 middle dots, a period not between alphanumerics, "
        ">= 2 line-break tags, each swallowing further periods/full stops), extension over closing brackets/commas/terminators, the vetoes (bracket depth clamped at zero, itemisation header, "
        "quoting particles, a multi-character dictionary word running over or ending on the terminator within the 30-byte look-back), the window and the iterator, and states the property as four "
        "predicates over ANY offered sentence list (Partitions, BreaksAfterTerminators, NoBreakInBrackets, EndsAtFirstCandidate). TLC checks them for every text <= 3 (thorough 4) over one "
        "character per kind x limits {1,2,3,unbounded} x 32 lexicons x checker on/off (390k cases). Every enumerated case up to 2 (3) and thousands of seeded random real-Unicode texts "
        "(limits 1..50 and 4096, five lexicons incl. the one-character terminator word and words ending 11..14 characters before a terminator) are run through the real SentenceSplitter and the "
        "recorded ranges + slices validated by TLC against the same predicates.",
   note="Trusted: TLC, JSON bridge, fancy-regex as a library. The converse is asserted inside the window only; beyond it the code's `rest of the text` is accepted. A genuine defect found earlier "
        "(terminator listed as a dictionary word suppresses breaks) was repaired.",
   technique="TLA+ spec Sentences + TLC over all short texts; I->S trace validation of the real splitter on every enumerated case and on random texts (Trace_Sentences)",
   design="4 C16"),
 "C03": dict(
   category="exploration",
   text="Totality.tla gives an analysis an outcome algebra {ok, toolong, err} whose admissible value is a function of the original length, the rewritten length and the presence of a fallback "
        "OOV provider (ok within 49,149 / 65,535 bytes, toolong beyond); a panic, overflow or failed debug assertion is a value no action produces. TLC enumerates, at the REAL constants, every "
        "composition of kept, shrinking (3->1 byte) and expanding (3->33 bytes, U+FDFA) characters that sits one below, on and one above either limit; each is analysed by the real tokenizer in four "
        "block orders and the event (outcome, reported lengths, coverage of the text, a call of every morpheme accessor and the split API in all modes) is validated by TLC, together with "
        "~20k (thorough: ~3.4M) recorded analyses of hostile inputs: a sweep over the Unicode scalars, NUL/control/unassigned/astral/ZWJ/combining mixtures, repeated units around 49,149 bytes, "
        "cost-extreme and random generated dictionaries, short histories on one tokenizer with a reused result list (empty inputs after non-empty ones), and 42 (thorough: 216) worlds with generated character / unknown-word definitions (letters of one, two and three classes, every class with its own invoke/group/length setting) on every text of <= 3 (4) letters. Built with debug assertions and overflow checks.",
   note="Not exhaustive: inputs are sampled (every scalar alone/doubled in the thorough tier) and configurations are 7 fixture stacks + generated dictionaries. Out-of-bounds reads are seen only "
        "through the debug assertions guarding the unchecked indexing; no sanitizer. Two genuine defects are recorded as known findings (i32 path-cost overflow at cost extremes; "
        "get_internal_cost over split pieces), two were repaired (intermediate-length refusal; NUL byte continuing a lexicon match).",
   technique="TLA+ spec Totality + TLC enumeration of limit compositions at the real constants, replayed on the real tokenizer (S->I); I->S trace validation of recorded outcomes (Trace_Totality)",
   design="4 C03"),
 "C19": dict(
   category="model_checking",
   text="Bindings.tla specifies the Python API as a state machine over named objects with the core library as an oracle: which library result every MorphemeList and every held Morpheme must "
        "show after every call (tokenize with a per-call mode override and an out list, Morpheme.split, Dictionary.lookup), that the override never changes the tokenizer's mode (also when the call "
        "fails), that only the target list of a call changes and that only lists sharing its analysed text are invalidated. TLC checks ModeIsStable / OneTarget / ValidListsHoldAnswers over every "
        "history of <= 3 (thorough 4) calls; every such history is executed on the REAL extension (rebuilt from /repo) with real texts, together with seeded random sessions over 3 configurations, "
        "field subsets and the 7 projections; after every call all live lists, handles and tokenizer modes are observed and the trace (library results recorded from the Rust core by `vh c19-lib`) "
        "is validated by TLC, including text[begin:end] = raw surface in code points. Cli.tla specifies the command-line tool as a line-by-line stream processor (terminator stripping, sentence "
        "splitting yes/no/only, column / -a / -w formats, standard streams or file argument and -o); TLC checks the line discipline for every input <= 4 (6) over {x, CR, LF}, every such input and random multi-line files are fed to the real binary and "
        "stdout must equal Run(input) computed by TLC from the library's own sentences and morphemes. BindingsPos.tla adds POS matchers (patterns, predicates, | & - ~, verdicts on every live morpheme) and the HuggingFace pre-tokenizer (through a stand-in module); ConfigResolve.tla specifies how -r/-p/-l assemble a configuration and resolve resource names, and all 4608 scenarios TLC enumerates are set up on disk for the real Config.",
   note="Trusted: TLC, JSON bridge, the Python driver's reading of accessors, `vh c19-lib` (the core library asked with the same field request). Not covered: the HuggingFace pre-tokenizer "
        "(see C18), Dictionary construction options, the sudachipy command line wrapper, the -d debug dump, lines longer than the input limit (the tool aborts). Three genuine defects "
        "found here were repaired (blank-line terminator, copy_slice input, NUL in lookups).",
   technique="TLA+ specs Bindings and Cli + TLC over all short call histories / terminator patterns; S->I execution of every enumerated history on the real extension and binary; I->S trace validation "
             "(Trace_Bindings, Trace_Cli) against results recorded from the Rust core; POS matchers, pre-tokenizer and configuration resolution (S->I of 4608 scenarios)",
   design="4 C19"),
 "C18": dict(
   category="model_checking",
   text="Concurrent.tla models the dictionary as a value written only by the loader's mutation points and frozen at publication, and an analysis as Begin . Read* . End on a tokenizer owned by "
        "its thread; TLC explores EVERY interleaving of 3 threads x 2 analyses x 2 dictionary reads: EveryResultSequential and DictImmutable hold for the per-thread-tokenizer design and for the "
        "exclusive-borrow design of the Python Tokenizer, and are violated by three deliberately broken designs (write after publication, unguarded shared tokenizer, two critical sections) - "
        "the negative controls run on every check. Apalache discharges an inductive invariant of the per-thread design (base, step, IndInv => both properties) for 4 threads and unbounded "
        "reads per analysis / analyses per thread, with its own negative control. The model is bound to the code by recorded concurrent executions: 8-32 threads, each with its own StatefulTokenizer over one "
        "Arc<JapaneseDictionary> (3 configurations with every plugin type and user dictionaries), and Python threads with own Tokenizers, one shared pre-tokenizer and one shared Tokenizer (GIL "
        "released during analysis); the hooks' dict_write/frozen events must be ordered as the model's LoadWrite/Freeze, every outcome must equal the single-threaded oracle recorded before and "
        "after the threads, and the dictionary fingerprint must not change. Cold starts: 200 (thorough 3000) freshly loaded dictionaries per configuration (a twin without user "
        "dictionaries, so loading analyses nothing) are first analysed by 8 threads at once and compared with a single-threaded run on another fresh dictionary.",
   note="The real code is explored only under the schedules the OS produced in these runs (barrier start, 16 cores, > 1M analyses per quick run); exhaustive interleaving coverage exists for the model "
        "only. A write path not marked by hook H4 that changes neither results nor accessor values is invisible. An analysis that never returns is reported by a watchdog (hang event, no action).",
   technique="TLA+ spec Concurrent + TLC over all interleavings (with negative-control variants) + Apalache inductive invariant (unbounded reads/analyses, 4 threads); I->S trace validation of recorded multi-threaded Rust and Python executions (Trace_Concurrent)",
   design="4 C18"),
}

NOT_YET = "no check registered yet in this revision (work in progress; see DESIGN.md section 8 build order)"

def main():
    hooks_commits = []
    try:
        out = subprocess.run(["git", "-C", "/repo", "log", "--format=%H %s"], stdout=subprocess.PIPE, text=True).stdout
        hooks_commits = [l.split()[0] for l in out.splitlines() if " verif-hook:" in l or l.split(" ", 1)[1].startswith("hook:")]
    except Exception:
        pass
    checks = []
    for pid in props:
        if pid not in CHECKS:
            continue
        c = CHECKS[pid]
        checks.append({
            "property_id": pid,
            "quick_cmd": f"./check {pid} --tier quick",
            "thorough_cmd": f"./check {pid} --tier thorough",
            "evidence_file": f"/verif/evidence/{pid}.json",
            "replay_cmd_template": f"./check {pid} --replay {{path}}",
            "engine": "tla-conformance",
            "level_claimed": {"category": c["category"], "text": c["text"], "design_ref": "DESIGN.md section " + c["design"]},
            "level_note": c["note"],
            "technique": c["technique"],
        })
    m = {
        "version": 1,
        "setup_cmd": "./setup.sh",
        "hooks": {
            "guard": "--cfg sudachi_verif",
            "enable": "harness/.cargo/config.toml passes rustflags [--cfg sudachi_verif] to every crate of the harness build, including the path dependency /repo/sudachi; "
                      "the Python extension and CLI used by C18/C19 are built with RUSTFLAGS='--cfg sudachi_verif' into /verif/work",
            "baseline_off_cmd": "cd /repo && cargo test --workspace --no-fail-fast --offline",
            "source_commits": hooks_commits,
            "add_only": True,
        },
        "engines": [
            {"name": "tla-conformance", "path": "/verif/check",
             "serves_properties": [c["property_id"] for c in checks],
             "kind_free_text": "explicit TLA+ specifications (spec/*.tla) model-checked by TLC; bound to the code by replaying TLC-generated behaviours "
                               "into the real objects (harness `vh`, S->I) and by validating NDJSON traces recorded from the real code against "
                               "Trace_*.tla with TLC (I->S)"},
        ],
        "checks": checks,
        "notes": "Exit codes of every check: 0 held (KNOWN-FINDING lines possible), 1 VIOLATION line + replay file, 2 tool error/vacuity/timeout. "
                 "Known findings: /verif/known_findings.json (never written at run time).",
        "not_applicable": [{"property_id": p, "reason": NOT_YET} for p in props if p not in CHECKS],
    }
    json.dump(m, open(os.path.join(V, "MANIFEST.json"), "w"), indent=1)
    print("MANIFEST.json:", len(checks), "checks,", len(m["not_applicable"]), "not_applicable")

if __name__ == "__main__":
    main()
