#!/usr/bin/env python3
"""Print the prompt given to a seeding sub-agent for one property (only the property text + worktree path)."""
import json, sys
pid, wt = sys.argv[1], sys.argv[2]
n = int(sys.argv[3]) if len(sys.argv) > 3 else 1
for l in open('/verif/properties.jsonl'):
    p = json.loads(l)
    if p['id'] == pid:
        break
print(f"""You are working on the open-source Rust project WorksApplications/sudachi.rs (a Japanese morphological analyzer). Your private scratch git worktree of it is at {wt} (already created, at the project's pinned commit). Work ONLY inside {wt}. Never read or write /repo or /verif (they are off limits), and do not look for any verification tooling elsewhere on this machine. There is no network; use `cargo ... --offline` and at most `-j4` parallel jobs.

Here is a semantic property of the project that should always hold:

TITLE: {p['title']}
STATEMENT: {p['statement']}
QUANTIFIED OVER: {p['quantifier']['text']}
WHY THE EXISTING TESTS CANNOT SETTLE IT: {p['why_tests_cant']}
RELEVANT FILES: {', '.join(p['anchors']['files'])}

YOUR TASK: produce {n} realistic change(s) to the project's non-test source code, each of which BREAKS this property while the project still compiles and the entire existing test suite still passes (`cargo test --workspace --no-fail-fast --offline` run in {wt}; 254 tests pass on the unchanged tree). Think of the kind of slip a maintainer could plausibly make in a refactor, an optimisation or a well-meant bug fix and that a reviewer could plausibly accept. The change must need something SPECIFIC to manifest - an unusual input, a particular multi-step sequence of API calls, a particular configuration or dictionary, a fault at a particular point, a particular interleaving, or two cooperating sites that each look fine alone - not something that ordinary use would expose at once. Do not change or delete existing tests, and do not make the code fail to build.

For each change also write a DEMONSTRATION: a small Rust integration test (e.g. a new file under sudachi/tests/) or a small program/script that FAILS with your change applied and PASSES on the unchanged tree. The demonstration is separate from the change.

You must verify all of the following yourself and report the exact commands you ran and their outcome:
 1. with the change applied, the whole existing test suite passes (no test edited);
 2. with the change applied, the demonstration fails;
 3. on the unchanged tree (e.g. `git stash` the source change), the demonstration passes.

DELIVERABLES, written under {wt}/SEED/ (create the directory; if you make more than one change use SEED/1, SEED/2, ...):
 - patch.diff : `git diff` of the source change ONLY (not the demonstration), applicable with `git apply` at the root of a clean checkout;
 - demo/      : the demonstration file(s), plus demo/RUN.txt with the exact command to run it from the root of a checkout and where each demo file must be placed;
 - meta.json  : {{"property": "{pid}", "summary": "...what the change does...", "needs_to_manifest": "...the specific input/sequence/configuration needed...", "commands_run": ["..."], "why_tests_still_pass": "..."}}
When finished, leave the worktree with the change reverted (clean `git status` except SEED/). In your final message give a short summary of each change and confirm the three verifications.""")
