#!/bin/sh
# usage: tools/try_patch.sh <patch.diff> <Cxx> [tier]   -- apply a seeded change to /repo, run the check, undo it
P="$1"; ID="$2"; TIER="${3:-quick}"
cd /repo || exit 2
git apply --check "$P" || { echo "patch does not apply"; exit 2; }
git apply "$P"
cd /verif && ./check "$ID" --tier "$TIER" > /tmp/try_patch.$$.log 2>&1
RC=$?
cd /repo && git checkout -- . 
grep -E "VIOLATION|KNOWN-FINDING|TOOL-ERROR|what:" /tmp/try_patch.$$.log | head -8
tail -1 /tmp/try_patch.$$.log
rm -f /tmp/try_patch.$$.log
echo "check exit=$RC"
exit $RC
