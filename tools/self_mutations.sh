#!/bin/bash
# apply each self-made mutation (python edit), run the hosting check, restore /repo; results in seeded/self/RESULTS.txt
cd /verif
[ -n "$(git -C /repo status --porcelain)" ] && { echo "/repo not clean"; exit 2; }
: > seeded/self/RESULTS.txt
mut() { # name check file old new
  python3 - "$3" "$4" "$5" <<'PY'
import sys
p,old,new=sys.argv[1:4]
s=open(p).read()
assert old in s, "pattern not found in "+p
open(p,"w").write(s.replace(old,new,1))
PY
  [ $? -ne 0 ] && { echo "$1 pattern-not-found" | tee -a seeded/self/RESULTS.txt; git -C /repo checkout -- .; return; }
  out=$(./check $2 --tier quick 2>&1); rc=$?
  git -C /repo checkout -- .
  echo "$1 check=$2 exit=$rc $(echo "$out" | grep -m1 'what:' | cut -c1-220)" | tee -a seeded/self/RESULTS.txt
}
mut M1_config_anchor_order C19 /repo/sudachi/src/config.rs "        add_path(resource_dir);
        self.rootDirectory.map(&mut add_path);" "        self.rootDirectory.map(&mut add_path);
        add_path(resource_dir);"
mut M2_cli_build_drops_description C05 /repo/sudachi-cli/src/build.rs "    let mut builder = DictBuilder::new_system();
    builder.set_description(std::mem::take(&mut cmd.description));" "    let mut builder = DictBuilder::new_system();"
mut M3_pretokenizer_byte_offsets C19 /repo/python/src/pretokenizer.rs "let slice = PySlice::new(py, node.begin_c() as isize, node.end_c() as isize, 1);" "let slice = PySlice::new(py, node.begin() as isize, node.end() as isize, 1);"
mut M4_user_cost_per_morpheme C02 /repo/sudachi/src/dic/lexicon/mod.rs "const USER_DICT_COST_PER_MORPH: i32 = -20;" "const USER_DICT_COST_PER_MORPH: i32 = -10;"
mut M5_drop_long_dictionary_candidates C02 /repo/sudachi/src/analysis/stateful_tokenizer.rs "                if (e.end < input_bytes.len()) && !self.input.can_bow(e.end) {" "                if ((e.end < input_bytes.len()) && !self.input.can_bow(e.end)) || (e.end - byte_off > 12 && !created.is_empty()) {"
mut M6_posmatcher_complement_off_by_one C19 /repo/python/src/pos_matcher.rs "        let max_id = self.dic.pos.len();" "        let max_id = self.dic.pos.len() - 1;"
mut M7_stateless_ignores_mode C10 /repo/sudachi/src/analysis/stateless_tokenizer.rs "let mut tok = StatefulTokenizer::create(self.dict.clone(), enable_debug, mode);" "let mut tok = StatefulTokenizer::create(self.dict.clone(), enable_debug, Mode::C); let _ = mode;"
mut M8_python_build_ignores_description C05 /repo/python/src/build.rs "    let mut builder = DictBuilder::new_system();
    description.map(|d| builder.set_description(d));" "    let mut builder = DictBuilder::new_system();
    let _ = description;"
[ -n "$(git -C /repo status --porcelain)" ] && echo "WARNING: /repo not clean"

