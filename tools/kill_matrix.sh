#!/bin/bash
# usage: tools/kill_matrix.sh [ids...]  -- apply each stored seeded change to /repo, run the quick tier of its own property's check,
# restore the tree; writes seeded/KILL_MATRIX.json and fills detected_by in each meta.json.  Never commits anything in /repo.
cd /verif || exit 2
IDS="$@"; [ -z "$IDS" ] && IDS=$(ls seeded | grep -E '^C[0-9]+-[0-9]+$')
[ -n "$(git -C /repo status --porcelain)" ] && { echo "/repo working tree is not clean"; exit 2; }
for id in $IDS; do
  pid=${id%-*}; P=seeded/$id/patch.diff; [ -f seeded/$id/patch.rebased.diff ] && P=seeded/$id/patch.rebased.diff
  s=$(date +%s)
  if ! git -C /repo apply --check /verif/$P 2>/dev/null; then echo "$id patch-does-not-apply"; continue; fi
  git -C /repo apply /verif/$P
  out=$(./check $pid --tier quick 2>&1); rc=$?
  git -C /repo checkout -- .
  e=$(date +%s)
  what=$(echo "$out" | grep -m1 "what:" | cut -c1-300)
  echo "$id exit=$rc $((e-s))s $what"
  python3 - "$id" "$pid" "$rc" "$P" "$what" <<'PY'
import json,sys,os
id_,pid,rc,patch,what=sys.argv[1:6]
mp=f"/verif/seeded/KILL_MATRIX.json"
m=json.load(open(mp)) if os.path.exists(mp) else {}
m[id_]={"check":f"./check {pid} --tier quick","patch":patch,"exit":int(rc),"detected":int(rc)==1,"first_violation":what.strip()}
json.dump(m,open(mp,"w"),indent=1,ensure_ascii=False,sort_keys=True)
meta=f"/verif/seeded/{id_}/meta.json"
d=json.load(open(meta))
d["detected_by"]=[f"./check {pid} --tier quick (exit {rc}): {what.strip()[:200]}"] if int(rc)==1 else []
json.dump(d,open(meta,"w"),indent=1,ensure_ascii=False)
PY
done
[ -n "$(git -C /repo status --porcelain)" ] && echo "WARNING: /repo not clean after the run"
