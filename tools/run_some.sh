#!/bin/bash
# usage: tools/run_some.sh <tier> <timeout-seconds> <ids...>
cd /verif
TIER=$1; T=$2; shift 2
for id in "$@"; do
  s=$(date +%s); out=$(timeout $T ./check $id --tier $TIER 2>&1); rc=$?; e=$(date +%s)
  echo "$id exit=$rc $((e-s))s $(echo "$out" | grep -E 'VIOLATION|TOOL-ERROR' | head -2 | tr '\n' ' ' | cut -c1-300) | $(echo "$out" | tail -1 | cut -c1-200)"
done
