#!/usr/bin/env python3
"""Prompt for a seventh-batch seeding sub-agent: the property text, a scratch worktree, and one paragraph listing the sites earlier
batches already changed (so the new changes go elsewhere). Nothing from /verif's machinery is disclosed."""
import json, sys, glob, subprocess
pid, wt = sys.argv[1], sys.argv[2]
n = int(sys.argv[3]) if len(sys.argv) > 3 else 2
base = subprocess.run([sys.executable, '/verif/tools/seed_prompt.py', pid, wt, str(n)], capture_output=True, text=True).stdout
hit = []
for f in sorted(glob.glob('/verif/seeded/%s-*/meta.json' % pid)):
    s = (json.load(open(f)).get('summary') or '')
    s = s.split('. ')[0][:260]
    hit.append(' - ' + s)
extra = ("\n\nIMPORTANT - DO NOT REPEAT: earlier reviewers already tried the following changes for this property; yours must be at DIFFERENT sites and use a DIFFERENT mechanism "
         "(look at less central helpers, boundary values, rarely used options and configurations, interactions between two components, error paths, unusual-but-valid inputs):\n"
         + '\n'.join(hit) + "\nMake your %d changes differ from each other as well (different files or functions)." % n)
print(base + extra)
