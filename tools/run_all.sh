#!/bin/bash
# run every registered quick check on the current tree; print one line per check
cd /verif
for id in $(python3 -c "import json;print(' '.join(c['property_id'] for c in json.load(open('MANIFEST.json'))['checks']))"); do
  s=$(date +%s); out=$(./check $id --tier ${1:-quick} 2>&1); rc=$?; e=$(date +%s)
  echo "$id exit=$rc $((e-s))s $(echo "$out" | grep -E 'VIOLATION|TOOL-ERROR' | head -2 | tr '\n' ' ')"
done
