#!/bin/bash
# run every registered check of one tier on the current tree; print one line per check (optional 2nd argument: per-check timeout in seconds)
cd /verif
T=${2:-0}
for id in $(python3 -c "import json;print(' '.join(c['property_id'] for c in json.load(open('MANIFEST.json'))['checks']))"); do
  s=$(date +%s)
  if [ "$T" -gt 0 ]; then out=$(timeout $T ./check $id --tier ${1:-quick} 2>&1); rc=$?; else out=$(./check $id --tier ${1:-quick} 2>&1); rc=$?; fi
  e=$(date +%s)
  echo "$id exit=$rc $((e-s))s $(echo "$out" | grep -E 'VIOLATION|TOOL-ERROR' | head -2 | tr '\n' ' ' | cut -c1-300)"
done
