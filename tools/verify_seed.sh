#!/bin/bash
# usage: tools/verify_seed.sh <PID> <n> [<stored number>]  -- confirm a seeded change in its scratch worktree /tmp/seed/<PID> and, if confirmed,
# keep it as /verif/seeded/<PID>-<n>/ (patch.diff, demo/, meta.json with what was run here)
PID=$1; N=$2; M=${3:-$2}; WT=/tmp/seed/$PID; S=$WT/SEED/$N
[ -d "$S" ] || S=$WT/SEED
cd $WT || exit 2
git checkout -q -- . ; git clean -fdq sudachi python sudachi-cli plugin 2>/dev/null
LOG=$WT/verify_$N.log; : > $LOG
git apply --check $S/patch.diff || { echo "$PID-$N: patch does not apply"; exit 1; }
git apply $S/patch.diff
# 1. whole suite with the change
cargo test --workspace --no-fail-fast --offline -j6 >> $LOG 2>&1; SUITE=$?
PASSED=$(grep -E '^test result' $LOG | awk '{s+=$4} END {print s}'); FAILED=$(grep -E '^test result' $LOG | awk '{s+=$6} END {print s}')
# place demo (a demonstration of the command-line tool goes under sudachi-cli/tests)
PKG=sudachi; TD=sudachi/tests
if grep -q "sudachi-cli/tests" $S/demo/RUN.txt 2>/dev/null; then PKG=sudachi-cli; TD=sudachi-cli/tests; mkdir -p $TD; fi
for f in $S/demo/*.rs; do cp $f $TD/; done
[ -d $S/demo/resources ] && cp -r $S/demo/resources/* sudachi/tests/resources/
for f in $S/demo/*.csv $S/demo/*.def $S/demo/*.json; do [ -f "$f" ] && cp $f sudachi/tests/resources/; done
DEMO_WITH=0
for f in $S/demo/*.rs; do st=$(basename $f .rs); cargo test -p $PKG --offline -j6 --test $st >> $LOG 2>&1 || DEMO_WITH=1; done
# 3. demo without the change
git apply -R $S/patch.diff
DEMO_WITHOUT=0
for f in $S/demo/*.rs; do st=$(basename $f .rs); cargo test -p $PKG --offline -j6 --test $st >> $LOG 2>&1 || DEMO_WITHOUT=1; done
git checkout -q -- . ; git clean -fdq sudachi sudachi-cli 2>/dev/null
echo "$PID-$N: suite_exit=$SUITE passed=$PASSED failed=$FAILED demo_with_change_failed=$DEMO_WITH demo_without_change_failed=$DEMO_WITHOUT"
if [ $SUITE -eq 0 ] && [ "$FAILED" = "0" ] && [ $DEMO_WITH -eq 1 ] && [ $DEMO_WITHOUT -eq 0 ]; then
  D=/verif/seeded/$PID-$M; mkdir -p $D; cp $S/patch.diff $D/; rm -rf $D/demo; cp -r $S/demo $D/demo
  python3 - "$S/meta.json" "$D/meta.json" "$PID" "$PASSED" <<'PY'
import json,sys
src,dst,pid,passed=sys.argv[1:5]
try: m=json.load(open(src))
except Exception: m={}
out={"property":pid,"summary":m.get("summary"),"needs_to_manifest":m.get("needs_to_manifest"),"why_tests_still_pass":m.get("why_tests_still_pass"),
     "author":"independent sub-agent given only the property text and a scratch worktree",
     "confirmed_by_main_session":{"commands":["git apply patch.diff; cargo test --workspace --no-fail-fast --offline (all pass: %s passed, 0 failed)"%passed,
        "demo test(s) copied to sudachi/tests/: cargo test -p sudachi --offline --test <demo> -> FAILS with the change",
        "git apply -R patch.diff; same demo command -> PASSES"]},
     "detected_by": None}
json.dump(out,open(dst,"w"),indent=1,ensure_ascii=False)
PY
  echo "$PID-$N: CONFIRMED -> $D"
else
  echo "$PID-$N: NOT confirmed (see $LOG)"
fi
