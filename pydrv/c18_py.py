#!/usr/bin/env python3
"""Python threads against one sudachipy Dictionary (C18).

usage: c18_py.py <world-dir> <cfg> <texts.json> <out.ndjson> <threads> <iters> <seed>

Three arrangements, each with N threads started on a barrier:
  own       every thread has its own Tokenizer created from the one Dictionary
  pretok    every thread calls ONE pre-tokenizer object (thread-local tokenizers inside the extension)
  shared    every thread calls ONE Tokenizer object (the extension must refuse or serialise, never mix results)
The driver records outcomes only: (arrangement, thread, text, mode, result) with a count; single-threaded reference
results of the pre-tokenizer are recorded before the threads start ("pt_oracle").  It decides nothing.
"""
import json
import random
import sys
import threading
import types
import warnings

warnings.simplefilter("ignore")


def install_tokenizers_stub():
    # sudachipy only takes tokenizers.pre_tokenizers.PreTokenizer.custom from the HuggingFace package
    tk = types.ModuleType("tokenizers")
    pt = types.ModuleType("tokenizers.pre_tokenizers")

    class PreTokenizer:
        @staticmethod
        def custom(obj):
            return obj

    class NormalizedString:
        def __init__(self, s):
            self.s = s

    pt.PreTokenizer = PreTokenizer
    tk.pre_tokenizers = pt
    tk.NormalizedString = NormalizedString
    sys.modules["tokenizers"] = tk
    sys.modules["tokenizers.pre_tokenizers"] = pt


class FakeNormalizedString:
    def __init__(self, text):
        self.text = text

    def __str__(self):
        return self.text

    def slice(self, range_):
        return self.text[range_]


install_tokenizers_stub()
from sudachipy import Dictionary, SplitMode  # noqa: E402

MODES = [SplitMode.A, SplitMode.B, SplitMode.C]


def morphs(ms):
    return [[m.begin(), m.end(), m.word_id() >> 28, m.word_id() & 0x0FFFFFFF, m.part_of_speech_id()] for m in ms]


def main():
    world, cfg, texts_path, out_path = sys.argv[1:5]
    nthreads, iters, seed = int(sys.argv[5]), int(sys.argv[6]), int(sys.argv[7])
    texts = json.load(open(texts_path))
    dic = Dictionary(config_path=f"{world}/{cfg}.json", resource_dir=world)
    out = open(out_path, "w")
    emit = lambda e: out.write(json.dumps(e) + "\n")
    emit({"ev": "py_loaded", "cfg": cfg, "threads": nthreads})

    pretok = dic.pre_tokenizer(mode="C")
    for ti, t in enumerate(texts):
        emit({"ev": "pt_oracle", "text": ti, "tokens": [[ord(c) for c in s] for s in pretok(0, FakeNormalizedString(t))]})

    # a custom handler that, like real handlers, gives up the interpreter lock while it still holds the morpheme list it was given
    import time

    def handler(index, string, ms):
        n = len(ms)
        first = [ms[i].surface() for i in range(n // 2)]
        time.sleep(0.0002)
        return first + [ms[i].surface() for i in range(n // 2, n)]
    pretok_h = dic.pre_tokenizer(mode="C", handler=handler)
    for ti, t in enumerate(texts):      # its own single-threaded reference (a handler makes the pre-tokenizer load all fields)
        emit({"ev": "pt_oracle", "text": 100000 + ti, "tokens": [[ord(c) for c in s] for s in pretok_h(0, FakeNormalizedString(t))]})
    shared_tok = dic.create()

    for arrangement in ("own", "pretok", "pretok_handler", "shared"):
        barrier = threading.Barrier(nthreads)
        tables = [dict() for _ in range(nthreads)]

        def work(th):
            rng = random.Random(seed * 1000 + th)
            tok = dic.create(MODES[th % 3]) if arrangement == "own" else None
            mine = tables[th]
            barrier.wait()
            for k in range(iters):
                ti = rng.randrange(len(texts))
                m = rng.randrange(3)
                try:
                    if arrangement == "own":
                        # own default mode or a per-call override
                        if m == th % 3:
                            r = ["ok", morphs(tok.tokenize(texts[ti]))]
                        else:
                            r = ["ok", morphs(tok.tokenize(texts[ti], mode=MODES[m]))]
                    elif arrangement == "pretok":
                        m = 2
                        r = ["ok", [[ord(c) for c in s] for s in pretok(k, FakeNormalizedString(texts[ti]))]]
                    elif arrangement == "pretok_handler":
                        m = 2
                        if k >= iters // 8:      # the handler sleeps: fewer rounds
                            break
                        r = ["ok", [[ord(c) for c in s] for s in pretok_h(k, FakeNormalizedString(texts[ti]))]]
                    else:
                        r = ["ok", morphs(shared_tok.tokenize(texts[ti], mode=MODES[m]))]
                except RuntimeError as e:            # "Already mutably borrowed": the extension refused a concurrent use
                    r = ["refused", str(e)[:60]]
                except BaseException as e:
                    r = ["err", type(e).__name__ + ": " + str(e)[:120]]
                key = json.dumps([ti, m, r])
                c = mine.get(key)
                mine[key] = (1, k) if c is None else (c[0] + 1, c[1])

        threads = [threading.Thread(target=work, args=(th,)) for th in range(nthreads)]
        for t in threads:
            t.start()
        deadline = 300
        for t in threads:
            t.join(deadline)
        alive = sum(1 for t in threads if t.is_alive())
        for th, table in enumerate(tables):
            for key, (count, first) in sorted(list(table.items()), key=lambda kv: kv[1][1]):
                ti, m, r = json.loads(key)
                emit({"ev": "py_end", "arr": arrangement, "thread": th, "seq": first, "text": ti, "mode": m, "res": r[0], "val": r[1] if r[0] == "ok" else [], "msg": "" if r[0] == "ok" else r[1], "count": count})
        if alive:
            emit({"ev": "hang", "threads_still_running": alive, "arr": arrangement})
            out.flush()
            import os
            os._exit(0)
    emit({"ev": "py_done"})
    out.close()
    print(json.dumps({"ok": True}))


if __name__ == "__main__":
    main()
