#!/usr/bin/env python3
"""Build every job with the Python front end (sudachipy.build_system_dic / build_user_dic).
usage: c05_build.py <jobs.json> <out.json>   -- records outcomes only"""
import json
import os
import sys
import pathlib
from sudachipy import sudachipy  # the native module carries the build functions

jobs = json.load(open(sys.argv[1]))
out = []
for k, j in enumerate(jobs):
    d = j["dir"]
    desc = j["desc"]
    # the API accepts str paths, pathlib paths and (for inputs) bytes: vary them
    matrix = j["matrix"] if k % 3 == 0 else pathlib.Path(j["matrix"]) if k % 3 == 1 else open(j["matrix"], "rb").read()
    lex = [p if i % 2 == 0 else open(p, "rb").read() for i, p in enumerate(j["lex"])]
    try:
        sudachipy.build_system_dic(matrix, lex, os.path.join(d, "py_system.dic"), desc if (desc or k % 2) else None)
        res = "ok"
        msg = ""
    except BaseException as e:
        res, msg = "err", type(e).__name__ + ": " + str(e)[:200]
    out.append({"job": j["job"], "kind": "system", "res": res, "file": os.path.join(d, "py_system.dic"), "msg": msg})
    if os.path.exists(os.path.join(d, "lib_system.dic")):
        try:
            sudachipy.build_user_dic(os.path.join(d, "lib_system.dic"), [j["user"]], pathlib.Path(os.path.join(d, "py_user.dic")), desc if (desc or k % 2) else None)
            res, msg = "ok", ""
        except BaseException as e:
            res, msg = "err", type(e).__name__ + ": " + str(e)[:200]
        out.append({"job": j["job"], "kind": "user", "res": res, "file": os.path.join(d, "py_user.dic"), "msg": msg})
json.dump(out, open(sys.argv[2], "w"))
