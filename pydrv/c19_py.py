#!/usr/bin/env python3
"""Driver of the real sudachipy extension for C19 (and the thread runs of C18).

usage: c19_py.py <world-dir> <sessions.json> <out.ndjson>

A session is a history of API calls on objects named by small integers.  After EVERY call the driver
records what every live MorphemeList and every held Morpheme handle shows through the public accessors and
what every tokenizer reports as its mode, so that aliasing, stale state and mode leaks are visible to the
trace specification (spec/Trace_Bindings.tla).  The driver decides nothing.
"""
import json
import sys
import warnings

import types

warnings.simplefilter("ignore")


def install_tokenizers_stub():
    # sudachipy takes only PreTokenizer.custom and NormalizedString from the HuggingFace package, which is not installed here
    tk = types.ModuleType("tokenizers")
    pt = types.ModuleType("tokenizers.pre_tokenizers")

    class PreTokenizer:
        @staticmethod
        def custom(obj):
            return obj

    class NormalizedString:
        def __init__(self, s):
            self.s = s

    pt.PreTokenizer = PreTokenizer
    tk.pre_tokenizers = pt
    tk.NormalizedString = NormalizedString
    sys.modules["tokenizers"] = tk
    sys.modules["tokenizers.pre_tokenizers"] = pt


class FakeNormalizedString:
    def __init__(self, text):
        self.text = text

    def __str__(self):
        return self.text

    def slice(self, range_):
        return self.text[range_]


install_tokenizers_stub()
from sudachipy import Dictionary, SplitMode  # noqa: E402

MODES = [SplitMode.A, SplitMode.B, SplitMode.C]
MODE_STR = ["A", "B", "C"]


def cps(s):
    return [ord(c) for c in s]


def from_cps(a):
    return "".join(chr(c) for c in a)


def mode_idx(m):
    for i, x in enumerate(MODES):
        if m == x:
            return i
    return -1


def pymode(i, k):
    # the API accepts SplitMode objects and strings
    return MODES[i] if k % 2 == 0 else MODE_STR[i]


def obs_winfo(m):
    w = m.get_word_info()
    return {"surface": cps(w.surface), "hwl": w.head_word_length, "pos_id": w.pos_id, "norm": cps(w.normalized_form),
            "dfwid": w.dictionary_form_word_id, "dform": cps(w.dictionary_form), "reading": cps(w.reading_form),
            "a": [[x >> 28, x & 0x0FFFFFFF] for x in w.a_unit_split], "b": [[x >> 28, x & 0x0FFFFFFF] for x in w.b_unit_split],
            "ws": [[x >> 28, x & 0x0FFFFFFF] for x in w.word_structure], "syn": list(w.synonym_group_ids),
            "length": w.length()}


def obs_morpheme(m):
    return {
        "winfo": obs_winfo(m),
        "surface": cps(m.raw_surface()), "psurface": cps(m.surface()), "begin": m.begin(), "end": m.end(),
        "pos": [cps(p) for p in m.part_of_speech()], "pos_id": m.part_of_speech_id(),
        "dform": cps(m.dictionary_form()), "norm": cps(m.normalized_form()), "reading": cps(m.reading_form()),
        "wid": [m.word_id() >> 28, m.word_id() & 0x0FFFFFFF], "dic": m.dictionary_id(), "oov": m.is_oov(),
        "syn": list(m.synonym_group_ids()), "len": len(m), "str": cps(str(m)),
    }


def obs_list(lst):
    try:
        n = len(lst)
        ms = [obs_morpheme(lst[i]) for i in range(n)]
        it = [cps(m.raw_surface()) for m in lst]          # iterator protocol
        neg = cps(lst[-1].raw_surface()) if n > 0 else []  # negative indexing
        return {"res": "ok", "ms": ms, "iter_ok": it == [m["surface"] for m in ms] and (n == 0 or neg == ms[-1]["surface"]),
                "size": lst.size(), "str": cps(str(lst))}
    except BaseException as e:  # PanicException derives from BaseException
        return {"res": "err", "ms": [], "iter_ok": False, "size": -1, "str": [], "msg": type(e).__name__ + ": " + str(e)[:200]}


def obs_matcher(mt, lists):
    try:
        hits = []
        for lid, lst in sorted(lists.items()):
            try:
                hits.append([lid, [bool(mt(m)) for m in lst]])
            except BaseException:
                hits.append([lid, []])       # an invalidated list: nothing is claimed about it
        return {"res": "ok", "len": len(mt), "items": [list(p) for p in mt], "hits": hits}
    except BaseException as e:
        return {"res": "err", "len": -1, "items": [], "hits": [], "msg": type(e).__name__ + ": " + str(e)[:200]}


def obs_handle(h):
    try:
        return {"res": "ok", "m": obs_morpheme(h)}
    except BaseException as e:
        return {"res": "err", "msg": type(e).__name__ + ": " + str(e)[:200]}


DICTS = {}


def run_session(world, sess, out):
    cfg = sess["cfg"]
    # one Dictionary per configuration for the whole driver run: sessions are isolated by their own tokenizers and lists
    if cfg not in DICTS:
        DICTS[cfg] = Dictionary(config_path=f"{world}/{cfg}.json", resource_dir=world)
    dic = DICTS[cfg]
    toks, lists, handles, matchers, pretoks = {}, {}, {}, {}, {}
    out.write(json.dumps({"ev": "sess", "sess": sess["sess"], "cfg": cfg}) + "\n")
    for k, op in enumerate(sess["ops"]):
        # a call that names an object an earlier (failed) call never created is not made at all
        if any(op.get(f, -1) not in (-1, None) and op[f] not in lists for f in ("out", "list")) or (op.get("tk") is not None and op["op"] != "create" and op["tk"] not in toks):
            continue
        if op["op"] == "pretok_call" and op["pt"] not in pretoks:
            continue
        if op["op"] == "mop" and (op["a"] not in matchers or (op["kind"] != "inv" and op["b"] not in matchers)):
            continue
        echo = dict(op)
        if len(echo.get("text", [])) > 300:
            # a long text (one repeated character) is named, not copied, in the trace: [marker, length, the character]
            echo["text"] = [1114112, len(op["text"]), op["text"][0]]
        ev = {"ev": "py", "sess": sess["sess"], "k": k, "op": op["op"], "args": echo, "res": "ok", "ret": -1, "msg": "", "same_object": False, "val": []}
        try:
            o = op["op"]
            if o == "create":
                kwargs = {}
                if op.get("fields") != "all":
                    kwargs["fields"] = set(op["fields"])
                if op.get("projection") != "surface" or k % 2 == 1:
                    kwargs["projection"] = op["projection"]
                if op.get("mode") == -1:
                    toks[op["tk"]] = dic.create(**kwargs)
                else:
                    toks[op["tk"]] = dic.create(pymode(op["mode"], k), **kwargs)
            elif o == "tokenize":
                t = toks[op["tk"]]
                kwargs = {}
                if op.get("mode") != -1:
                    kwargs["mode"] = pymode(op["mode"], k)
                if op.get("out") != -1:
                    kwargs["out"] = lists[op["out"]]
                r = t.tokenize(from_cps(op["text"]), **kwargs)
                if op.get("out") != -1:
                    ev["same_object"] = r is lists[op["out"]]
                    ev["ret"] = op["out"]
                else:
                    lists[op["new"]] = r
                    ev["ret"] = op["new"]
            elif o == "split":
                m = lists[op["list"]][op["idx"]]
                kwargs = {"add_single": op["add_single"]}
                if op.get("out") != -1:
                    kwargs["out"] = lists[op["out"]]
                r = m.split(pymode(op["mode"], k), **kwargs)
                if op.get("out") != -1:
                    ev["same_object"] = r is lists[op["out"]]
                    ev["ret"] = op["out"]
                else:
                    lists[op["new"]] = r
                    ev["ret"] = op["new"]
            elif o == "lookup":
                kwargs = {}
                if op.get("out") != -1:
                    kwargs["out"] = lists[op["out"]]
                r = dic.lookup(from_cps(op["text"]), **kwargs)
                if op.get("out") != -1:
                    ev["same_object"] = r is lists[op["out"]]
                    ev["ret"] = op["out"]
                else:
                    lists[op["new"]] = r
                    ev["ret"] = op["new"]
            elif o == "matcher":
                matchers[op["mid"]] = dic.pos_matcher([tuple(None if c == "None" else c for c in pat) for pat in op["pats"]])
            elif o == "matcher_fn":
                f, v = op["field"], op["value"]
                matchers[op["mid"]] = dic.pos_matcher(lambda pos: pos[f] == v)
            elif o == "mop":
                a = matchers[op["a"]]
                if op["kind"] == "inv":
                    matchers[op["mid"]] = ~a
                else:
                    b = matchers[op["b"]]
                    matchers[op["mid"]] = (a | b) if op["kind"] == "or" else (a & b) if op["kind"] == "and" else (a - b)
            elif o == "pretok_new":
                kwargs = {}
                if op.get("fields") != "all":
                    kwargs["fields"] = set(op["fields"])
                if op.get("projection") != "surface":
                    kwargs["projection"] = op["projection"]
                if op["handler"]:
                    kwargs["handler"] = lambda index, string, ms: [(m.begin(), m.end(), m.normalized_form()) for m in ms]
                pretoks[op["pt"]] = dic.pre_tokenizer(pymode(op["mode"], k) if op["mode"] != -1 else "C", **kwargs)
            elif o == "pretok_call":
                r = pretoks[op["pt"]](k, FakeNormalizedString(from_cps(op["text"])))
                val = []
                for x in r:
                    if isinstance(x, tuple):
                        val.append([x[0], x[1], cps(x[2])])
                    else:
                        val.append(cps(x if isinstance(x, str) else x.s))
                ev["val"] = val
            elif o == "hold":
                handles[op["h"]] = lists[op["list"]][op["idx"]]
            elif o == "drop":
                lists.pop(op["list"], None)
            else:
                raise ValueError("unknown op " + o)
        except BaseException as e:
            ev["res"] = "err"
            ev["msg"] = type(e).__name__ + ": " + str(e)[:200]
        ev["modes"] = [[tk, mode_idx(t.mode)] for tk, t in sorted(toks.items())]
        ev["lists"] = [[lid, obs_list(lst)] for lid, lst in sorted(lists.items())]
        ev["handles"] = [[h, obs_handle(x)] for h, x in sorted(handles.items())]
        ev["matchers"] = [[mid, obs_matcher(mt, lists)] for mid, mt in sorted(matchers.items())]
        out.write(json.dumps(ev) + "\n")
        out.flush()
    out.write(json.dumps({"ev": "sess_end", "sess": sess["sess"]}) + "\n")
    out.flush()


def main():
    world, sessions_path, out_path = sys.argv[1:4]
    sessions = json.load(open(sessions_path))
    with open(out_path, "w") as out:
        for s in sessions:
            run_session(world, s, out)
    print(json.dumps({"sessions": len(sessions)}))


if __name__ == "__main__":
    main()
