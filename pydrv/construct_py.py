#!/usr/bin/env python3
"""S->I driver for spec/PyConstruct.tla: every scenario TLC enumerated is given to the real sudachipy.Dictionary constructor.
usage: construct_py.py <root> <scenarios.json> <out.json>
<root>/pkg               sudachipy (extension built from /repo) with a small default configuration
<root>/stubs/<kind>      a directory holding the package sudachidict_<kind> (resources/system.dic)
<root>/files             A.dic, B.dic, dir/, res/ (a resource directory)
The driver only sets the scenario up, calls the constructor and reports what came back; expected values are TLC's."""
import importlib
import json
import os
import sys
import warnings

root, inp, outp = sys.argv[1:4]
sys.path.insert(0, os.path.join(root, "pkg"))
import sudachipy            # noqa: E402
from sudachipy import Dictionary  # noqa: E402
from sudachipy.config import Config  # noqa: E402

F = os.path.join(root, "files")
KINDS = ["small", "core", "full"]
INSTALLED = {"all": KINDS, "core": ["core"], "smallfull": ["small", "full"], "nothing": []}
OOV = [{"class": "com.worksap.nlp.sudachi.SimpleOovPlugin", "oovPOS": ["名詞", "普通名詞", "一般", "*", "*", "*"], "leftId": 0, "rightId": 0, "cost": 30000}]


def name_of(x):
    return {"A": os.path.join(F, "A.dic"), "B": os.path.join(F, "B.dic"), "nofile": os.path.join(F, "nothing_here.dic"), "dir": os.path.join(F, "dir")}.get(x, x)


def set_installed(which):
    stub_dirs = [os.path.join(root, "stubs", k) for k in KINDS]
    sys.path[:] = [p for p in sys.path if p not in stub_dirs] + [os.path.join(root, "stubs", k) for k in INSTALLED[which]]
    for k in KINDS:
        sys.modules.pop("sudachidict_" + k, None)
    importlib.invalidate_caches()


def sys_name(rep):
    # <SudachiDictionary(system=PATH, user=[...
    p = rep[len("<SudachiDictionary(system="):rep.index(", user=[")]
    if p == os.path.join(F, "A.dic"):
        return "A"
    if p == os.path.join(F, "B.dic"):
        return "B"
    for k in KINDS:
        if p == os.path.realpath(os.path.join(root, "stubs", k, "sudachidict_" + k, "resources", "system.dic")):
            return "pkg_" + k
    return "other:" + p


def run(s):
    set_installed(s["installed"])
    kwargs = {}
    cfg = {"oovProviderPlugin": OOV}
    if s["fsys"] != "absent":
        cfg["systemDict"] = name_of(s["fsys"])
    if s["form"] == "json":
        val = json.dumps(cfg)
    elif s["form"] == "file":
        val = os.path.join(F, "cfg_%s.json" % s["fsys"])
        with open(val, "w") as f:
            json.dump(cfg, f)
    elif s["form"] == "missing":
        val = os.path.join(F, "no_such_config.json")
    elif s["form"] == "obj":
        val = Config(system=name_of(s["fsys"]) if s["fsys"] != "absent" else None, oovProviderPlugin=OOV)
    else:
        val = 5
    if s["how"] == "config":
        kwargs["config"] = val
    elif s["how"] == "config_path":
        kwargs["config_path"] = val
    elif s["how"] == "both":
        kwargs["config"] = val
        kwargs["config_path"] = val
    if s["dict"] != "none":
        kwargs["dict"] = name_of(s["dict"])
    if s["dictType"] != "none":
        kwargs["dict_type"] = name_of(s["dictType"])
    if s["resdir"]:
        kwargs["resource_dir"] = os.path.join(F, "res")
    got = {"res": "ok", "sys": "none", "warn": False, "msg": ""}
    with warnings.catch_warnings(record=True) as w:
        warnings.simplefilter("always")
        try:
            d = Dictionary(**kwargs)
            got["sys"] = sys_name(repr(d))
            # the dictionary is usable
            ms = d.create().tokenize("東京都")
            got["n"] = len(ms)
            d.close()
        except BaseException as e:  # PanicException derives from BaseException
            got["res"] = "err"
            got["msg"] = (type(e).__name__ + ": " + str(e))[:200]
        got["warn"] = any(issubclass(x.category, DeprecationWarning) and "dict_type" in str(x.message) for x in w)
    return got


def main():
    scen = json.load(open(inp))
    out = []
    for sc in scen:
        out.append({"s": sc["s"], "want": sc["want"], "got": run(sc["s"])})
    json.dump(out, open(outp, "w"))


if __name__ == "__main__":
    main()
