#!/usr/bin/env python3
"""Random API histories for the Python binding (I->S side of C19).  Deterministic in the seed.
usage: gen_sessions.py <seed> <n_sessions> <out.json>"""
import json
import random
import sys

TEXTS = ["東京都に行った", "京都。東京.東京都。", "特aと東京", "1,234.5円と六三四", "アイウとアイアイウ", "", "abc京都", "高輪ゲートウェイ駅", "東京府に行く",
         "ｶﾞｷﾞ㍿", "東京都東京府", "な。な", "𠮷野家で食べた", "行った行く行け", " ", "é東京", "１２３４", "京都\n東京", "\u0000東京府", "ゔぁいおりん"]
LOOKUPS = ["東京都", "京都", "東京", "行く", "な", "ない", "", "特A", "東京府", "xyz", "に"]
PROJS = ["surface", "normalized", "reading", "dictionary", "dictionary_and_surface", "normalized_and_surface", "normalized_nouns"]
FIELDS = [None, None, None, ["pos"], ["normalized_form", "pos"], ["surface"], ["split_a", "split_b", "pos"], ["dictionary_form", "reading_form", "synonym_group_id"], []]
CFGS = ["default", "full", "regex"]
PATTERNS = [["名詞"], ["動詞"], ["名詞", "固有名詞"], ["None", "None", "None", "None", "None", "終止形-一般"], ["助詞", "格助詞"], ["名詞", "普通名詞", "一般"],
            ["形容詞"], ["名詞", "数詞"], ["None", "固有名詞", "地名"], [], ["存在しない"], ["名詞", "None", "一般"]]
PRED = [(0, "名詞"), (0, "助詞"), (1, "普通名詞"), (5, "*"), (4, "五段-カ行"), (0, "無")]


def cps(s):
    return [ord(c) for c in s]


def gen_session(rng, sid, nops):
    ops = []
    ntk = rng.choice([1, 1, 2])
    tks = []
    for t in range(ntk):
        f = rng.choice(FIELDS)
        ops.append({"op": "create", "tk": t, "mode": rng.choice([-1, 0, 1, 2]), "fields": "all" if f is None else f,
                    "projection": rng.choice(PROJS) if rng.random() < 0.4 else "surface"})
        tks.append(t)
    nlists = 0
    sizes = {}          # driver-side guess of list lengths is not needed: indices are drawn small, out-of-range is a legal call
    nh = 0
    nm = 0
    npt = 0
    long_text = cps("あ" * 16384)   # 49,152 bytes: refused by the library
    for _ in range(nops):
        r = rng.random()
        out = -1
        if nlists > 0 and rng.random() < 0.45:
            out = rng.randrange(nlists)
        if rng.random() < (0.25 if npt else 0.1):
            if npt == 0 or rng.random() < 0.2:
                f = rng.choice(FIELDS)
                op = {"op": "pretok_new", "pt": npt, "mode": rng.choice([-1, 0, 1, 2]), "fields": "all" if f is None else f,
                      "projection": rng.choice(PROJS) if rng.random() < 0.4 else "surface", "handler": rng.random() < 0.4}
                npt += 1
            else:
                op = {"op": "pretok_call", "pt": rng.randrange(npt), "text": long_text if rng.random() < 0.05 else cps(rng.choice(TEXTS))}
            ops.append(op)
            continue
        if rng.random() < 0.18:
            rr = rng.random()
            if rr < 0.45 or nm == 0:
                op = {"op": "matcher", "mid": nm, "pats": [rng.choice(PATTERNS) for _ in range(rng.choice([1, 1, 2, 3]))]}
            elif rr < 0.6:
                f, v = rng.choice(PRED)
                op = {"op": "matcher_fn", "mid": nm, "field": f, "value": v}
            else:
                op = {"op": "mop", "mid": nm, "kind": rng.choice(["or", "and", "sub", "inv"]), "a": rng.randrange(nm), "b": rng.randrange(nm)}
            nm += 1
            ops.append(op)
            continue
        if r < 0.45 or nlists == 0:
            text = long_text if rng.random() < 0.08 else cps(rng.choice(TEXTS))
            op = {"op": "tokenize", "tk": rng.choice(tks), "text": text, "mode": rng.choice([-1, -1, 0, 1, 2]), "out": out, "new": nlists}
        elif r < 0.75:
            op = {"op": "split", "list": rng.randrange(nlists), "idx": rng.choice([0, 0, 1, 2, 3, 7]), "mode": rng.choice([0, 0, 1, 2]), "out": out,
                  "new": nlists, "add_single": rng.choice([True, True, False])}
        elif r < 0.88:
            op = {"op": "lookup", "text": cps(rng.choice(LOOKUPS)), "out": out, "new": nlists}
        else:
            op = {"op": "hold", "h": nh, "list": rng.randrange(nlists), "idx": rng.choice([0, 1, 2])}
            nh += 1
        if op["op"] != "hold" and out == -1:
            nlists += 1   # the id is consumed even if the call fails: ids are never reused
        ops.append(op)
    if rng.random() < 0.25:
        # a list first filled by a tokenizer with a restricted field request, then reused by lookup, then split: nothing of the
        # earlier use (its field request in particular) may show in the later results
        f = rng.choice([["surface"], [], ["pos"], ["normalized_form"]])
        t = ntk
        ops.append({"op": "create", "tk": t, "mode": rng.choice([-1, 2]), "fields": f, "projection": "surface"})
        ops.append({"op": "tokenize", "tk": t, "text": cps(rng.choice(["東京都に行った", "京都"])), "mode": -1, "out": -1, "new": nlists})
        ops.append({"op": "lookup", "text": cps(rng.choice(["東京都", "東京府"])), "out": nlists, "new": nlists + 1})
        ops.append({"op": "split", "list": nlists, "idx": 0, "mode": rng.choice([0, 1]), "out": -1, "new": nlists + 1, "add_single": True})
    return {"sess": sid, "cfg": rng.choice(CFGS), "ops": ops}


def main():
    seed, n, out = int(sys.argv[1]), int(sys.argv[2]), sys.argv[3]
    rng = random.Random(seed)
    json.dump([gen_session(rng, i + 1, rng.randrange(4, 14)) for i in range(n)], open(out, "w"))


if __name__ == "__main__":
    main()
