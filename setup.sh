#!/bin/sh
# Offline setup after a fresh restore: build the harness against /repo (hooks on).
set -e
cd "$(dirname "$0")"
mkdir -p work/tlc work/traces evidence/replays
[ -f harness/Cargo.lock ] || cp /repo/Cargo.lock harness/Cargo.lock
(cd harness && CARGO_NET_OFFLINE=true cargo build --offline -q)
echo "setup ok"
